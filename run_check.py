#!/venv/bin/python
"""Entry point of every registered check.

    run_check.py C07 --tier quick|thorough [--only sub1,sub2]
    run_check.py C07 --replay replays/C07/<file>.json

Exit 0: property held on everything explored.  Exit 1 + "VIOLATION property=<id> replay=<path>".
Exit 2: harness error (never reported as a violation).
"""
import os
import sys

VERIF = os.path.dirname(os.path.abspath(__file__))
REPO = os.environ.get("VERIF_REPO", "/repo")


def _reexec_if_needed():
    if os.environ.get("PYTHONHASHSEED") != "0":
        env = dict(os.environ)
        env["PYTHONHASHSEED"] = "0"
        os.execve(sys.executable, [sys.executable] + sys.argv, env)


def main(argv):
    _reexec_if_needed()
    sys.path.insert(0, VERIF)
    deps = os.path.join(VERIF, ".deps")
    if os.path.isdir(deps):
        sys.path.insert(1, deps)
    sys.path.insert(1, REPO)
    os.environ.setdefault("MPLBACKEND", "Agg")
    from vp import core

    if argv and argv[0] == "--worker":
        _, pid, sub, shard, tier, seed, out = argv
        core.worker_main(pid, sub, int(shard), tier, int(seed), out)
        return 0
    if argv and argv[0] == "--replay-worker":
        _, pid, path, out = argv
        core.replay_worker(pid, path, out)
        return 0
    if argv and argv[0] == "--corpus-worker":
        _, pid, out = argv
        core.corpus_worker(pid, out)
        return 0

    import argparse
    ap = argparse.ArgumentParser()
    ap.add_argument("prop")
    ap.add_argument("--tier", default=os.environ.get("VERIF_TIER", "quick"),
                    choices=["quick", "thorough"])
    ap.add_argument("--replay", default=None)
    ap.add_argument("--only", default=None)
    ap.add_argument("--jobs", type=int, default=None)
    a = ap.parse_args(argv)
    try:
        seed = int(os.environ.get("VERIF_SEED", "1"))
    except ValueError:
        seed = 1
    try:
        if a.replay:
            return core.replay(a.prop, a.replay)
        return core.run_property(a.prop, a.tier, seed,
                                 only=a.only.split(",") if a.only else None, jobs=a.jobs)
    except Exception:
        import traceback
        traceback.print_exc()
        print("HARNESS-ERROR: unexpected exception in supervisor")
        return 2


if __name__ == "__main__":
    sys.exit(main(sys.argv[1:]))

"""Reference semantics of variational forms (independent of pyiga).

A form is a JSON-able AST (see vp/gen/forms.py for the grammar).  `Interp` evaluates an AST node to
a tensor (nested tuple structure) of scalar *jets*: value, first and second parametric derivatives as
numpy arrays broadcastable to (Q, I, J) = (quadrature nodes, test functions, trial functions).
Physical derivatives are DEFINED through the chain rule  d/dx_k e = sum_a (J^-1)[a,k] d/dxi_a e  applied
with jet arithmetic (so Hessians get the geometry-Hessian term automatically); nothing of pyiga's
transformation pipeline is reused.  Index conventions (documented in pyiga): coordinate k (xyz order)
belongs to tensor axis d-1-k; Jacobians have columns in xyz order.
"""
import itertools
import math
import numpy as np

from . import bspl as rb
from . import geo as rg


LEAF_NOISE = 4 * np.finfo(float).eps / 1e-10       # see Env.spline_jets


class FormError(Exception):
    """The AST denotes something outside the language (type error) -- the reference rejects it."""


# ---------------------------------------------------------------------------------------------
# jets

class Jet:
    """Scalar jet: value v, parametric gradient g (list of d arrays) and Hessian h (d x d), each broadcastable to (Q, I, J).
    `mag` is a second jet of the same order holding *magnitudes*: the value the same expression takes when every leaf is
    replaced by its absolute value and every subtraction by an addition.  It bounds the size of the terms an entry is
    composed of and is the scale of the rounding tolerance (a difference that cancels to 0 must not be compared with
    relative tolerance to 0)."""
    __slots__ = ("v", "g", "h", "d", "mag")

    def __init__(self, v, g=None, h=None, d=0, mag=None):
        self.v = v          # ndarray
        self.g = g          # list of d ndarrays or None
        self.h = h          # d x d nested list (symmetric) or None
        self.d = d
        if mag is None:     # leaf: magnitudes are the absolute values
            mag = Jet(np.abs(v), [np.abs(x) for x in g] if g is not None else None,
                      [[np.abs(x) for x in r] for r in h] if h is not None else None, d, mag=False)
        self.mag = mag      # False marks a magnitude jet itself

    @property
    def order(self):
        return 2 if self.h is not None else (1 if self.g is not None else 0)

    def lower(self, order):
        if order >= self.order:
            return self
        m = self.mag.lower(order) if self.mag is not False else False
        return Jet(self.v, self.g if order >= 1 else None, None, self.d, mag=m)


def const_jet(c, d, order=2):
    v = np.asarray(float(c)).reshape(1, 1, 1)
    z = np.zeros((1, 1, 1))
    return Jet(v, [z] * d if order >= 1 else None, [[z] * d for _ in range(d)] if order >= 2 else None, d)


def _ord(*js):
    return min(j.order for j in js)


def _raw_add(a, b, sign=1.0):
    o = _ord(a, b)
    d = a.d
    v = a.v + sign * b.v
    g = [a.g[k] + sign * b.g[k] for k in range(d)] if o >= 1 else None
    h = [[a.h[i][k] + sign * b.h[i][k] for k in range(d)] for i in range(d)] if o >= 2 else None
    return v, g, h


def _raw_mul(a, b):
    o = _ord(a, b)
    d = a.d
    v = a.v * b.v
    g = [a.g[k] * b.v + a.v * b.g[k] for k in range(d)] if o >= 1 else None
    h = None
    if o >= 2:
        h = [[a.h[i][k] * b.v + a.g[i] * b.g[k] + a.g[k] * b.g[i] + a.v * b.h[i][k] for k in range(d)] for i in range(d)]
    return v, g, h


def j_add(a, b, sign=1.0):
    v, g, h = _raw_add(a, b, sign)
    mv, mg, mh = _raw_add(a.mag, b.mag, 1.0)
    return Jet(v, g, h, a.d, mag=Jet(mv, mg, mh, a.d, mag=False))


def j_neg(a):
    d = a.d
    return Jet(-a.v, [-x for x in a.g] if a.g is not None else None,
               [[-x for x in r] for r in a.h] if a.h is not None else None, d, mag=a.mag)


def j_mul(a, b):
    v, g, h = _raw_mul(a, b)
    mv, mg, mh = _raw_mul(a.mag, b.mag)
    return Jet(v, g, h, a.d, mag=Jet(mv, mg, mh, a.d, mag=False))


def j_fun(a, f0, f1, f2):
    """Chain rule for a scalar function with derivatives f1, f2."""
    d = a.d
    v = f0(a.v)
    g = h = mg = mh = None
    m = a.mag
    with np.errstate(all="ignore"):
        d1 = f1(a.v)
        a1 = np.abs(d1)
        mv = np.abs(v) + a1 * m.v
        if a.order >= 1:
            d2 = f2(a.v)
            a2 = np.abs(d2)
            c1 = a1 + a2 * m.v              # magnitude of f'(a) including the error of its argument
            g = [d1 * a.g[k] for k in range(d)]
            mg = [c1 * m.g[k] for k in range(d)]
            if a.order >= 2:
                c2 = a2 * (1.0 + m.v)
                h = [[d2 * a.g[i] * a.g[k] + d1 * a.h[i][k] for k in range(d)] for i in range(d)]
                mh = [[c2 * m.g[i] * m.g[k] + c1 * m.h[i][k] for k in range(d)] for i in range(d)]
    return Jet(v, g, h, d, mag=Jet(mv, mg, mh, d, mag=False))


def j_recip(a):
    return j_fun(a, lambda x: 1.0 / x, lambda x: -1.0 / x ** 2, lambda x: 2.0 / x ** 3)


def j_div(a, b):
    return j_mul(a, j_recip(b))


def j_dx_param(a, k):
    """Parametric partial derivative: jet of order-1."""
    if a.order < 1:
        raise FormError("internal: jet order too low")
    d = a.d
    g = [a.h[k][c] for c in range(d)] if a.order >= 2 else None
    m = a.mag
    mg = [m.h[k][c] for c in range(d)] if a.order >= 2 else None
    return Jet(a.g[k], g, None, d, mag=Jet(m.g[k], mg, None, d, mag=False))


FUNCS = {
    "abs": (np.abs, np.sign, lambda x: 0.0 * x),
    "sqrt": (np.sqrt, lambda x: 0.5 / np.sqrt(x), lambda x: -0.25 * x ** -1.5),
    "exp": (np.exp, np.exp, np.exp),
    "log": (np.log, lambda x: 1.0 / x, lambda x: -1.0 / x ** 2),
    "sin": (np.sin, np.cos, lambda x: -np.sin(x)),
    "cos": (np.cos, lambda x: -np.sin(x), lambda x: -np.cos(x)),
    "tan": (np.tan, lambda x: 1.0 / np.cos(x) ** 2, lambda x: 2 * np.tan(x) / np.cos(x) ** 2),
}


# ---------------------------------------------------------------------------------------------
# tensors of jets: scalars are Jets, vectors tuples of Jets, matrices tuples of tuples

def shape_of(t):
    if isinstance(t, Jet):
        return ()
    if isinstance(t[0], Jet):
        return (len(t),)
    return (len(t), len(t[0]))


def t_map(f, t):
    s = shape_of(t)
    if s == ():
        return f(t)
    if len(s) == 1:
        return tuple(f(x) for x in t)
    return tuple(tuple(f(x) for x in r) for r in t)


def t_zip(f, a, b):
    sa, sb = shape_of(a), shape_of(b)
    if sa == () and sb != ():
        return t_map(lambda y: f(a, y), b)
    if sb == () and sa != ():
        return t_map(lambda x: f(x, b), a)
    if sa != sb:
        raise FormError("shape mismatch %r %r" % (sa, sb))
    if sa == ():
        return f(a, b)
    if len(sa) == 1:
        return tuple(f(x, y) for x, y in zip(a, b))
    return tuple(tuple(f(x, y) for x, y in zip(r, s)) for r, s in zip(a, b))


def t_sum(items):
    items = list(items)
    acc = items[0]
    for x in items[1:]:
        acc = j_add(acc, x)
    return acc


def t_det(A):
    n = len(A)
    if shape_of(A) != (n, n):
        raise FormError("det of non-square")
    if n == 1:
        return A[0][0]
    if n == 2:
        return j_add(j_mul(A[0][0], A[1][1]), j_mul(A[0][1], A[1][0]), -1.0)
    if n == 3:
        terms = []
        for perm in itertools.permutations(range(3)):
            sgn = 1.0
            for i in range(3):
                for k in range(i + 1, 3):
                    if perm[i] > perm[k]:
                        sgn = -sgn
            t = j_mul(j_mul(A[0][perm[0]], A[1][perm[1]]), A[2][perm[2]])
            terms.append(t if sgn > 0 else j_neg(t))
        return t_sum(terms)
    raise FormError("det only up to 3x3")


def t_minor(A, i, j):
    n = len(A)
    return tuple(tuple(A[r][c] for c in range(n) if c != j) for r in range(n) if r != i)


def t_inv(A):
    n = len(A)
    if shape_of(A) != (n, n):
        raise FormError("inv of non-square")
    dt = t_det(A)
    if n == 1:
        return ((j_recip(dt),),)
    rd = j_recip(dt)
    out = []
    for i in range(n):
        row = []
        for j in range(n):
            c = t_det(t_minor(A, j, i))       # adjugate: cofactor of (j,i)
            if (i + j) % 2:
                c = j_neg(c)
            row.append(j_mul(c, rd))
        out.append(tuple(row))
    return tuple(out)


# ---------------------------------------------------------------------------------------------
# environment: quadrature, basis jets, geometry jets, inputs

def gauss_nodes(breaks, nqp):
    x, w = np.polynomial.legendre.leggauss(nqp)
    a = np.asarray(breaks[:-1])[:, None]
    b = np.asarray(breaks[1:])[:, None]
    nodes = 0.5 * (a + b) + 0.5 * (b - a) * x[None, :]
    weights = 0.5 * (b - a) * w[None, :]
    return nodes.ravel(), weights.ravel()


class Env:
    """spaces: [kvs_space0, kvs_space1?] each a list of (knots, p) in tensor-axis order.
    geo: RefSpline (dim -> geo_dim).  boundary: None or (axis, side)."""

    def __init__(self, dim, spaces, geo, boundary=None, nqp=None):
        self.dim = dim
        self.spaces = spaces
        self.geo = geo
        self.boundary = boundary
        allkv = [kv for sp in spaces for kv in sp]
        self.nqp = nqp or (max(p for _, p in allkv) + 1)
        grid, wts = [], []
        for ax in range(dim):
            br = np.unique(spaces[0][ax][0])
            if boundary is not None and boundary[0] == ax:
                grid.append(np.array([br[0] if boundary[1] == 0 else br[-1]]))
                wts.append(np.ones(1))
            else:
                x, w = gauss_nodes(br, self.nqp)
                grid.append(x)
                wts.append(w)
        self.grid = grid
        self.wts = wts
        self.Q = int(np.prod([len(g) for g in grid]))
        W = np.ones(())
        for ax in range(dim):
            W = np.multiply.outer(W, wts[ax])
        self.W = W.reshape(-1)
        self._geo_jets = None
        self._jinv = None

    # per-axis Gauss weight as a field (Q,1,1): weight of tensor axis ax
    def gw_axis(self, ax):
        shp = [1] * self.dim
        shp[ax] = len(self.wts[ax])
        arr = np.broadcast_to(self.wts[ax].reshape(shp), [len(g) for g in self.grid]).reshape(-1)
        return arr.reshape(self.Q, 1, 1)

    def basis_indices(self, space):
        """Multi-indices (C order) of the basis functions that are assembled."""
        nd = [len(t) - p - 1 for t, p in self.spaces[space]]
        rng = []
        for ax, n in enumerate(nd):
            if self.boundary is not None and self.boundary[0] == ax:
                rng.append([0] if self.boundary[1] == 0 else [n - 1])
            else:
                rng.append(list(range(n)))
        return rng

    def basis_jet(self, space, role, order):
        """Scalar basis functions of a space as a Jet with arrays (Q, I, 1) (role 'v') or (Q, 1, J)."""
        d = self.dim
        rng = self.basis_indices(space)
        mats = {}
        for ax in range(d):
            t, p = self.spaces[space][ax]
            for k in range(order + 1):
                mats[(ax, k)] = rb.colloc(t, p, self.grid[ax], k)[:, rng[ax]]

        def tp(der):   # der per tensor axis
            M = np.ones((1, 1))
            for ax in range(d):
                M = np.kron(M, mats[(ax, der[ax])])
            return M    # (Q, N)

        def shaped(M):
            return M[:, :, None] if role == "v" else M[:, None, :]
        zero = [0] * d
        v = shaped(tp(zero))
        g = h = None
        if order >= 1:
            g = []
            for k in range(d):
                der = list(zero)
                der[d - 1 - k] += 1
                g.append(shaped(tp(der)))
        if order >= 2:
            h = [[None] * d for _ in range(d)]
            for i in range(d):
                for k in range(i, d):
                    der = list(zero)
                    der[d - 1 - i] += 1
                    der[d - 1 - k] += 1
                    h[i][k] = h[k][i] = shaped(tp(der))
        return Jet(v, g, h, d)

    def nbasis(self, space):
        return int(np.prod([len(r) for r in self.basis_indices(space)]))

    def spline_jets(self, ref, order):
        """Jets of the components of a RefSpline at the quadrature nodes: returns tensor of Jets."""
        d = self.dim
        R = ref.on_grid(self.grid, order)
        val = R[0].reshape((self.Q,) + R[0].shape[d:])
        J = R[1].reshape((self.Q,) + R[1].shape[d:]) if order >= 1 else None
        H = R[2].reshape((self.Q,) + R[2].shape[d:]) if order >= 2 else None
        tshape = val.shape[1:]

        # Leaf magnitudes: |value|, but never below the value's own rounding noise expressed as a magnitude.  A spline value /
        # derivative carries an absolute error of a few eps * S with S = sum |coefficient| |basis derivative| (a Jacobian entry
        # that vanishes identically, e.g. d(time)/d(space parameter) of a space-time cylinder, is pure noise of that size, and
        # two correct evaluations differ by it).  Results are compared with relative tolerance rtol >= 1e-10 on magnitudes,
        # so the noise corresponds to a magnitude of LEAF_NOISE * S.  (Using S itself as the magnitude would be far too
        # coarse: S exceeds |value| by factors of 10..1000 for derivatives and the factors multiply through products.)
        # NURBS: quotient-rule bound from the homogeneous parts.
        def absd(*ks):
            der = [0] * d
            for k in ks:
                der[d - 1 - k] += 1
            A = ref.abs_scale(grid=self.grid, der=der)
            return A.reshape((self.Q,) + A.shape[d:])
        M0 = absd()
        M1 = [absd(k) for k in range(d)] if order >= 1 else None
        M2 = [[absd(i, k) for k in range(d)] for i in range(d)] if order >= 2 else None
        if ref.nurbs:
            w = np.abs(ref._raw_grid(self.grid, [0] * d)[..., -1]).reshape(self.Q)
            w = np.maximum(w, 1e-300)

            def comp(A, idx):
                # homogeneous coefficient arrays carry the weight as last component of the (vector) value axis
                if ref.scalar_nurbs or A.ndim == 2 and tshape == ():
                    return A[:, 0]
                return A[(slice(None),) + idx]

            def wpart(A):
                return A[:, -1]

            def mag_v(idx):
                return comp(M0, idx) / w

            def mag_g(idx, k):
                return (comp(M1[k], idx) + comp(M0, idx) * wpart(M1[k]) / w) / w

            def mag_h(idx, i, k):
                return (comp(M2[i][k], idx) + (comp(M1[i], idx) * wpart(M1[k]) + comp(M1[k], idx) * wpart(M1[i])) / w
                        + comp(M0, idx) * (wpart(M2[i][k]) + 2.0 * wpart(M1[i]) * wpart(M1[k]) / w) / w) / w
        else:
            def mag_v(idx):
                return M0[(slice(None),) + idx]

            def mag_g(idx, k):
                return M1[k][(slice(None),) + idx]

            def mag_h(idx, i, k):
                return M2[i][k][(slice(None),) + idx]

        def mk(idx):
            v = val[(slice(None),) + idx].reshape(self.Q, 1, 1)
            g = [J[(slice(None),) + idx + (k,)].reshape(self.Q, 1, 1) for k in range(d)] if order >= 1 else None
            h = [[H[(slice(None),) + idx + (i, k)].reshape(self.Q, 1, 1) for k in range(d)] for i in range(d)] if order >= 2 else None
            mv = np.maximum(np.abs(v), LEAF_NOISE * mag_v(idx).reshape(self.Q, 1, 1))
            mg = [np.maximum(np.abs(g[k]), LEAF_NOISE * mag_g(idx, k).reshape(self.Q, 1, 1)) for k in range(d)] if order >= 1 else None
            mh = [[np.maximum(np.abs(h[i][k]), LEAF_NOISE * mag_h(idx, i, k).reshape(self.Q, 1, 1)) for k in range(d)]
                  for i in range(d)] if order >= 2 else None
            return Jet(v, g, h, d, mag=Jet(mv, mg, mh, d, mag=False))
        if tshape == ():
            return mk(())
        if len(tshape) == 1:
            return tuple(mk((i,)) for i in range(tshape[0]))
        return tuple(tuple(mk((i, j)) for j in range(tshape[1])) for i in range(tshape[0]))

    def geo_jets(self):
        if self._geo_jets is None:
            self._geo_jets = self.spline_jets(self.geo, 2)
        return self._geo_jets

    def jac(self, order=1):
        """Jacobian matrix as tensor of jets (geo_dim x dim), order <= 1."""
        G = self.geo_jets()
        return tuple(tuple(j_dx_param(G[i], k).lower(order) for k in range(self.dim)) for i in range(len(G)))

    def jinv(self):
        if self._jinv is None:
            if len(self.geo_jets()) != self.dim:
                raise FormError("physical derivatives need a square Jacobian")
            self._jinv = t_inv(self.jac(1))
        return self._jinv

    def dx_phys(self, e, k):
        """Physical partial derivative of a scalar jet by the chain rule."""
        Ji = self.jinv()
        terms = []
        for a in range(self.dim):
            de = j_dx_param(e, a)
            terms.append(j_mul(Ji[a][k].lower(de.order), de))
        return t_sum(terms)

    def points_phys(self):
        """Physical coordinates of the quadrature nodes (Q, geo_dim)."""
        G = self.geo_jets()
        return np.stack([G[i].v.reshape(self.Q) for i in range(len(G))], axis=-1)


# ---------------------------------------------------------------------------------------------
# interpreter

class Interp:
    def __init__(self, env, form, data):
        """form: dict with keys dim, arity, comps, spaces, measure, inputs, params, terms.
        data: {"inputs": {name: RefSpline | callable(points)->array}, "params": {name: ndarray}}"""
        self.env = env
        self.form = form
        self.data = data
        self.d = env.dim
        # space-time forms: the last coordinate is time; grad/hess/div act on the space coordinates only
        self.sd = env.dim - 1 if form.get("spacetime") else env.dim
        self.arity = form["arity"]
        comps = form.get("comps") or [None, None]
        spaces = form.get("spaces") or [0, 0]
        if self.arity == 2:
            self.bf = {"u": (spaces[0], comps[0], "u"), "v": (spaces[1], comps[1], "v")}
        else:
            self.bf = {"v": (spaces[0], comps[0], "v")}
        self._bfjet = {}
        self._vars = {}

    # -- basis functions ---------------------------------------------------------------------
    def basis(self, name, order):
        """Scalar or vector basis function as tensor of jets.  Vector basis functions: the dof index runs
        over (component, scalar index) and component c of dof (c', i) is delta_{cc'} phi_i."""
        space, nc, role = self.bf[name]
        key = (name, order)
        if key in self._bfjet:
            return self._bfjet[key]
        phi = self.env.basis_jet(space, "v" if name == "v" else "u", order)
        if not nc or nc == 1:
            res = phi
        else:
            N = self.env.nbasis(space)
            comps = []
            for c in range(nc):
                def blk(arr, c=c):
                    if name == "v":     # arr (Q, N, 1) -> (Q, nc*N, 1)
                        out = np.zeros((arr.shape[0], nc * N, 1))
                        out[:, c * N:(c + 1) * N, :] = arr
                    else:
                        out = np.zeros((arr.shape[0], 1, nc * N))
                        out[:, :, c * N:(c + 1) * N] = arr
                    return out
                comps.append(Jet(blk(phi.v), [blk(x) for x in phi.g] if phi.g is not None else None,
                                 [[blk(x) for x in r] for r in phi.h] if phi.h is not None else None, self.d))
            res = tuple(comps)
        self._bfjet[key] = res
        return res

    # -- evaluation ---------------------------------------------------------------------------
    def ev(self, node, order=0):
        op = node[0]
        d = self.d
        env = self.env
        if op == "const":
            return const_jet(node[1], d, order)
        if op == "vec":
            return tuple(self._scalar(self.ev(x, order)) for x in node[1:])
        if op == "mat":
            return tuple(tuple(self._scalar(self.ev(x, order)) for x in row) for row in node[1:])
        if op in ("u", "v"):
            if op not in self.bf:
                raise FormError("basis function %s not available" % op)
            return t_map(lambda j: j.lower(order), self.basis(op, order))
        if op == "param":
            val = np.asarray(self.data["params"][node[1]], dtype=float)
            return self._const_tensor(val, order)
        if op == "input":
            return self.input_tensor(node[1], order)
        if op == "var":
            key = (node[1], order)
            if key not in self._vars:
                decl = [v for v in self.form.get("lets", []) if v["name"] == node[1]]
                if not decl:
                    raise FormError("unknown variable %s" % node[1])
                self._vars[key] = self.ev(decl[0]["expr"], order)
            return self._vars[key]
        if op == "x":
            return t_map(lambda j: j.lower(order), env.geo_jets())
        if op == "jac":
            if order > 1:
                raise FormError("jac derivative order")
            return env.jac(order)
        if op == "n":
            return self.normal(order)
        if op == "gw":
            g = const_jet(1.0, d, order)
            arr = np.ones((env.Q, 1, 1))
            for ax in range(d):
                arr = arr * env.gw_axis(ax)
            return Jet(arr, g.g, g.h, d)
        if op in ("+", "-"):
            a, b = self.ev(node[1], order), self.ev(node[2], order)
            return t_zip(lambda x, y: j_add(x, y, 1.0 if op == "+" else -1.0), a, b)
        if op == "*":
            a, b = self.ev(node[1], order), self.ev(node[2], order)
            return t_zip(j_mul, a, b)
        if op == "/":
            a, b = self.ev(node[1], order), self.ev(node[2], order)
            return t_zip(j_div, a, b)
        if op == "neg":
            return t_map(j_neg, self.ev(node[1], order))
        if op == "pow":
            a = self._scalar(self.ev(node[1], order))
            k = int(node[2])
            if k == 0:
                return const_jet(1.0, d, order)
            r = a
            for _ in range(abs(k) - 1):
                r = j_mul(r, a)
            return r if k > 0 else j_recip(r)
        if op == "fn":
            a = self._scalar(self.ev(node[2], order))
            f0, f1, f2 = FUNCS[node[1]]
            return j_fun(a, f0, f1, f2)
        if op == "dx":          # ["dx", e, k, parametric]
            e = self.ev(node[1], order + 1)
            k = int(node[2])
            para = bool(node[3])
            if k >= d:
                raise FormError("derivative direction out of range")
            f = (lambda j: j_dx_param(j, k)) if para else (lambda j: env.dx_phys(j, k))
            if len(shape_of(e)) == 2:
                raise FormError("derivative of matrix")
            return t_map(lambda j: f(j).lower(order), e)
        if op == "grad":        # ["grad", e, parametric]
            e = self.ev(node[1], order + 1)
            para = bool(node[2])
            dims = range(self.sd)
            f = (lambda j, k: j_dx_param(j, k)) if para else (lambda j, k: env.dx_phys(j, k))
            s = shape_of(e)
            if s == ():
                return tuple(f(e, k).lower(order) for k in dims)
            if len(s) == 1:
                return tuple(tuple(f(c, k).lower(order) for k in dims) for c in e)
            raise FormError("grad of matrix")
        if op == "hess":        # scalar only
            e = self.ev(node[1], order + 2)
            para = bool(node[2])
            if shape_of(e) != ():
                raise FormError("hess of non-scalar")
            f = (lambda j, k: j_dx_param(j, k)) if para else (lambda j, k: env.dx_phys(j, k))
            return tuple(tuple(f(f(e, i), k).lower(order) for k in range(self.sd)) for i in range(self.sd))
        if op == "div":
            e = self.ev(node[1], order + 1)
            para = bool(node[2])
            if shape_of(e) != (self.sd,):
                raise FormError("div needs a d-vector")
            f = (lambda j, k: j_dx_param(j, k)) if para else (lambda j, k: env.dx_phys(j, k))
            return t_sum(f(e[k], k).lower(order) for k in range(self.sd))
        if op == "dt":          # ["dt", e, times]: derivative along the physical time coordinate (the last one)
            if not self.form.get("spacetime"):
                raise FormError("time derivative outside a space-time form")
            times = int(node[2])
            e = self.ev(node[1], order + times)
            if len(shape_of(e)) == 2:
                raise FormError("time derivative of matrix")

            def f(j):
                for _ in range(times):
                    j = env.dx_phys(j, d - 1)
                return j.lower(order)
            return t_map(f, e)
        if op == "curl":
            e = self.ev(node[1], order + 1)
            if d != 3 or shape_of(e) != (3,):
                raise FormError("curl needs 3D vector")
            D = lambda c, k: env.dx_phys(e[c], k).lower(order)
            return (j_add(D(2, 1), D(1, 2), -1.0), j_add(D(0, 2), D(2, 0), -1.0), j_add(D(1, 0), D(0, 1), -1.0))
        if op == "idx":
            e = self.ev(node[1], order)
            I = node[2:]
            s = shape_of(e)
            if len(I) != len(s) or any(not (0 <= i < n) for i, n in zip(I, s)):
                raise FormError("bad index")
            return e[I[0]] if len(I) == 1 else e[I[0]][I[1]]
        if op == "row":
            e = self.ev(node[1], order)
            return tuple(e[node[2]])
        if op == "col":
            e = self.ev(node[1], order)
            return tuple(r[node[2]] for r in e)
        if op == "inner":
            a, b = self.ev(node[1], order), self.ev(node[2], order)
            sa, sb = shape_of(a), shape_of(b)
            if sa != sb or sa == ():
                raise FormError("inner shapes")
            if len(sa) == 1:
                return t_sum(j_mul(x, y) for x, y in zip(a, b))
            return t_sum(j_mul(x, y) for r, s in zip(a, b) for x, y in zip(r, s))
        if op == "dot":
            a, b = self.ev(node[1], order), self.ev(node[2], order)
            sa, sb = shape_of(a), shape_of(b)
            if len(sa) == 1 and len(sb) == 1 and sa == sb:
                return t_sum(j_mul(x, y) for x, y in zip(a, b))
            if len(sa) == 2 and len(sb) == 1 and sa[1] == sb[0]:
                return tuple(t_sum(j_mul(a[i][k], b[k]) for k in range(sb[0])) for i in range(sa[0]))
            if len(sa) == 2 and len(sb) == 2 and sa[1] == sb[0]:
                return tuple(tuple(t_sum(j_mul(a[i][k], b[k][j]) for k in range(sa[1])) for j in range(sb[1])) for i in range(sa[0]))
            raise FormError("dot shapes")
        if op == "outer":
            a, b = self.ev(node[1], order), self.ev(node[2], order)
            if len(shape_of(a)) != 1 or len(shape_of(b)) != 1:
                raise FormError("outer shapes")
            return tuple(tuple(j_mul(x, y) for y in b) for x in a)
        if op == "cross":
            a, b = self.ev(node[1], order), self.ev(node[2], order)
            if shape_of(a) != (3,) or shape_of(b) != (3,):
                raise FormError("cross shapes")
            return (j_add(j_mul(a[1], b[2]), j_mul(a[2], b[1]), -1.0),
                    j_add(j_mul(a[2], b[0]), j_mul(a[0], b[2]), -1.0),
                    j_add(j_mul(a[0], b[1]), j_mul(a[1], b[0]), -1.0))
        if op == "tr":
            A = self.ev(node[1], order)
            s = shape_of(A)
            if len(s) != 2 or s[0] != s[1]:
                raise FormError("tr shapes")
            return t_sum(A[i][i] for i in range(s[0]))
        if op == "T":
            A = self.ev(node[1], order)
            s = shape_of(A)
            if len(s) != 2:
                raise FormError("T of non-matrix")
            return tuple(tuple(A[i][j] for i in range(s[0])) for j in range(s[1]))
        if op == "det":
            return t_det(self.ev(node[1], order))
        if op == "inv":
            return t_inv(self.ev(node[1], order))
        if op == "norm":
            a = self.ev(node[1], order)
            s = t_sum(j_mul(x, x) for x in a)
            f0, f1, f2 = FUNCS["sqrt"]
            return j_fun(s, f0, f1, f2)
        if op == "dxm":     # volume measure  gw * |det J|
            return self.measure("dx")
        if op == "dsm":
            return self.measure("ds")
        raise FormError("unknown node %r" % (op,))

    def _scalar(self, t):
        if not isinstance(t, Jet):
            raise FormError("expected scalar")
        return t

    def _const_tensor(self, val, order):
        d = self.d
        if val.ndim == 0:
            return const_jet(val, d, order)
        if val.ndim == 1:
            return tuple(const_jet(x, d, order) for x in val)
        return tuple(tuple(const_jet(x, d, order) for x in r) for r in val)

    def input_tensor(self, name, order):
        decl = [i for i in self.form["inputs"] if i["name"] == name][0]
        src = self.data["inputs"][name]
        if decl["kind"] == "spline":
            return self.env.spline_jets(src, order)
        # physical callable: value only
        if order > 0:
            raise FormError("derivative of a physical callable input")
        pts = self.env.points_phys()
        val = np.asarray(src(pts), dtype=float)        # (Q, *shape)
        d = self.d

        def mk(arr):
            return Jet(arr.reshape(self.env.Q, 1, 1), None, None, d)
        ts = val.shape[1:]
        if ts == ():
            return mk(val)
        if len(ts) == 1:
            return tuple(mk(val[:, i]) for i in range(ts[0]))
        return tuple(tuple(mk(val[:, i, j]) for j in range(ts[1])) for i in range(ts[0]))

    # -- measures and normals -------------------------------------------------------------------
    def _gw(self):
        arr = np.ones((self.env.Q, 1, 1))
        for ax in range(self.d):
            arr = arr * self.env.gw_axis(ax)
        return arr

    def _param_outward(self):
        """Outward parametric unit normal of the boundary face in xyz coordinates."""
        ax, side = self.env.boundary
        k = self.d - 1 - ax
        n = np.zeros(self.d)
        n[k] = -1.0 if side == 0 else 1.0
        return n

    def _J_array(self):
        Jt = self.env.jac(0)
        gd, d = len(Jt), self.d
        return np.stack([np.stack([Jt[i][k].v.reshape(self.env.Q) for k in range(d)], axis=-1) for i in range(gd)], axis=-2)

    def unscaled_normal(self):
        """(Q, geo_dim) array: surface: right-hand rule; boundary: cof(J) n_hat (outward, length = area factor)."""
        J = self._J_array()             # (Q, gd, d)
        d = self.d
        if self.env.boundary is not None:
            nh = self._param_outward()
            detJ = np.linalg.det(J)
            JinvT = np.transpose(np.linalg.inv(J), (0, 2, 1))
            # cofactor matrix times parametric normal; orientation-preserving maps assumed for the sign
            return (np.abs(detJ)[:, None]) * (JinvT @ nh)
        gd = J.shape[1]
        if (gd, d) == (2, 1):
            t = J[:, :, 0]
            return np.stack([-t[:, 1], t[:, 0]], axis=-1)
        if (gd, d) == (3, 2):
            return np.cross(J[:, :, 0], J[:, :, 1])
        raise FormError("no normal for Jacobian shape %r" % ((gd, d),))

    def normal(self, order):
        if order > 0:
            raise FormError("derivative of the normal")
        un = self.unscaled_normal()
        nrm = np.linalg.norm(un, axis=-1, keepdims=True)
        n = un / nrm
        return tuple(Jet(n[:, i].reshape(self.env.Q, 1, 1), None, None, self.d) for i in range(n.shape[1]))

    def measure(self, kind):
        gw = self._gw()
        if kind == "gw":
            return Jet(gw, None, None, self.d)
        if kind == "dx":
            if self.env.boundary is not None or len(self.env.geo_jets()) != self.d:
                raise FormError("dx needs a volume integral")
            detJ = np.linalg.det(self._J_array()).reshape(self.env.Q, 1, 1)
            return Jet(gw * np.abs(detJ), None, None, self.d)
        if kind == "ds":
            if self.env.boundary is None and len(self.env.geo_jets()) == self.d:
                raise FormError("ds needs a surface or boundary integral")
            un = self.unscaled_normal()
            return Jet(gw * np.linalg.norm(un, axis=-1).reshape(self.env.Q, 1, 1), None, None, self.d)
        raise FormError("unknown measure")

    # -- assembly -------------------------------------------------------------------------------
    def integrand(self, with_mag=False):
        """Sum of all terms (each already multiplied by its measure): array (Q, I, J) [and the magnitude array]."""
        total = None
        mag = None
        for term in self.form["terms"]:
            e = self._scalar(self.ev(term, 0))
            total = e.v if total is None else total + e.v
            mag = e.mag.v if mag is None else mag + e.mag.v
        if with_mag:
            return total, mag
        return total

    def assemble(self):
        val, mag = self.integrand(with_mag=True)
        nv = self._ndof("v")
        nu = self._ndof("u") if self.arity == 2 else 1
        val = np.broadcast_to(val, (self.env.Q, nv, nu))
        mag = np.broadcast_to(mag, (self.env.Q, nv, nu))
        A = np.einsum("qij->ij", val)
        sabs = np.einsum("qij->ij", mag)
        if self.arity == 1:
            return A[:, 0], sabs[:, 0]
        return A, sabs

    def _ndof(self, name):
        space, nc, role = self.bf[name]
        return self.env.nbasis(space) * (nc or 1)

"""Interpreter for the language the pyiga back-end consumes after VForm.finalize(): ConstExpr, VarRefExpr,
NegExpr, BuiltinFuncExpr, ScalarOperExpr, PartialDerivExpr (parametric), GaussWeightExpr and literal
vectors/matrices -- exactly the dispatch table of the code generator -- executed in the EMITTED order:
input-field arrays and parameters, then the precomputed variables in order, then the kernel variables in
order, then the kernel expressions.  A variable read before it is assigned, or a precomputed variable
that depends on a basis function, fails the run by construction."""
import numpy as np

from ..core import Violation
from . import forms as rf


class TargetError(Exception):
    pass


NPFUN = {"abs": np.abs, "sqrt": np.sqrt, "exp": np.exp, "log": np.log, "sin": np.sin, "cos": np.cos, "tan": np.tan}
OPS = {"+": np.add, "-": np.subtract, "*": np.multiply, "/": np.divide}


class Target:
    def __init__(self, vf, env, interp, data, spec):
        self.vf = vf
        self.env = env
        self.interp = interp       # source interpreter: only used as a provider of *leaf* jets
        self.data = data
        self.spec = spec
        self.vals = {}             # var name -> dict index tuple -> ndarray
        self.in_precomp = False
        self.d = env.dim

    # -- leaves -------------------------------------------------------------------------------------
    def _input_arrays(self, var):
        """Values of an InputField-sourced variable: dict I -> array, I indexing var.shape."""
        src = var.src
        name = src.name
        deriv = var.deriv
        d = self.d
        if name == "geo":
            jets = self.env.geo_jets()
        else:
            jets = self.interp.input_tensor(name, deriv if not src.physical else 0)
            if src.physical and deriv > 0:
                raise TargetError("derivative array of a physical input field")
        out = {}
        base_shape = tuple(src.shape)

        def put(I, jet):
            if deriv == 0:
                out[I] = jet.v
            elif deriv == 1:
                for k in range(d):
                    out[I + (k,)] = jet.g[k]
            else:
                n = 0
                for i in range(d):
                    for k in range(i, d):
                        out[I + (n,)] = jet.h[i][k]
                        n += 1
        if base_shape == ():
            put((), jets)
        elif len(base_shape) == 1:
            for i in range(base_shape[0]):
                put((i,), jets[i])
        else:
            for i in range(base_shape[0]):
                for j in range(base_shape[1]):
                    put((i, j), jets[i][j])
        return out

    def _basis(self, e):
        bf = e.basisfun
        if e.physical and sum(e.D) > 0:
            raise Violation("target_language", "physical derivative %s survived finalize()" % (e,))
        if self.in_precomp:
            raise Violation("precompute_scope", "precomputed variable depends on basis function %s" % bf.name)
        if bf.component is not None:
            raise Violation("target_language", "component basis function %s survived finalize()" % (e,))
        order = sum(e.D)
        if order > 2:
            raise TargetError("derivative order > 2")
        # pyiga calls the single basis function of a linear form 'u'; the reference calls it 'v'
        name = "v" if self.interp.arity == 1 else bf.name
        space, nc, role = self.interp.bf[name]
        jet = self.env.basis_jet(space, "v" if name == "v" else "u", order)
        idx = []
        for k, n in enumerate(e.D):
            idx += [k] * n
        if order == 0:
            return jet.v
        if order == 1:
            return jet.g[idx[0]]
        return jet.h[idx[0]][idx[1]]

    # -- expressions ----------------------------------------------------------------------------------
    def ev(self, e):
        t = type(e).__name__
        if t == "ConstExpr":
            return np.asarray(e.value, dtype=float).reshape(1, 1, 1)
        if t == "VarRefExpr":
            if sum(e.D) != 0:
                raise Violation("target_language", "derivative reference %s survived finalize()" % (e,))
            var = e.var
            if var.name not in self.vals:
                raise Violation("use_before_definition", "variable %s is read before it is assigned in the emitted order" % var.name)
            I = tuple(e.I)
            if len(I) == 2 and var.symmetric and I[0] > I[1]:
                I = (I[1], I[0])
            tab = self.vals[var.name]
            if I not in tab:
                raise Violation("use_before_definition", "entry %r of %s is never assigned" % (I, var.name))
            return tab[I]
        if t == "NegExpr":
            return -self.ev(e.children[0])
        if t == "BuiltinFuncExpr":
            with np.errstate(all="ignore"):
                return NPFUN[e.funcname](self.ev(e.children[0]))
        if t == "ScalarOperExpr":
            acc = self.ev(e.children[0])
            with np.errstate(all="ignore"):
                for c in e.children[1:]:
                    acc = OPS[e.oper](acc, self.ev(c))
            return acc
        if t == "PartialDerivExpr":
            return self._basis(e)
        if t == "GaussWeightExpr":
            return self.env.gw_axis(e.axis)
        raise Violation("target_language", "expression type %s is not in the code generator's dispatch table" % t)

    def ev_tensor(self, e):
        """dict index -> array for a scalar / literal vector / literal matrix expression."""
        if e.shape == ():
            return {(): self.ev(e)}
        t = type(e).__name__
        if t not in ("LiteralVectorExpr", "LiteralMatrixExpr"):
            raise Violation("target_language", "non-literal tensor expression %s survived finalize()" % t)
        if len(e.shape) == 1:
            return {(i,): self.ev(e[i]) for i in range(e.shape[0])}
        return {(i, j): self.ev(e[i, j]) for i in range(e.shape[0]) for j in range(e.shape[1])}

    def _define(self, var):
        tab = self.ev_tensor(var.expr)
        if len(var.shape) == 2 and var.symmetric:
            tab = {I: v for I, v in tab.items() if I[0] <= I[1]}
        self.vals[var.name] = tab

    # -- program -----------------------------------------------------------------------------------
    def run(self):
        vf = self.vf
        # 1. sources
        for var in vf.linear_deps:
            if type(var).__name__ == "BasisFun":
                continue
            if var.src is not None:
                sname = type(var.src).__name__
                if sname == "InputField":
                    self.vals[var.name] = self._input_arrays(var)
                elif sname == "Parameter":
                    if var.name == "Jac_to_boundary":
                        val = self.data["Jac_to_boundary"]
                    else:
                        val = np.asarray(self.data["params"][var.name], dtype=float)
                    self.vals[var.name] = {I: np.asarray(val[I], dtype=float).reshape(1, 1, 1) for I in np.ndindex(val.shape)}
        # 2. precompute
        self.in_precomp = True
        pre = [v for v in vf.precomp if type(v).__name__ != "BasisFun" and v.expr is not None]
        for var in [v for v in pre if int(v.scope) == 0] + [v for v in pre if int(v.scope) != 0]:
            self._define(var)
        self.in_precomp = False
        # 3. kernel
        ker = [v for v in vf.kernel_deps if v.expr is not None and not v.is_global]
        for var in [v for v in ker if int(v.scope) == 0] + [v for v in ker if int(v.scope) != 0]:
            self._define(var)
        # 4. result expressions
        total = None
        for e in vf.exprs:
            tab = self.ev_tensor(e)
            total = tab if total is None else {I: total[I] + tab[I] for I in tab}
        return total

"""Independent B-spline reference (no pyiga imports): Cox-de Boor values/derivatives in exact
rational arithmetic and in vectorised floating point, knot insertion matrices, tensor-product
evaluation of spline / NURBS maps.

Conventions: knots `t` is a non-decreasing sequence, open (first and last knot repeated p+1 times);
basis functions are right-continuous and, at the right end point, left-continuous.
"""
from fractions import Fraction
import numpy as np


# ---------------------------------------------------------------------------------------------
# generic (exact or float) scalar code

def find_span(t, p, u):
    """Index s with t[s] <= u < t[s+1], t[s] < t[s+1]; the last non-empty span at the right end.
    Linear scan (obviously correct)."""
    n = len(t) - p - 1          # number of basis functions
    if u >= t[n]:
        s = n - 1
        while t[s] == t[s + 1]:
            s -= 1
        return s
    if u < t[p]:
        raise ValueError("point left of the domain")
    s = p
    while not (t[s] <= u < t[s + 1]):
        s += 1
    return s


def all_derivs_generic(t, p, u, nder, zero=0, one=1):
    """Returns (first_active, D, S) where D[k][j] is the k-th derivative of N_{first+j,p} at u and
    S[k][j] the sum of the absolute values of the terms it is composed of (condition measure),
    k = 0..nder, j = 0..p.  Arithmetic type follows t/u (Fraction or float)."""
    s = find_span(t, p, u)
    # tables per degree q: T[q][k] is a list of length q+1 for functions i = s-q .. s
    # level q = 0
    prevD = [[one]]       # prevD[k][j] for degree q-1
    prevS = [[one]]
    for q in range(1, p + 1):
        curD = []
        curS = []
        kmax = min(nder, q)
        for k in range(kmax + 1):
            rowD = []
            rowS = []
            for j in range(q + 1):
                i = s - q + j
                # left parent N_{i,q-1}: local index j-1 in level q-1 ; right parent N_{i+1,q-1}: j
                if k == 0:
                    a = zero
                    sa = zero
                    if j - 1 >= 0:
                        w = (u - t[i]) / (t[i + q] - t[i])
                        a = w * prevD[0][j - 1]
                        sa = abs(w) * prevS[0][j - 1]
                    b = zero
                    sb = zero
                    if j <= q - 1:
                        w = (t[i + q + 1] - u) / (t[i + q + 1] - t[i + 1])
                        b = w * prevD[0][j]
                        sb = abs(w) * prevS[0][j]
                    rowD.append(a + b)
                    rowS.append(sa + sb)
                else:
                    a = zero
                    sa = zero
                    if j - 1 >= 0 and k - 1 < len(prevD):
                        w = q / (t[i + q] - t[i])
                        a = w * prevD[k - 1][j - 1]
                        sa = w * prevS[k - 1][j - 1]
                    b = zero
                    sb = zero
                    if j <= q - 1 and k - 1 < len(prevD):
                        w = q / (t[i + q + 1] - t[i + 1])
                        b = w * prevD[k - 1][j]
                        sb = w * prevS[k - 1][j]
                    rowD.append(a - b)
                    rowS.append(sa + sb)
            curD.append(rowD)
            curS.append(rowS)
        prevD, prevS = curD, curS
    D = [list(r) for r in prevD]
    S = [list(r) for r in prevS]
    while len(D) < nder + 1:
        D.append([zero] * (p + 1))
        S.append([zero] * (p + 1))
    return s - p, D, S


def exact_derivs(t, p, u, nder):
    """Exact rational values.  t: sequence of floats, u: float."""
    tf = [Fraction(float(x)) for x in t]
    return all_derivs_generic(tf, p, Fraction(float(u)), nder, Fraction(0), Fraction(1))


# ---------------------------------------------------------------------------------------------
# vectorised float version

def find_spans(t, p, u):
    t = np.asarray(t, dtype=float)
    u = np.asarray(u, dtype=float)
    n = len(t) - p - 1
    s = np.searchsorted(t, u, side="right") - 1
    # right end: last non-empty span
    last = n - 1
    while t[last] == t[last + 1]:
        last -= 1
    s = np.where(u >= t[n], last, s)
    s = np.clip(s, p, last)
    return s.astype(int)


def basis_derivs(t, p, u, nder=0, absolute=False):
    """Float Cox-de Boor.  Returns (first, D) with first[m] = first active index at u[m] and
    D[k, m, j] = k-th derivative of N_{first[m]+j, p}(u[m]).
    absolute=True: the sum of the absolute values of the terms each derivative is composed of (the differences of the
    derivative recursion become sums): the condition-aware rounding scale S >= |D| (cf. all_derivs_generic)."""
    t = np.asarray(t, dtype=float)
    u = np.atleast_1d(np.asarray(u, dtype=float))
    s = find_spans(t, p, u)
    m = len(u)
    prev = [np.ones((m, 1))]
    for q in range(1, p + 1):
        kmax = min(nder, q)
        cur = []
        idx = s[:, None] - q + np.arange(q + 1)[None, :]     # i for each local j
        tl = t[idx]                # t_i
        tlq = t[idx + q]           # t_{i+q}
        tr1 = t[idx + 1]           # t_{i+1}
        trq = t[idx + q + 1]       # t_{i+q+1}
        with np.errstate(divide="ignore", invalid="ignore"):
            dl = tlq - tl
            dr = trq - tr1
        for k in range(kmax + 1):
            P = prev[k] if k == 0 else (prev[k - 1] if k - 1 < len(prev) else None)
            row = np.zeros((m, q + 1))
            if k == 0:
                # left parents: j = 1..q use prev[:, j-1]
                wl = (u[:, None] - tl[:, 1:]) / dl[:, 1:]
                row[:, 1:] += wl * P
                wr = (trq[:, :q] - u[:, None]) / dr[:, :q]
                row[:, :q] += wr * P
            else:
                if P is not None:
                    row[:, 1:] += q / dl[:, 1:] * P
                    if absolute:
                        row[:, :q] += q / dr[:, :q] * P
                    else:
                        row[:, :q] -= q / dr[:, :q] * P
            cur.append(row)
        prev = cur
    D = np.zeros((nder + 1, m, p + 1))
    for k in range(min(nder, p) + 1):
        if k < len(prev):
            D[k] = prev[k]
    return s - p, D


def colloc(t, p, u, k=0, absolute=False):
    """Dense collocation matrix C[m, i] = N_i^{(k)}(u[m]) (absolute=True: the rounding scales, see basis_derivs)."""
    t = np.asarray(t, dtype=float)
    u = np.atleast_1d(np.asarray(u, dtype=float))
    n = len(t) - p - 1
    first, D = basis_derivs(t, p, u, k, absolute=absolute)
    C = np.zeros((len(u), n))
    rows = np.arange(len(u))[:, None]
    cols = first[:, None] + np.arange(p + 1)[None, :]
    C[rows, cols] = D[k]
    return C


def numdofs(t, p):
    return len(t) - p - 1


def mesh(t):
    return np.unique(np.asarray(t, dtype=float))


def greville(t, p):
    t = np.asarray(t, dtype=float)
    n = len(t) - p - 1
    if p == 0:      # cell mid points (documented convention of the library for degree 0)
        return np.array([(t[i] + t[i + 1]) / 2 for i in range(n)])
    return np.array([float(sum(Fraction(float(x)) for x in t[i + 1:i + p + 1]) / p)
                     for i in range(n)])


def supports(t, p):
    """(n,2) array of [t_i, t_{i+p+1}]."""
    t = np.asarray(t, dtype=float)
    n = len(t) - p - 1
    return np.stack([t[:n], t[p + 1:p + 1 + n]], axis=1)


# ---------------------------------------------------------------------------------------------
# knot insertion (Boehm), generic arithmetic

def insert_knot_matrix(t, p, x, zero=0.0, one=1.0):
    """Matrix (n+1) x n (list of lists) mapping coefficients over t to coefficients over t+{x}.
    Returns (matrix, new_knots)."""
    n = len(t) - p - 1
    # k with t[k] <= x < t[k+1]
    k = None
    for i in range(len(t) - 1):
        if t[i] <= x < t[i + 1]:
            k = i
            break
    if k is None:
        raise ValueError("knot outside the open interval")
    A = [[zero] * n for _ in range(n + 1)]
    for i in range(n + 1):
        if i <= k - p:
            a = one
        elif i >= k + 1:
            a = zero
        else:
            a = (x - t[i]) / (t[i + p] - t[i])
        if i < n:
            A[i][i] = a
        if i - 1 >= 0:
            A[i][i - 1] = one - a
    newt = list(t[:k + 1]) + [x] + list(t[k + 1:])
    return A, newt


def multiset_diff(fine, coarse):
    """Knots in `fine` (sorted) not in `coarse` (sorted) as a multiset; raises if not nested."""
    out = []
    j = 0
    coarse = list(coarse)
    for x in fine:
        if j < len(coarse) and coarse[j] == x:
            j += 1
        else:
            out.append(x)
    if j != len(coarse):
        raise ValueError("knot vectors not nested")
    return out


def prolongation_matrix(tc, p, tf, exact=False):
    """Matrix P (n_fine x n_coarse) with  N^c_i = sum_j P[j,i] N^f_j  for nested open knot vectors."""
    if exact:
        tc = [Fraction(float(x)) for x in tc]
        tf = [Fraction(float(x)) for x in tf]
        zero, one = Fraction(0), Fraction(1)
    else:
        tc = [float(x) for x in tc]
        tf = [float(x) for x in tf]
        zero, one = 0.0, 1.0
    new = multiset_diff(tf, tc)
    n = len(tc) - p - 1
    P = [[one if i == j else zero for j in range(n)] for i in range(n)]
    t = list(tc)
    for x in new:
        A, t = insert_knot_matrix(t, p, x, zero, one)
        # P <- A @ P, A is bidiagonal
        rows = len(A)
        newP = []
        for i in range(rows):
            r = [zero] * n
            if i < len(P):
                a = A[i][i]
                if a != 0:
                    Pi = P[i]
                    r = [a * v for v in Pi]
            if i - 1 >= 0:
                b = A[i][i - 1]
                if b != 0:
                    Pm = P[i - 1]
                    r = [rv + b * v for rv, v in zip(r, Pm)]
            newP.append(r)
        P = newP
    return np.array([[float(v) for v in r] for r in P]).reshape(len(P), n)


# ---------------------------------------------------------------------------------------------
# piecewise polynomial representation (exact)

def poly_mul(a, b):
    out = [Fraction(0)] * (len(a) + len(b) - 1)
    for i, x in enumerate(a):
        if x == 0:
            continue
        for j, y in enumerate(b):
            out[i + j] += x * y
    return out


def poly_add(a, b):
    n = max(len(a), len(b))
    return [(a[i] if i < len(a) else 0) + (b[i] if i < len(b) else 0) for i in range(n)]


def poly_deriv(a, k=1):
    for _ in range(k):
        a = [i * a[i] for i in range(1, len(a))] or [Fraction(0)]
    return a


def poly_integral(a, lo, hi):
    tot = Fraction(0)
    for i, c in enumerate(a):
        tot += c * (hi ** (i + 1) - lo ** (i + 1)) / (i + 1)
    return tot


def poly_eval(a, x):
    r = 0
    for c in reversed(a):
        r = r * x + c
    return r


def pp_basis(t, p):
    """Exact piecewise polynomials.  Returns (breaks, pieces) where pieces[s][i] is the coefficient
    list (ascending powers of u, Fractions) of N_i on span s=[breaks[s],breaks[s+1]) (absent if 0)."""
    tf = [Fraction(float(x)) for x in t]
    n = len(tf) - p - 1
    breaks = sorted(set(tf))
    pieces = []
    for sidx in range(len(breaks) - 1):
        lo = breaks[sidx]
        # span index in knot vector: last k with t[k]==lo
        k = max(i for i in range(len(tf) - 1) if tf[i] == lo and tf[i] < tf[i + 1])
        # Cox-de Boor with polynomial arithmetic
        N = {k: [Fraction(1)]}
        for q in range(1, p + 1):
            M = {}
            for i in range(k - q, k + 1):
                acc = [Fraction(0)]
                if i in N:
                    d = tf[i + q] - tf[i]
                    # (u - t_i)/d * N_i
                    acc = poly_add(acc, poly_mul([-tf[i] / d, Fraction(1) / d], N[i]))
                if (i + 1) in N:
                    d = tf[i + q + 1] - tf[i + 1]
                    acc = poly_add(acc, poly_mul([tf[i + q + 1] / d, Fraction(-1) / d], N[i + 1]))
                M[i] = acc
            N = M
        pieces.append({i: c for i, c in N.items() if 0 <= i < n})
    return breaks, pieces


# ---------------------------------------------------------------------------------------------
# tensor-product spline functions (float)

def tp_eval(kvs, coeffs, grid, derivs=None):
    """kvs: list of (knots, p) per axis (axis 0 first).  coeffs: array (n0,...,n_{d-1}, *val).
    grid: list of 1-D arrays per axis.  derivs: derivative order per axis.
    Returns array (len(grid0),...,len(grid_{d-1}), *val)."""
    d = len(kvs)
    derivs = derivs or [0] * d
    out = np.asarray(coeffs, dtype=float)
    for ax in range(d):
        t, p = kvs[ax]
        C = colloc(t, p, grid[ax], derivs[ax])
        out = np.moveaxis(np.tensordot(C, out, axes=(1, ax)), 0, ax)
    return out


def tp_eval_points(kvs, coeffs, pts, derivs=None):
    """pts: (m, d) array with coordinates in *axis order* (axis 0 first).  Returns (m, *val)."""
    d = len(kvs)
    derivs = derivs or [0] * d
    pts = np.asarray(pts, dtype=float).reshape(-1, d)
    co = np.asarray(coeffs, dtype=float)
    m = pts.shape[0]
    Cs = [colloc(kvs[ax][0], kvs[ax][1], pts[:, ax], derivs[ax]) for ax in range(d)]
    # out[m, ...] = sum_{i0..} prod_ax Cs[ax][m, i_ax] * co[i0.., ...]
    letters = "abcdefg"[:d]
    expr = ",".join("z" + l for l in letters) + "," + letters + "...->z..."
    return np.einsum(expr, *Cs, co)

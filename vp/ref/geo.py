"""Reference evaluation of tensor-product spline / NURBS maps (values, Jacobians, Hessians) on top of
vp.ref.bspl.  Axis conventions follow the documentation of pyiga: coefficient axes are in zyx order
(axis 0 = last coordinate), Jacobian columns are in xyz order (x-derivative first... i.e. column j is the
derivative w.r.t. coordinate j in xyz order, which is tensor axis d-1-j)."""
import itertools
import numpy as np
from . import bspl as rb


class RefSpline:
    """kvs: list of (knots, p) in tensor-axis order; coeffs: (n0..n_{d-1}, *vshape);
    nurbs: if True the last component of the (vector) coefficients is the weight and the others are
    premultiplied."""
    def __init__(self, kvs, coeffs, nurbs=False, scalar_nurbs=False):
        self.kvs = [(np.asarray(t, dtype=float), int(p)) for t, p in kvs]
        self.d = len(self.kvs)
        self.co = np.asarray(coeffs, dtype=float)
        self.nurbs = nurbs
        self.scalar_nurbs = scalar_nurbs

    # -- raw B-spline part -------------------------------------------------------------------
    def _raw(self, pts_axis, der):
        return rb.tp_eval_points(self.kvs, self.co, pts_axis, list(der))

    def _raw_grid(self, grid, der):
        return rb.tp_eval(self.kvs, self.co, grid, list(der))

    def _unit(self, ax):
        e = [0] * self.d
        e[ax] = 1
        return e

    def _jets(self, ev, order):
        """ev(der) evaluates the raw spline for a derivative multi-index (axis order).
        Returns dict der-tuple -> array."""
        d = self.d
        out = {}
        for tot in range(order + 1):
            for combo in itertools.combinations_with_replacement(range(d), tot):
                der = [0] * d
                for a in combo:
                    der[a] += 1
                out[tuple(der)] = ev(der)
        return out

    def _assemble(self, jets, order):
        """From raw jets produce value, jacobian (..., *v, d) [xyz columns], hessian (..., *v, d, d)
        [xyz order] as requested."""
        d = self.d
        z = tuple([0] * d)

        def e(a):
            t = [0] * d
            t[a] = 1
            return tuple(t)

        def ee(a, b):
            t = [0] * d
            t[a] += 1
            t[b] += 1
            return tuple(t)

        if not self.nurbs:
            val = jets[z]
            res = [val]
            if order >= 1:
                J = np.stack([jets[e(d - 1 - j)] for j in range(d)], axis=-1)
                res.append(J)
            if order >= 2:
                H = np.stack([np.stack([jets[ee(d - 1 - i, d - 1 - j)] for j in range(d)], axis=-1)
                              for i in range(d)], axis=-2)
                res.append(H)
            return res
        # NURBS: quotient rule
        N = jets[z][..., :-1]
        W = jets[z][..., -1:]
        val = N / W
        res = [val[..., 0] if self.scalar_nurbs else val]
        if order >= 1:
            cols = []
            for j in range(d):
                a = d - 1 - j
                Nj = jets[e(a)][..., :-1]
                Wj = jets[e(a)][..., -1:]
                cols.append((Nj * W - N * Wj) / W ** 2)
            J = np.stack(cols, axis=-1)
            res.append(J[..., 0, :] if self.scalar_nurbs else J)
        if order >= 2:
            rows = []
            for i in range(d):
                a = d - 1 - i
                Ni = jets[e(a)][..., :-1]
                Wi = jets[e(a)][..., -1:]
                cols = []
                for j in range(d):
                    b = d - 1 - j
                    Nj = jets[e(b)][..., :-1]
                    Wj = jets[e(b)][..., -1:]
                    Nij = jets[ee(a, b)][..., :-1]
                    Wij = jets[ee(a, b)][..., -1:]
                    h = Nij / W - (Ni * Wj + Nj * Wi) / W ** 2 - N * Wij / W ** 2 + 2 * N * Wi * Wj / W ** 3
                    cols.append(h)
                rows.append(np.stack(cols, axis=-1))
            H = np.stack(rows, axis=-2)
            res.append(H[..., 0, :, :] if self.scalar_nurbs else H)
        return res

    def at_points(self, pts_xyz, order=0):
        """pts_xyz: (m, d) coordinates in xyz order.  Returns [val, jac?, hess?]."""
        pts_xyz = np.asarray(pts_xyz, dtype=float).reshape(-1, self.d)
        pts_axis = pts_xyz[:, ::-1]
        jets = self._jets(lambda der: self._raw(pts_axis, der), order)
        return self._assemble(jets, order)

    def on_grid(self, grid, order=0):
        """grid: list of 1-D arrays in tensor-axis (zyx) order."""
        jets = self._jets(lambda der: self._raw_grid(grid, der), order)
        return self._assemble(jets, order)

    def abs_scale(self, grid=None, pts_xyz=None, der=None):
        """Sum of |basis derivative| * |coeff| : rounding scale for a raw derivative."""
        der = der or [0] * self.d
        out = np.abs(self.co)
        if grid is not None:
            for ax in range(self.d):
                t, p = self.kvs[ax]
                C = np.abs(rb.colloc(t, p, grid[ax], der[ax], absolute=True))
                out = np.moveaxis(np.tensordot(C, out, axes=(1, ax)), 0, ax)
            return out
        pts_axis = np.asarray(pts_xyz, dtype=float).reshape(-1, self.d)[:, ::-1]
        Cs = [np.abs(rb.colloc(self.kvs[ax][0], self.kvs[ax][1], pts_axis[:, ax], der[ax], absolute=True)) for ax in range(self.d)]
        letters = "abcdefg"[:self.d]
        expr = ",".join("z" + l for l in letters) + "," + letters + "...->z..."
        return np.einsum(expr, *Cs, out)


def hess_linearized(H, d):
    """(..., d, d) symmetric -> (..., d(d+1)/2) in the documented order (xx, xy, xz, yy, yz, zz)."""
    I, J = np.triu_indices(d)
    return H[..., I, J]


def from_pyiga(f):
    """Build a RefSpline from a pyiga BSplineFunc / NurbsFunc object's OWN kvs and coeffs."""
    kvs = [(np.asarray(kv.kv, dtype=float), int(kv.p)) for kv in f.kvs]
    cls = type(f).__name__
    if cls == "NurbsFunc":
        return RefSpline(kvs, np.asarray(f.coeffs, dtype=float), nurbs=True, scalar_nurbs=bool(f._isscalar))
    return RefSpline(kvs, np.asarray(f.coeffs, dtype=float))

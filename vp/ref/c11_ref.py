"""Text-book reference models for C11 (independent of pyiga; numpy only).

* Gauss-Seidel relaxation written out coordinate by coordinate, together with a running first-order
  rounding-error bound (so the comparison tolerance follows the conditioning of the iteration);
* Gauss-quadrature mass/stiffness matrices of a univariate B-spline basis and their Kronecker sums;
* the local multigrid V-cycle (Galerkin coarse operators, restricted smoothing, exact coarse solve)
  in dense arithmetic.
"""
import numpy as np
from . import bspl as rb

EPS = 2.0 ** -52


# ---------------------------------------------------------------------------------------------
# Gauss-Seidel

def sweep_order(n, indices, sweep):
    """The sequence of rows visited by ONE sweep (text-book order)."""
    base = list(range(n)) if indices is None else [int(i) for i in indices]
    if sweep == "forward":
        return base
    if sweep == "backward":
        return base[::-1]
    if sweep == "symmetric":
        return base + base[::-1]
    raise ValueError(sweep)


def gauss_seidel(A, x, b, iterations=1, indices=None, sweep="forward", with_bound=False):
    """Returns the new iterate (x is not modified).  For every visited row i, in order:
         x_i <- (b_i - sum_{j != i} a_ij x_j) / a_ii .
    with_bound=True additionally returns a first-order bound E (per component) of the rounding error of
    ANY floating-point evaluation of the same update sequence (arbitrary summation order)."""
    A = np.asarray(A, dtype=float)
    n = A.shape[0]
    x = [float(v) for v in x]
    b = [float(v) for v in b]
    E = [0.0] * n
    order = sweep_order(n, indices, sweep)
    rows = [[(j, float(A[i, j])) for j in range(n) if j != i and A[i, j] != 0.0] for i in range(n)]
    for _ in range(int(iterations)):
        for i in order:
            s = 0.0
            mag = abs(b[i])
            prop = 0.0
            for j, a in rows[i]:
                s += a * x[j]
                mag += abs(a * x[j])
                prop += abs(a) * E[j]
            d = float(A[i, i])
            xi = (b[i] - s) / d
            if with_bound:
                # (n+2) roundings on quantities bounded by mag, one division
                E[i] = (prop + (len(rows[i]) + 3) * EPS * mag) / abs(d) + EPS * abs(xi)
            x[i] = xi
    if with_bound:
        return np.array(x), np.array(E)
    return np.array(x)


def energy(A, e):
    e = np.asarray(e, dtype=float)
    return float(e @ (np.asarray(A, dtype=float) @ e))


# ---------------------------------------------------------------------------------------------
# univariate Galerkin matrices by Gauss quadrature (exact for the polynomial pieces up to rounding)

def gauss_matrices_1d(t, p):
    """(mass, stiffness) of the B-spline basis over the knot vector t of degree p."""
    t = np.asarray(t, dtype=float)
    br = np.unique(t)
    nq = p + 1
    xg, wg = np.polynomial.legendre.leggauss(nq)
    pts, wts = [], []
    for a, b in zip(br[:-1], br[1:]):
        pts.append(0.5 * (a + b) + 0.5 * (b - a) * xg)
        wts.append(0.5 * (b - a) * wg)
    pts = np.concatenate(pts)
    wts = np.concatenate(wts)
    C0 = rb.colloc(t, p, pts, 0)
    M = C0.T @ (wts[:, None] * C0)
    if p >= 1:
        C1 = rb.colloc(t, p, pts, 1)
        K = C1.T @ (wts[:, None] * C1)
    else:
        K = np.zeros_like(M)
    return 0.5 * (M + M.T), 0.5 * (K + K.T)


def tp_operator(kvs, c_mass):
    """Dense  sum_d (M x..x K_d x..x M) + c_mass * (M x..x M)  in C-order (axis 0 slowest)."""
    MK = [gauss_matrices_1d(t, p) for t, p in kvs]
    dim = len(kvs)
    total = None
    for d in range(dim):
        term = np.ones((1, 1))
        for ax in range(dim):
            term = np.kron(term, MK[ax][1] if ax == d else MK[ax][0])
        total = term if total is None else total + term
    mass = np.ones((1, 1))
    for ax in range(dim):
        mass = np.kron(mass, MK[ax][0])
    return total + float(c_mass) * mass


# ---------------------------------------------------------------------------------------------
# local multigrid V-cycle, dense text-book version

SMOOTHER_SWEEPS = {           # (pre, post) sweep directions as documented in solve_hmultigrid
    "gs": ("forward", "backward"),
    "forward_gs": ("forward", "forward"),
    "backward_gs": ("backward", "backward"),
    "symmetric_gs": ("symmetric", "symmetric"),
}


def galerkin_chain(A, Ps):
    """[A_0, ..., A_L] with A_L = A and A_{k} = P_k^T A_{k+1} P_k."""
    As = [np.asarray(A, dtype=float)]
    for P in reversed(Ps):
        As.append(P.T @ As[-1] @ P)
    As.reverse()
    return As


def vcycle(A, f, Ps, inds, smoother, smooth_steps, x):
    """One cycle of the local multigrid method as documented for solvers.solve_hmultigrid:
    on every level > 0: pre-smoothing restricted to the smoothing set, coarse-grid correction with the
    recursively computed coarse update (zero start), post-smoothing; level 0: exact solve on its set."""
    Ps = [np.asarray(P, dtype=float) for P in Ps]
    As = galerkin_chain(A, Ps)
    inds = [np.asarray(i, dtype=int) for i in inds]

    def subsolve(Al, ind, r):
        if len(ind) == 0:
            return np.zeros(0)
        return np.linalg.solve(Al[np.ix_(ind, ind)], r)

    def step(lv, x, f):
        x1 = np.array(x, dtype=float)
        ind = inds[lv]
        Al = As[lv]
        if lv == 0:
            x1[ind] = subsolve(Al, ind, f[ind])
            return x1
        if smoother == "exact":
            r = (f - Al @ x1)[ind]
            x1[ind] += subsolve(Al, ind, r)
        else:
            x1 = gauss_seidel(Al, x1, f, smooth_steps, ind, SMOOTHER_SWEEPS[smoother][0])
        P = Ps[lv - 1]
        rc = P.T @ (f - Al @ x1)
        x1 = x1 + P @ step(lv - 1, np.zeros(P.shape[1]), rc)
        if smoother != "exact":
            x1 = gauss_seidel(Al, x1, f, smooth_steps, ind, SMOOTHER_SWEEPS[smoother][1])
        return x1

    return step(len(Ps), np.asarray(x, dtype=float), np.asarray(f, dtype=float))


# ---------------------------------------------------------------------------------------------
# virtual hierarchy of a reference hierarchical space

def virtual_functions(ref, k):
    """Dof list of virtual level k: active functions of levels <= k in canonical order, then the
    deactivated functions of level k (sorted)."""
    out = []
    for l in range(k + 1):
        act, dea = ref.functions(l)
        out.extend((l, jj) for jj in sorted(act))
        if l == k:
            out.extend((l, jj) for jj in sorted(dea))
    return out


def on_faces(ref, l, jj, faces):
    """True iff the level-l tensor-product B-spline jj does not vanish on one of the faces (axis, side)."""
    nd = ref.ndofs(l)
    for ax, side in faces:
        if jj[ax] == (0 if side == 0 else nd[ax] - 1):
            return True
    return False

"""Dense reference model for multi-level (Kronecker-structured) sparse matrices (no pyiga imports).

A *level* is a triple (m, n, E): block size m x n and the list E (array nnz x 2) of its nonzero
positions in the order of the compact data layout.  The matrix denoted by levels (1..L) and a data
tensor D of shape (nnz_1, ..., nnz_L) is

    A[ravel(i_1..i_L ; m_1..m_L), ravel(j_1..j_L ; n_1..n_L)] = D[k_1, ..., k_L],   (i_l, j_l) = E_l[k_l]

which is the index form of  (A_1 (x) ... (x) A_L)[i_1 m' + i', j_1 n' + j'] = A_1[i_1, j_1] (A_2 ...)[i', j'].
"""
import numpy as np


def level_pattern(m, n, E):
    P = np.zeros((m, n), dtype=np.int64)
    E = np.asarray(E, dtype=np.int64).reshape(-1, 2)
    if len(E):
        P[E[:, 0], E[:, 1]] = 1
    return P


def kron_all(mats):
    """numpy.kron of a sequence of dense matrices (left to right)."""
    out = np.ones((1, 1), dtype=np.asarray(mats[0]).dtype if len(mats) else float)
    for A in mats:
        out = np.kron(out, np.asarray(A))
    return out


def shape_of(levels):
    M = 1
    N = 1
    for (m, n, _) in levels:
        M *= m
        N *= n
    return M, N


def positions(levels):
    """(I, J) of all nonzeros in C order of the data tensor (first level slowest)."""
    I = np.zeros(1, dtype=np.int64)
    J = np.zeros(1, dtype=np.int64)
    for (m, n, E) in levels:
        E = np.asarray(E, dtype=np.int64).reshape(-1, 2)
        I = (I[:, None] * m + E[None, :, 0]).ravel()
        J = (J[:, None] * n + E[None, :, 1]).ravel()
    return I, J


def dense_pattern(levels):
    """0/1 pattern as the numpy.kron product of the level patterns."""
    return kron_all([level_pattern(m, n, E) for (m, n, E) in levels])


def dense_matrix(levels, data):
    M, N = shape_of(levels)
    A = np.zeros((M, N), dtype=float)
    I, J = positions(levels)
    A[I, J] = np.asarray(data, dtype=float).ravel(order="C")
    return A


def self_check(levels):
    """The index formula and numpy.kron must describe the same pattern (harness sanity)."""
    I, J = positions(levels)
    P = dense_pattern(levels)
    Q = np.zeros_like(P)
    np.add.at(Q, (I, J), 1)
    if not np.array_equal(P, Q):
        raise AssertionError("reference positions disagree with numpy.kron pattern")
    return P


def permute_levels_dense(A, levels, axes):
    """Dense matrix of the level-permuted structure: perfect-shuffle similarity P_r A P_c^T."""
    L = len(levels)
    ms = [lv[0] for lv in levels]
    ns = [lv[1] for lv in levels]
    T = np.asarray(A).reshape(ms + ns)
    T = T.transpose(list(axes) + [L + a for a in axes])
    M, N = shape_of(levels)
    return T.reshape(M, N)


def sorted_pairs(I, J):
    """Lexicographically sorted (I,J) pairs as an (n,2) int64 array."""
    I = np.asarray(I, dtype=np.int64).ravel()
    J = np.asarray(J, dtype=np.int64).ravel()
    P = np.stack([I, J], axis=1) if len(I) else np.zeros((0, 2), dtype=np.int64)
    if len(P):
        order = np.lexsort((P[:, 1], P[:, 0]))
        P = P[order]
    return P


def support_overlap_pattern(t_rows, p_rows, t_cols, p_cols):
    """Pairs (i, j): B-spline i of (t_rows,p_rows) and B-spline j of (t_cols,p_cols) have supports
    [t[i], t[i+p+1]] overlapping in a set of positive measure.  Plain double loop."""
    nr = len(t_rows) - p_rows - 1
    nc = len(t_cols) - p_cols - 1
    out = []
    for i in range(nr):
        a, b = t_rows[i], t_rows[i + p_rows + 1]
        for j in range(nc):
            c, d = t_cols[j], t_cols[j + p_cols + 1]
            if min(b, d) > max(a, c):
                out.append((i, j))
    return nr, nc, out

"""Reference models for C12 (independent of pyiga; numpy + fractions only).

* rooted trees, their order and density gamma(t), and the elementary weights of a (diagonally implicit)
  Runge-Kutta tableau and of a Rosenbrock-Wanner (ROW) scheme in exact rational arithmetic;
* dense text-book single steps of a DIRK scheme (exact stage solves for F(y)=Ly+g, own Newton to 1e-13 for
  a smooth nonlinear F) and of a ROW scheme, for  M y' = F(y).
"""
from fractions import Fraction

import numpy as np

# ---------------------------------------------------------------------------------------------
# rooted trees as canonical nested tuples: () is the single vertex, (t1,...,tm) a root with subtrees


def _canon(children):
    return tuple(sorted(children))


_TREE_CACHE = {1: [()]}


def _multisets(order):
    """All multisets of trees with total order `order`, as sorted tuples of trees."""
    out = set()

    def rec(remaining, max_order, acc):
        if remaining == 0:
            out.add(_canon(acc))
            return
        for o in range(1, min(remaining, max_order) + 1):
            for t in trees_of_order(o):
                rec(remaining - o, o, acc + [t])
    rec(order, order, [])
    return sorted(out)


def trees_of_order(q):
    """All rooted trees with exactly q vertices (1, 1, 2, 4, 9, 20, ...)."""
    if q not in _TREE_CACHE:
        _TREE_CACHE[q] = _multisets(q - 1)
    return _TREE_CACHE[q]


def order(t):
    return 1 + sum(order(c) for c in t)


def density(t):
    """gamma(t) = |t| * prod gamma(children)."""
    g = order(t)
    for c in t:
        g *= density(c)
    return g


def tree_name(t):
    return "[" + ",".join(tree_name(c) for c in t) + "]" if t else "."


def _frac_matrix(A):
    return [[Fraction(float(v)) for v in row] for row in np.asarray(A, dtype=float)]


def elementary_weights(t, A, G=None):
    """Vector Phi_i(t), i = stages, in exact arithmetic.

    Stage derivative k_i = F(x + tau * sum_j A_ij k_j) + tau * J * sum_j G_ij k_j  (G = 0: Runge-Kutta,
    A may have a diagonal; ROW: A strictly lower, G lower triangular including its diagonal).
    B-series of k_i:  Phi_i(.) = 1;  Phi_i([t1..tm]) = prod_l (sum_j A_ij Phi_j(t_l))
                                     + [m == 1] * sum_j G_ij Phi_j(t_1).
    """
    s = len(A)
    if not t:
        return [Fraction(1)] * s
    sub = [elementary_weights(c, A, G) for c in t]
    out = []
    for i in range(s):
        prod = Fraction(1)
        for ph in sub:
            prod *= sum(A[i][j] * ph[j] for j in range(s))
        if G is not None and len(t) == 1:
            prod += sum(G[i][j] * sub[0][j] for j in range(s))
        out.append(prod)
    return out


def order_residuals(A, b, upto, G=None):
    """{tree: float(sum_i b_i Phi_i(t) - 1/gamma(t))} for all trees with at most `upto` vertices."""
    Af = _frac_matrix(A)
    Gf = _frac_matrix(G) if G is not None else None
    bf = [Fraction(float(v)) for v in np.asarray(b, dtype=float)]
    res = {}
    for q in range(1, upto + 1):
        for t in trees_of_order(q):
            ph = elementary_weights(t, Af, Gf)
            val = sum(bi * p for bi, p in zip(bf, ph)) - Fraction(1, density(t))
            res[t] = float(val)
    return res


def attained_order(A, b, G=None, tol=1e-9, maxorder=6):
    p = 0
    for q in range(1, maxorder + 1):
        Af = _frac_matrix(A)
        Gf = _frac_matrix(G) if G is not None else None
        bf = [Fraction(float(v)) for v in np.asarray(b, dtype=float)]
        ok = True
        for t in trees_of_order(q):
            ph = elementary_weights(t, Af, Gf)
            if abs(float(sum(bi * p_ for bi, p_ in zip(bf, ph)) - Fraction(1, density(t)))) > tol:
                ok = False
                break
        if not ok:
            break
        p = q
    return p


# ---------------------------------------------------------------------------------------------
# dense reference problems  M y' = F(y),  F(y) = L y + g + kappa * sin(D y + ph)

class Problem:
    def __init__(self, M, L, g, kappa=0.0, D=None, ph=None):
        self.M = np.asarray(M, dtype=float)
        self.L = np.asarray(L, dtype=float)
        self.g = np.asarray(g, dtype=float)
        self.kappa = float(kappa)
        self.n = len(self.g)
        self.D = np.asarray(D, dtype=float) if D is not None else np.zeros((self.n, self.n))
        self.ph = np.asarray(ph, dtype=float) if ph is not None else np.zeros(self.n)
        self.linear = (self.kappa == 0.0)

    def F(self, y):
        y = np.asarray(y, dtype=float)
        out = self.L @ y + self.g
        if not self.linear:
            out = out + self.kappa * np.sin(self.D @ y + self.ph)
        return out

    def J(self, y):
        if self.linear:
            return self.L.copy()
        y = np.asarray(y, dtype=float)
        return self.L + self.kappa * (np.cos(self.D @ y + self.ph)[:, None] * self.D)

    def lipschitz(self):
        """Global Lipschitz constant of F in the 2-norm."""
        lip = np.linalg.norm(self.L, 2)
        if not self.linear:
            lip += abs(self.kappa) * np.linalg.norm(self.D, 2)
        return lip


def _norm2(A):
    return float(np.linalg.norm(A, 2))


class DirkReference:
    """One step of the DIRK scheme (rows 0..s-1 = a_ij, row s = b, optional row s+1 = b_hat)."""

    NEWTON_ATOL = 1e-4     # the tolerance hard-coded in pyiga.solvers.dirk_step
    NEWTON_RTOL = 1e-6     # default rtol of pyiga.solvers.newton

    def __init__(self, T):
        T = np.asarray(T, dtype=float)
        self.s = T.shape[1]
        self.A = T[:self.s]
        self.b = T[self.s]
        self.bh = T[self.s + 1] if T.shape[0] == self.s + 2 else None

    def _solve_stage(self, P, tau, aii, rhs, start):
        """Solve M z - tau*aii*F(z) = rhs."""
        if P.linear:
            C = P.M - tau * aii * P.L
            return np.linalg.solve(C, rhs + tau * aii * P.g)
        z = np.array(start, dtype=float)
        for it in range(200):
            r = P.M @ z - tau * aii * P.F(z) - rhs
            if np.linalg.norm(r) <= 1e-13 * (1.0 + np.linalg.norm(rhs)):
                break
            z = z - np.linalg.solve(P.M - tau * aii * P.J(z), r)
        else:
            raise ArithmeticError("reference Newton did not converge")
        return z

    def step(self, P, x, tau):
        """Returns dict(x_new, x_est, ys, Fs, res0, bound_new, bound_est, bound_stage, tight_ok, cond)."""
        s, A = self.s, self.A
        x = np.asarray(x, dtype=float)
        ys, Fs = [], []
        deltas = []       # rigorous bounds on |pyiga stage - exact stage| given Newton's stopping rule
        res0s = []        # initial Newton residuals (with exact predecessors)
        conds = []
        lip = P.lipschitz()
        Minv_norm = 1.0 / np.linalg.svd(P.M, compute_uv=False)[-1]
        for i in range(s):
            aii = A[i, i]
            if aii == 0.0:
                if i != 0:
                    raise ValueError("explicit stage after the first one is outside the DIRK family handled")
                ys.append(x.copy())
                Fs.append(P.F(x))
                deltas.append(0.0)
                res0s.append(None)
                continue
            rhs = P.M @ x + tau * sum(A[i, j] * Fs[j] for j in range(i))
            start = x if i == 0 else ys[-1]
            z = self._solve_stage(P, tau, aii, rhs, start)
            res0 = float(np.linalg.norm(P.M @ start - tau * aii * P.F(start) - rhs))
            res0s.append(res0)
            # stability constant of the stage map: |z1 - z2| <= stab * |G(z1) - G(z2)|
            if P.linear:
                C = P.M - tau * aii * P.L
                sv = np.linalg.svd(C, compute_uv=False)
                stab = 1.0 / sv[-1]
                conds.append(float(sv[0] / sv[-1]))
            else:
                # strong monotonicity: sym(M - tau aii J(z)) >= lam_min(sym(M - tau aii L)) - tau aii kappa |D|
                Cs = P.M - tau * aii * P.L
                mono = float(np.linalg.eigvalsh(0.5 * (Cs + Cs.T))[0]) - abs(tau * aii * P.kappa) * _norm2(P.D)
                if mono <= 0:
                    raise ValueError("stage map not strongly monotone (generator must guarantee this)")
                stab = 1.0 / mono
                conds.append(float((_norm2(P.M) + abs(tau * aii) * lip) * stab))
            # error in the right-hand side inherited from earlier stages + Newton residual allowed by the
            # stopping rule  |res| < max(atol, rtol * res0)   (res0 evaluated at pyiga's own start value,
            # which differs from ours by at most deltas[-1]; covered by the factor 2 and the additive term)
            inherited = abs(tau) * sum(abs(A[i, j]) * lip * deltas[j] for j in range(i))
            start_err = (deltas[-1] if i > 0 else 0.0) * (_norm2(P.M) + abs(tau * aii) * lip)
            target = max(self.NEWTON_ATOL, self.NEWTON_RTOL * (res0 + start_err + inherited))
            deltas.append(stab * (target + inherited))
            ys.append(z)
            Fs.append(P.F(z))
        x_new = x + tau * np.linalg.solve(P.M, sum(self.b[i] * Fs[i] for i in range(s)))
        out = {"ys": ys, "Fs": Fs, "res0": res0s, "cond": max(conds) if conds else 1.0,
               "stage_bounds": deltas}
        out["x_new"] = x_new
        sa = bool(np.allclose(self.b, A[s - 1]))
        if sa:
            out["bound_new"] = deltas[s - 1]
        else:
            out["bound_new"] = abs(tau) * Minv_norm * lip * sum(abs(self.b[i]) * deltas[i] for i in range(s))
        if self.bh is not None:
            out["x_est"] = x + tau * np.linalg.solve(P.M, sum(self.bh[i] * Fs[i] for i in range(s)))
            out["bound_est"] = abs(tau) * Minv_norm * lip * sum(abs(self.bh[i]) * deltas[i] for i in range(s))
        # does Newton provably perform >= 1 iteration in every implicit stage?  (then, for linear F, one exact
        # Newton step lands on the stage solution up to rounding)
        out["tight_ok"] = all(r is None or r > 4 * self.NEWTON_ATOL for r in res0s)
        out["Minv_norm"] = Minv_norm
        return out


class RowReference:
    """One step of the Rosenbrock-Wanner scheme (A strictly lower, Gamma lower with diagonal, b, b_hat)."""

    def __init__(self, A, Gamma, b, b_hat=None):
        self.A = np.asarray(A, dtype=float)
        self.G = np.asarray(Gamma, dtype=float)
        self.b = np.asarray(b, dtype=float)
        self.bh = None if b_hat is None else np.asarray(b_hat, dtype=float)
        self.s = len(self.b)

    def step(self, P, x, tau):
        x = np.asarray(x, dtype=float)
        s = self.s
        Jx = P.J(x)
        ks = []
        conds = []
        for i in range(s):
            yi = x + tau * sum((self.A[i, j] * ks[j] for j in range(i)), np.zeros_like(x))
            rhs = P.F(yi) + tau * Jx @ sum((self.G[i, j] * ks[j] for j in range(i)), np.zeros_like(x))
            C = P.M - tau * self.G[i, i] * Jx
            sv = np.linalg.svd(C, compute_uv=False)
            conds.append(float(sv[0] / sv[-1]))
            ks.append(np.linalg.solve(C, rhs))
        out = {"ks": ks, "cond": max(conds)}
        out["x_new"] = x + tau * sum(self.b[i] * ks[i] for i in range(s))
        if self.bh is not None:
            out["x_est"] = x + tau * sum(self.bh[i] * ks[i] for i in range(s))
        out["kscale"] = float(max(np.max(np.abs(k)) for k in ks)) if ks else 0.0
        return out

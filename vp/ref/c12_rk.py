"""Reference models for C12 (independent of pyiga; numpy + fractions only).

* rooted trees, their order and density gamma(t), and the elementary weights of a (diagonally implicit)
  Runge-Kutta tableau and of a Rosenbrock-Wanner (ROW) scheme in exact rational arithmetic;
* dense text-book single steps of a DIRK scheme (exact stage solves for F(y)=Ly+g, own Newton to 1e-13 for
  a smooth nonlinear F) and of a ROW scheme, for  M y' = F(y).
"""
from fractions import Fraction

import numpy as np

# ---------------------------------------------------------------------------------------------
# rooted trees as canonical nested tuples: () is the single vertex, (t1,...,tm) a root with subtrees


def _canon(children):
    return tuple(sorted(children))


_TREE_CACHE = {1: [()]}


def _multisets(order):
    """All multisets of trees with total order `order`, as sorted tuples of trees."""
    out = set()

    def rec(remaining, max_order, acc):
        if remaining == 0:
            out.add(_canon(acc))
            return
        for o in range(1, min(remaining, max_order) + 1):
            for t in trees_of_order(o):
                rec(remaining - o, o, acc + [t])
    rec(order, order, [])
    return sorted(out)


def trees_of_order(q):
    """All rooted trees with exactly q vertices (1, 1, 2, 4, 9, 20, ...)."""
    if q not in _TREE_CACHE:
        _TREE_CACHE[q] = _multisets(q - 1)
    return _TREE_CACHE[q]


def order(t):
    return 1 + sum(order(c) for c in t)


def density(t):
    """gamma(t) = |t| * prod gamma(children)."""
    g = order(t)
    for c in t:
        g *= density(c)
    return g


def tree_name(t):
    return "[" + ",".join(tree_name(c) for c in t) + "]" if t else "."


def _frac_matrix(A):
    return [[Fraction(float(v)) for v in row] for row in np.asarray(A, dtype=float)]


def elementary_weights(t, A, G=None):
    """Vector Phi_i(t), i = stages, in exact arithmetic.

    Stage derivative k_i = F(x + tau * sum_j A_ij k_j) + tau * J * sum_j G_ij k_j  (G = 0: Runge-Kutta,
    A may have a diagonal; ROW: A strictly lower, G lower triangular including its diagonal).
    B-series of k_i:  Phi_i(.) = 1;  Phi_i([t1..tm]) = prod_l (sum_j A_ij Phi_j(t_l))
                                     + [m == 1] * sum_j G_ij Phi_j(t_1).
    """
    s = len(A)
    if not t:
        return [Fraction(1)] * s
    sub = [elementary_weights(c, A, G) for c in t]
    out = []
    for i in range(s):
        prod = Fraction(1)
        for ph in sub:
            prod *= sum(A[i][j] * ph[j] for j in range(s))
        if G is not None and len(t) == 1:
            prod += sum(G[i][j] * sub[0][j] for j in range(s))
        out.append(prod)
    return out


def order_residuals(A, b, upto, G=None):
    """{tree: float(sum_i b_i Phi_i(t) - 1/gamma(t))} for all trees with at most `upto` vertices."""
    Af = _frac_matrix(A)
    Gf = _frac_matrix(G) if G is not None else None
    bf = [Fraction(float(v)) for v in np.asarray(b, dtype=float)]
    res = {}
    for q in range(1, upto + 1):
        for t in trees_of_order(q):
            ph = elementary_weights(t, Af, Gf)
            val = sum(bi * p for bi, p in zip(bf, ph)) - Fraction(1, density(t))
            res[t] = float(val)
    return res


def attained_order(A, b, G=None, tol=1e-9, maxorder=6):
    p = 0
    for q in range(1, maxorder + 1):
        Af = _frac_matrix(A)
        Gf = _frac_matrix(G) if G is not None else None
        bf = [Fraction(float(v)) for v in np.asarray(b, dtype=float)]
        ok = True
        for t in trees_of_order(q):
            ph = elementary_weights(t, Af, Gf)
            if abs(float(sum(bi * p_ for bi, p_ in zip(bf, ph)) - Fraction(1, density(t)))) > tol:
                ok = False
                break
        if not ok:
            break
        p = q
    return p


# ---------------------------------------------------------------------------------------------
# dense reference problems  M y' = F(y),  F(y) = L y + g + kappa * sin(D y + ph)

class Problem:
    def __init__(self, M, L, g, kappa=0.0, D=None, ph=None):
        self.M = np.asarray(M, dtype=float)
        self.L = np.asarray(L, dtype=float)
        self.g = np.asarray(g, dtype=float)
        self.kappa = float(kappa)
        self.n = len(self.g)
        self.D = np.asarray(D, dtype=float) if D is not None else np.zeros((self.n, self.n))
        self.ph = np.asarray(ph, dtype=float) if ph is not None else np.zeros(self.n)
        self.linear = (self.kappa == 0.0)

    def F(self, y):
        y = np.asarray(y, dtype=float)
        out = self.L @ y + self.g
        if not self.linear:
            out = out + self.kappa * np.sin(self.D @ y + self.ph)
        return out

    def J(self, y):
        if self.linear:
            return self.L.copy()
        y = np.asarray(y, dtype=float)
        return self.L + self.kappa * (np.cos(self.D @ y + self.ph)[:, None] * self.D)

    def lipschitz(self):
        """Global Lipschitz constant of F in the 2-norm."""
        lip = np.linalg.norm(self.L, 2)
        if not self.linear:
            lip += abs(self.kappa) * np.linalg.norm(self.D, 2)
        return lip


def _norm2(A):
    return float(np.linalg.norm(A, 2))


class DirkReference:
    """One step of the DIRK scheme (rows 0..s-1 = a_ij, row s = b, optional row s+1 = b_hat)."""

    NEWTON_ATOL = 1e-4     # the tolerance hard-coded in pyiga.solvers.dirk_step
    NEWTON_RTOL = 1e-6     # default rtol of pyiga.solvers.newton

    def __init__(self, T):
        T = np.asarray(T, dtype=float)
        self.s = T.shape[1]
        self.A = T[:self.s]
        self.b = T[self.s]
        self.bh = T[self.s + 1] if T.shape[0] == self.s + 2 else None

    def _solve_stage(self, P, tau, aii, rhs, start):
        """Solve M z - tau*aii*F(z) = rhs."""
        if P.linear:
            C = P.M - tau * aii * P.L
            return np.linalg.solve(C, rhs + tau * aii * P.g)
        z = np.array(start, dtype=float)
        eps = np.finfo(float).eps
        normM, lip = _norm2(P.M), P.lipschitz()
        prev = np.inf
        for it in range(200):
            r = P.M @ z - tau * aii * P.F(z) - rhs
            nr = np.linalg.norm(r)
            # stop at the rounding floor of the residual evaluation, or when the residual stagnates near it
            scale = (normM * np.linalg.norm(z) + np.linalg.norm(rhs) + abs(tau * aii)
                     * (lip * np.linalg.norm(z) + np.linalg.norm(P.g) + abs(P.kappa) * np.sqrt(P.n)))
            if nr <= 32 * eps * scale or (nr <= 1e-10 * scale and nr >= 0.5 * prev):
                break
            prev = nr
            z = z - np.linalg.solve(P.M - tau * aii * P.J(z), r)
        else:
            raise ArithmeticError("reference Newton did not converge")
        return z

    def step(self, P, x, tau):
        """One exact step.  Returns a dict with x_new, x_est (if embedded), the stages ys / Fs, and two
        a-priori error bounds for an implementation that solves every stage equation only up to a residual
        rho_i (propagated through the later stages and the final combination):
          * `newton`:   rho_i = max(atol, rtol*res0_i)  -- what pyiga's Newton stopping rule permits;
          * `rounding`: rho_i = eps * (|C_i| |y_i| + |rhs_i| + ...)  -- floating-point evaluation of the residual.
        `tight_ok` tells whether Newton provably performs at least one iteration in every implicit stage
        (res0_i > 4*atol); for linear F one Newton step with the exact Jacobian lands on the stage solution
        up to rounding, so the rounding bound applies."""
        s, A = self.s, self.A
        x = np.asarray(x, dtype=float)
        eps = np.finfo(float).eps
        ys, Fs = [], []
        stabs, res0s, conds, rho_round, normC = [], [], [], [], []
        lip = P.lipschitz()
        nl = abs(P.kappa) * _norm2(P.D)          # Lipschitz constant of the nonlinear part
        # magnitude of the terms summed when F(y) is evaluated (rounding error of F is eps times this)
        fmag = lambda y: lip * np.linalg.norm(y) + np.linalg.norm(P.g) + abs(P.kappa) * np.sqrt(P.n)
        normM = _norm2(P.M)
        MinvL = _norm2(np.linalg.solve(P.M, P.L))
        Minv_norm = 1.0 / np.linalg.svd(P.M, compute_uv=False)[-1]
        for i in range(s):
            aii = A[i, i]
            if aii == 0.0:
                if i != 0:
                    raise ValueError("explicit stage after the first one is outside the DIRK family handled")
                ys.append(x.copy())
                Fs.append(P.F(x))
                stabs.append(None)
                res0s.append(None)
                rho_round.append(0.0)
                normC.append(0.0)
                continue
            rhs = P.M @ x + tau * sum(A[i, j] * Fs[j] for j in range(i))
            start = x if i == 0 else ys[-1]
            z = self._solve_stage(P, tau, aii, rhs, start)
            res0s.append(float(np.linalg.norm(P.M @ start - tau * aii * P.F(start) - rhs)))
            nC = normM + abs(tau * aii) * lip
            normC.append(nC)
            # stability constant of the stage map G(z) = M z - tau aii F(z):  |z1 - z2| <= stab |G(z1) - G(z2)|
            # G(z) = C z - tau aii kappa sin(D z + ph) - const,  C = M - tau aii L:
            #   z1 - z2 = C^-1 (G(z1) - G(z2)) + C^-1 tau aii kappa (sin1 - sin2)
            #   => |z1 - z2| <= |C^-1 (G(z1) - G(z2))| / (1 - q),  q = |C^-1| tau aii kappa |D| < 1
            C = P.M - tau * aii * P.L
            Cinv = np.linalg.inv(C)
            sv = np.linalg.svd(C, compute_uv=False)
            cinv = 1.0 / sv[-1]
            q = cinv * abs(tau * aii) * nl
            if q >= 0.9:
                raise ValueError("stage map not contractive enough (generator must guarantee this)")
            conds.append(float(sv[0] / sv[-1]))
            stabs.append((cinv / (1 - q), (_norm2(Cinv @ P.L) + cinv * nl) / (1 - q)))
            ys.append(z)
            Fs.append(P.F(z))
            big = max(np.linalg.norm(z), np.linalg.norm(start), np.linalg.norm(x))
            rho_round.append(eps * (nC * big + np.linalg.norm(rhs) + abs(tau * aii) * fmag(z)
                                    + abs(tau) * sum(abs(A[i, j]) * fmag(ys[j]) for j in range(i))))
        # stiffly accurate (b identical to the last row of A): x + tau M^-1 sum b_i F_i == y_s identically; y_s is
        # the better conditioned expression (no cancellation in F for stiff problems)
        sa = bool(np.array_equal(self.b, A[s - 1])) and A[s - 1, s - 1] != 0.0
        if sa:
            x_new = ys[s - 1].copy()
        else:
            x_new = x + tau * np.linalg.solve(P.M, sum(self.b[i] * Fs[i] for i in range(s)))
        out = {"ys": ys, "Fs": Fs, "res0": res0s, "cond": max(conds) if conds else 1.0, "x_new": x_new,
               "stiffly_accurate": sa, "Minv_norm": Minv_norm}
        if self.bh is not None:
            out["x_est"] = x + tau * np.linalg.solve(P.M, sum(self.bh[i] * Fs[i] for i in range(s)))

        def propagate(kind):
            deltas = []
            for i in range(s):
                if stabs[i] is None:
                    deltas.append(0.0)
                    continue
                wsum = abs(tau) * sum(abs(A[i, j]) * deltas[j] for j in range(i))
                if kind == "newton":
                    # res0 is evaluated by the implementation at its own start value (off by <= deltas[-1])
                    start_err = (deltas[-1] if i > 0 else 0.0) * normC[i]
                    rho = max(self.NEWTON_ATOL, self.NEWTON_RTOL * (res0s[i] + start_err + lip * wsum))
                else:
                    rho = rho_round[i]
                deltas.append(stabs[i][0] * rho + stabs[i][1] * wsum)
            comb = lambda w: abs(tau) * (MinvL + Minv_norm * nl) * sum(abs(w[i]) * deltas[i] for i in range(s))
            final_round = eps * (np.linalg.norm(x) + normM * Minv_norm * np.linalg.norm(x) + abs(tau) * Minv_norm
                                 * sum(abs(self.b[i]) * fmag(ys[i]) for i in range(s))) if kind == "rounding" else 0.0
            res = {"stages": deltas,
                   "x_new": (deltas[s - 1] if sa else comb(self.b) + final_round)}
            if self.bh is not None:
                final_round_h = eps * (np.linalg.norm(x) + normM * Minv_norm * np.linalg.norm(x) + abs(tau) * Minv_norm
                                       * sum(abs(self.bh[i]) * fmag(ys[i]) for i in range(s))) if kind == "rounding" else 0.0
                res["x_est"] = comb(self.bh) + final_round_h
            # the implementation may return F at the last stage as F(x_new): error <= lip * delta
            res["F_new"] = lip * deltas[s - 1] + (eps * fmag(ys[s - 1]) if kind == "rounding" else 0.0)
            return res

        out["bound_newton"] = propagate("newton")
        out["bound_rounding"] = propagate("rounding")
        out["tight_ok"] = all(r is None or r > 4 * self.NEWTON_ATOL for r in res0s)
        return out


class RowReference:
    """One step of the Rosenbrock-Wanner scheme (A strictly lower, Gamma lower with diagonal, b, b_hat)."""

    def __init__(self, A, Gamma, b, b_hat=None):
        self.A = np.asarray(A, dtype=float)
        self.G = np.asarray(Gamma, dtype=float)
        self.b = np.asarray(b, dtype=float)
        self.bh = None if b_hat is None else np.asarray(b_hat, dtype=float)
        self.s = len(self.b)

    def step(self, P, x, tau):
        """One exact ROW step (linear algebra only, also for nonlinear F) and an a-priori rounding bound."""
        x = np.asarray(x, dtype=float)
        s = self.s
        eps = np.finfo(float).eps
        Jx = P.J(x)
        nJ = _norm2(Jx)
        lip = P.lipschitz()
        nl = abs(P.kappa) * _norm2(P.D)
        fmag = lambda y: lip * np.linalg.norm(y) + np.linalg.norm(P.g) + abs(P.kappa) * np.sqrt(P.n)
        ks, conds, dk = [], [], []
        zero = np.zeros_like(x)
        for i in range(s):
            yi = x + tau * sum((self.A[i, j] * ks[j] for j in range(i)), zero)
            wi = sum((self.G[i, j] * ks[j] for j in range(i)), zero)
            rhs = P.F(yi) + tau * Jx @ wi
            C = P.M - tau * self.G[i, i] * Jx
            sv = np.linalg.svd(C, compute_uv=False)
            conds.append(float(sv[0] / sv[-1]))
            k = np.linalg.solve(C, rhs)
            ks.append(k)
            Cinv = np.linalg.inv(C)
            cl, cj = _norm2(Cinv @ P.L) + nl / sv[-1], _norm2(Cinv @ Jx)
            nk = [np.linalg.norm(v) for v in ks]
            round_i = eps * (fmag(yi) + abs(tau) * nJ * sum(abs(self.G[i, j]) * nk[j] for j in range(i))
                             + sv[0] * nk[i]
                             + lip * (np.linalg.norm(x) + abs(tau) * sum(abs(self.A[i, j]) * nk[j] for j in range(i))))
            inherited = abs(tau) * sum((cl * abs(self.A[i, j]) + cj * abs(self.G[i, j])) * dk[j] for j in range(i))
            dk.append(round_i / sv[-1] + inherited)
        out = {"ks": ks, "cond": max(conds)}
        out["x_new"] = x + tau * sum(self.b[i] * ks[i] for i in range(s))
        nk = [np.linalg.norm(v) for v in ks]
        comb = lambda w: eps * np.linalg.norm(x) + abs(tau) * sum(abs(w[i]) * (dk[i] + eps * nk[i]) for i in range(s))
        out["bound_rounding"] = {"x_new": comb(self.b)}
        if self.bh is not None:
            out["x_est"] = x + tau * sum(self.bh[i] * ks[i] for i in range(s))
            out["bound_rounding"]["x_est"] = comb(self.bh)
        return out

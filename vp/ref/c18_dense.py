"""Dense (numpy-only) reference definitions for C18: expansion of canonical / Tucker representations,
mode products, Kronecker sums, orthogonal indexing, unfoldings.  Nothing here imports pyiga."""
import itertools

import numpy as np


def expand_canonical(Xs, shape=None):
    """sum_r x_1[:, r] o ... o x_d[:, r]  (Xs: list of (n_j, R) arrays)."""
    Xs = [np.asarray(X, dtype=float) for X in Xs]
    Xs = [X[:, None] if X.ndim == 1 else X for X in Xs]
    shp = tuple(X.shape[0] for X in Xs)
    out = np.zeros(shp)
    R = Xs[0].shape[1]
    for r in range(R):
        t = Xs[0][:, r]
        for X in Xs[1:]:
            t = np.multiply.outer(t, X[:, r])
        out = out + t
    return out


def abs_canonical_scale(Xs):
    """sum_r prod_j ||x_j[:, r]||_2 : natural rounding scale of the expansion."""
    Xs = [np.asarray(X, dtype=float) for X in Xs]
    Xs = [X[:, None] if X.ndim == 1 else X for X in Xs]
    R = Xs[0].shape[1]
    tot = 0.0
    for r in range(R):
        p = 1.0
        for X in Xs:
            p *= float(np.linalg.norm(X[:, r]))
        tot += p
    return tot


def mode_prod(Y, B, k):
    """Mode-k product of the ndarray Y with the dense matrix B (m x n_k)."""
    B = np.asarray(B, dtype=float)
    Z = np.tensordot(B, Y, axes=([1], [k]))     # new axis first
    return np.moveaxis(Z, 0, k)


def expand_tucker(Us, X):
    Y = np.asarray(X, dtype=float)
    for k, U in enumerate(Us):
        Y = mode_prod(Y, np.asarray(U, dtype=float), k)
    return Y


def fro(x):
    return float(np.sqrt(np.sum(np.asarray(x, dtype=float) ** 2)))


def tucker_scale(Us, X):
    s = fro(X)
    for U in Us:
        s *= fro(U)
    return s


def unfold(X, k):
    """Mode-k unfolding (rows = index along axis k; column order irrelevant for singular values)."""
    X = np.asarray(X)
    return np.moveaxis(X, k, 0).reshape(X.shape[k], -1) if X.shape[k] > 0 else np.zeros((0, 0))


def mode_singular_values(X, k):
    M = unfold(X, k)
    if M.size == 0:
        return np.zeros(0)
    return np.linalg.svd(M, compute_uv=False)


def dense_kron(mats):
    out = np.ones((1, 1))
    for M in mats:
        out = np.kron(out, np.asarray(M, dtype=float))
    return out


def kron_sum(terms):
    """Dense matrix of sum_r kron(A_r^1, ..., A_r^d); terms: list of lists of dense matrices."""
    tot = None
    for t in terms:
        K = dense_kron(t)
        tot = K if tot is None else tot + K
    return tot


def orth_index(A, per_axis):
    """Orthogonal ("outer") indexing: per_axis is a list with one entry per axis of A, each an int
    (axis removed), a slice, or a list of ints."""
    A = np.asarray(A)
    sel = []
    drop = []
    for k, ik in enumerate(per_axis):
        n = A.shape[k]
        if isinstance(ik, slice):
            sel.append(np.arange(n)[ik])
        elif isinstance(ik, (list, tuple, np.ndarray)):
            sel.append(np.arange(n)[np.asarray(ik, dtype=int)] if len(ik) else np.zeros(0, dtype=int))
        else:
            sel.append(np.array([range(n)[int(ik)]]))
            drop.append(k)
    out = A
    for k, s in enumerate(sel):
        out = np.take(out, s, axis=k)
    if drop:
        out = out.reshape([m for k, m in enumerate(out.shape) if k not in drop])
    return out


def all_multi_indices(shape):
    return list(itertools.product(*[range(n) for n in shape]))

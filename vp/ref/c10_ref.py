"""Reference model for C10 (Dirichlet elimination / boundary conditions), independent of pyiga's
evaluation, interpolation and index code: numpy + vp.ref.bspl only.

Conventions (the documented ones of the library): a tensor-product basis is a list of knot vectors,
axis 0 first; physical coordinates are in the *reverse* order (axis d-1 <-> x, axis d-2 <-> y, ...);
dofs are numbered in C order of the multi-index; vector fields use the blocked layout (component j
has offset j*prod(N))."""
import numpy as np

from . import bspl as rb

FACE_NAMES = {"left": (1, 0), "right": (1, 1), "bottom": (2, 0), "top": (2, 1), "front": (3, 0), "back": (3, 1)}


def parse_face(bd, dim):
    """-> (axis, side) from a name or a pair; written from the table in the docstring of
    compute_dirichlet_bc (x is the last axis)."""
    if isinstance(bd, str):
        back, side = FACE_NAMES[bd]
        ax = dim - back
        if ax < 0:
            raise ValueError("face %s does not exist in dimension %d" % (bd, dim))
        return ax, side
    return int(bd[0]), int(bd[1])


def face_dofs(N, ax, side):
    """Raveled indices of the dofs on face (ax, side) of a tensor basis with N dofs per axis, in C order
    of the remaining multi-index."""
    N = tuple(int(n) for n in N)
    full = np.arange(int(np.prod(N)), dtype=np.int64).reshape(N)
    return np.take(full, 0 if side == 0 else N[ax] - 1, axis=ax).ravel()


def slice_ref(ax, idx, shape, flip=None):
    """Multi-indices (rows) of the slice `idx` across axis `ax`, remaining axes running in C order,
    reversed where flip[k] is set (flip is indexed by the remaining axes)."""
    shape = tuple(int(s) for s in shape)
    if idx < 0:
        idx += shape[ax]
    rem = [k for k in range(len(shape)) if k != ax]
    ranges = []
    for j, k in enumerate(rem):
        r = list(range(shape[k]))
        if flip is not None and flip[j]:
            r = r[::-1]
        ranges.append(r)
    out = []

    def rec(j, cur):
        if j == len(rem):
            mi = list(cur)
            mi.insert(ax, idx)
            out.append(mi)
            return
        for v in ranges[j]:
            rec(j + 1, cur + [v])
    rec(0, [])
    return np.array(out, dtype=np.int64).reshape(len(out), len(shape))


def ravel_ref(mi, shape):
    mi = np.asarray(mi, dtype=np.int64)
    out = np.zeros(mi.shape[0], dtype=np.int64)
    for k, s in enumerate(shape):
        out = out * int(s) + mi[:, k]
    return out


# ---------------------------------------------------------------------------------------------
# geometry data

class GeoData:
    """kvs: list of (knots, p); hom: coefficient array (N..., dim) or, if rational, homogeneous
    premultiplied coordinates (N..., dim+1) with the weight last."""
    def __init__(self, kvs, hom, rational):
        self.kvs = [(np.asarray(t, dtype=float), int(p)) for t, p in kvs]
        self.hom = np.asarray(hom, dtype=float)
        self.rational = bool(rational)
        self.sdim = len(self.kvs)
        self.dim = self.hom.shape[-1] - (1 if rational else 0)

    def eval(self, grid):
        v = rb.tp_eval(self.kvs, self.hom, [np.atleast_1d(np.asarray(g, dtype=float)) for g in grid])
        if self.rational:
            v = v[..., :-1] / v[..., -1:]
        return v


def geodata_from_object(geo, is_nurbs):
    """Read the defining data (knots, degrees, control points / weights) of a pyiga spline geometry."""
    kvs = [(np.array(kv.kv, dtype=float), int(kv.p)) for kv in geo.kvs]
    co = np.array(geo.coeffs, dtype=float)
    if co.ndim == len(kvs):
        co = co[..., None]
    return GeoData(kvs, co, is_nurbs)


# ---------------------------------------------------------------------------------------------
# boundary data

def scalar_fn(fs):
    """fs: {"c0","lin"[3],"quad"[3],"mix","amp","freq"} (small integers, scaled by 1/4)."""
    c0 = fs["c0"] / 4.0
    lin = [v / 4.0 for v in fs["lin"]]
    quad = [v / 4.0 for v in fs["quad"]]
    mix = fs["mix"] / 4.0
    amp = fs["amp"] / 4.0
    freq = float(fs["freq"])

    def f(*X):
        X = [np.asarray(x, dtype=float) for x in X]
        out = c0
        for i, x in enumerate(X):
            out = out + lin[i % 3] * x + quad[i % 3] * x * x
        if mix:
            out = out + mix * X[0] * X[-1]
        if amp:
            out = out + amp * np.sin(freq * (X[0] + 0.5 * X[-1]))
        return out
    return f


def first_arg_fn(fs):
    """A function which uses only its first argument (tests broadcasting of partial grids)."""
    c0 = fs["c0"] / 4.0
    a = fs["lin"][0] / 4.0
    b = fs["quad"][0] / 4.0

    def f(*X):
        x = np.asarray(X[0], dtype=float)
        return c0 + a * x + b * x * x
    return f


def make_data(data):
    """-> (object handed to the library, reference evaluator P -> array (shape(P)[:-1], ncomp), is_vector)"""
    k = data["kind"]
    if k == "const":
        v = data["value"]
        return v, (lambda P: np.full(P.shape[:-1] + (1,), float(v))), False
    if k == "constfn":
        v = data["value"]
        return (lambda *X: v), (lambda P: np.full(P.shape[:-1] + (1,), float(v))), False
    if k == "fn":
        f = scalar_fn(data["f"])
        return f, (lambda P: np.asarray(f(*[P[..., i] for i in range(P.shape[-1])]))[..., None] + np.zeros(P.shape[:-1] + (1,))), False
    if k == "fn1":
        f = first_arg_fn(data["f"])
        return f, (lambda P: np.asarray(f(P[..., 0]))[..., None] + np.zeros(P.shape[:-1] + (1,))), False
    if k in ("vec_tuple", "vec_array"):
        comps = []
        for c in data["comps"]:
            if isinstance(c, dict):
                comps.append(scalar_fn(c))
            else:
                comps.append(float(c) if k == "vec_array" else c)

        def ev(P):
            X = [P[..., i] for i in range(P.shape[-1])]
            cols = []
            for c in comps:
                if callable(c):
                    cols.append(np.asarray(c(*X)) + np.zeros(P.shape[:-1]))
                else:
                    cols.append(np.full(P.shape[:-1], float(c)))
            return np.stack(cols, axis=-1)
        if k == "vec_tuple":
            def g(*X):
                return tuple(c(*X) if callable(c) else c for c in comps)
        else:
            def g(*X):
                shp = np.broadcast(*X).shape
                return np.stack([np.broadcast_to(c(*X) if callable(c) else c, shp) for c in comps], axis=-1)
        return g, ev, True
    raise ValueError(k)


# ---------------------------------------------------------------------------------------------
# reference interpolation on a face

def interp_coeffs(kvs, F):
    """Coefficients of the tensor-product interpolant at the Greville points: F has shape
    (n_0,...,n_{d-1}, ncomp).  Returns (coeffs, product of the 1-D collocation condition numbers)."""
    out = np.array(F, dtype=float)
    cond = 1.0
    for ax, (t, p) in enumerate(kvs):
        C = rb.colloc(t, p, rb.greville(t, p), 0)
        cond *= float(np.linalg.cond(C, np.inf))
        moved = np.moveaxis(out, ax, 0)
        shp = moved.shape
        sol = np.linalg.solve(C, moved.reshape(shp[0], -1)).reshape(shp)
        out = np.moveaxis(sol, 0, ax)
    return out, cond


class FaceRef:
    pass


def face_reference(kvs, geodata, ax, side, evaldata):
    """kvs: list of (knots,p) of the space.  Returns FaceRef with
    idx (nf,), grid (face Greville grid), P (face..., dim), F (face..., ncomp), coef (nf, ncomp), cond."""
    d = len(kvs)
    N = [rb.numdofs(t, p) for t, p in kvs]
    fkvs = [kvs[k] for k in range(d) if k != ax]
    fgrid = [rb.greville(t, p) for t, p in fkvs]
    t, p = kvs[ax]
    end = float(t[0] if side == 0 else t[-1])
    full = list(fgrid)
    full.insert(ax, np.array([end]))
    P = np.take(geodata.eval(full), 0, axis=ax)          # (face..., dim)
    F = np.asarray(evaldata(P), dtype=float)               # (face..., ncomp)
    coef, cond = interp_coeffs(fkvs, F)
    r = FaceRef()
    r.idx = face_dofs(N, ax, side)
    r.fkvs = fkvs
    r.grid = fgrid
    r.P = P
    r.F = F
    r.coef = coef.reshape(-1, F.shape[-1])
    r.cond = cond
    r.NN = int(np.prod(N))
    r.fshape = tuple(len(g) for g in fgrid)
    return r

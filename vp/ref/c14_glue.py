"""Reference model for C14 (multipatch gluing), independent of pyiga (numpy only).

* union-find over local dofs (patch, raveled index);
* own enumeration of face dofs with the documented flip semantics of `join_boundaries`
  ("flip: for each coordinate axis of the boundary, whether the coordinates of p2 are flipped");
* label models of patch complexes (grid complexes, rings around a vertex, arbitrary label arrays),
  re-parametrisation of a patch (axis permutation + flips), interface discovery from labels;
* conforming decomposition of a tensor-product spline patch along knots of multiplicity p, restriction of
  a B-spline geometry map to a sub-box by interpolation with the reference evaluator.
"""
import itertools

import numpy as np

from . import bspl as rb


# ---------------------------------------------------------------------------------------------
# union-find

class UF:
    def __init__(self):
        self.par = {}

    def add(self, x):
        if x not in self.par:
            self.par[x] = x

    def find(self, x):
        self.add(x)
        r = x
        while self.par[r] != r:
            r = self.par[r]
        while self.par[x] != r:
            self.par[x], x = r, self.par[x]
        return r

    def union(self, a, b):
        ra, rb_ = self.find(a), self.find(b)
        if ra != rb_:
            if rb_ < ra:
                ra, rb_ = rb_, ra
            self.par[rb_] = ra


def class_ids(uf, shapes):
    """Per patch an int array of class numbers (numbered by first occurrence); returns (list, nclasses)."""
    ids = {}
    out = []
    for p, shp in enumerate(shapes):
        n = int(np.prod(shp))
        a = np.empty(n, dtype=int)
        for i in range(n):
            r = uf.find((p, i))
            if r not in ids:
                ids[r] = len(ids)
            a[i] = ids[r]
        out.append(a)
    return out, len(ids)


# ---------------------------------------------------------------------------------------------
# faces

def face_dofs(shape, axis, side, flip=None):
    """Raveled (C order) indices of the dofs on the face `axis`=const (side 0: index 0, side 1: last),
    enumerated lexicographically over the remaining axes (first remaining axis slowest); a remaining
    axis whose entry in `flip` is true is traversed backwards."""
    shape = [int(s) for s in shape]
    d = len(shape)
    rem = [a for a in range(d) if a != axis]
    if flip is None:
        flip = [False] * len(rem)
    flip = list(flip)
    if len(flip) != len(rem):
        raise ValueError("flip has wrong length")
    strides = [1] * d
    for a in range(d - 2, -1, -1):
        strides[a] = strides[a + 1] * shape[a + 1]
    fixed = (0 if side == 0 else shape[axis] - 1) * strides[axis]
    out = []

    def rec(k, acc):
        if k == len(rem):
            out.append(acc)
            return
        a = rem[k]
        rng = range(shape[a] - 1, -1, -1) if flip[k] else range(shape[a])
        for i in rng:
            rec(k + 1, acc + i * strides[a])
    rec(0, fixed)
    return out


def all_faces(d):
    return [(a, s) for a in range(d) for s in (0, 1)]


BD_NAMES = {1: {(0, 0): "left", (0, 1): "right"},
            2: {(1, 0): "left", (1, 1): "right", (0, 0): "bottom", (0, 1): "top"},
            3: {(2, 0): "left", (2, 1): "right", (1, 0): "bottom", (1, 1): "top", (0, 0): "front", (0, 1): "back"}}


def bd_name(d, face):
    """Documented string alias of the face (axis, side): x is the LAST axis."""
    return BD_NAMES[d][(int(face[0]), int(face[1]))]


# ---------------------------------------------------------------------------------------------
# label models

PERMS = {1: [(0,)], 2: [(0, 1), (1, 0)], 3: list(itertools.permutations(range(3)))}


def reparam(arr, perm, flipbits):
    """Local array of a patch after re-parametrisation: local axis a is the original axis perm[a],
    reversed if bit a of flipbits is set.  Works on arrays with trailing value axes."""
    d = len(perm)
    a = np.transpose(arr, list(perm) + list(range(d, arr.ndim)))
    for ax in range(d):
        if (flipbits >> ax) & 1:
            a = np.flip(a, axis=ax)
    return a


def grid_labels(sizes):
    """sizes[dir] = list of dof counts of the cells along that direction (neighbours share one layer).
    Returns (list of canonical label arrays in C order of the cell multi-index, global shape)."""
    offs = []
    tot = []
    for s in sizes:
        o = [0]
        for n in s[:-1]:
            o.append(o[-1] + n - 1)
        offs.append(o)
        tot.append(o[-1] + s[-1])
    glob = np.arange(int(np.prod(tot))).reshape(tot)
    out = []
    for cell in itertools.product(*[range(len(s)) for s in sizes]):
        sl = tuple(slice(offs[k][c], offs[k][c] + sizes[k][c]) for k, c in enumerate(cell))
        out.append(glob[sl].copy())
    return out, tuple(tot)


def ring_labels(m):
    """k = len(m) patches around a vertex; ray j carries m[j] dofs (incl. the centre); patch i has the
    local array L[a, b] with L[a,0] on ray i, L[0,b] on ray (i+1) % k."""
    k = len(m)
    nxt = [1]

    def fresh(n):
        r = np.arange(nxt[0], nxt[0] + n)
        nxt[0] += n
        return r
    rays = [np.concatenate(([0], fresh(m[j] - 1))) for j in range(k)]
    out = []
    for i in range(k):
        j = (i + 1) % k
        L = np.empty((m[i], m[j]), dtype=int)
        L[:, :] = -1
        L[:, 0] = rays[i]
        L[0, :] = rays[j]
        inner = fresh((m[i] - 1) * (m[j] - 1)).reshape(m[i] - 1, m[j] - 1)
        L[1:, 1:] = inner
        out.append(L)
    return out


def find_interfaces(labels):
    """All interfaces (p1 < p2, face1, face2, flip) between patches given by label arrays: two faces form an
    interface iff their label arrays coincide for some flip pattern (same order of the face axes).
    Raises ValueError if two faces carry the same label set but cannot be matched by flips alone."""
    out = []
    P = len(labels)
    faces = []
    for L in labels:
        d = L.ndim
        fl = {}
        for (ax, sd) in all_faces(d):
            fl[(ax, sd)] = np.take(L, 0 if sd == 0 else L.shape[ax] - 1, axis=ax)
        faces.append(fl)
    for p1 in range(P):
        for p2 in range(p1 + 1, P):
            if labels[p1].ndim != labels[p2].ndim:
                continue
            for f1, A in faces[p1].items():
                sa = None
                for f2, B in faces[p2].items():
                    if A.shape != B.shape and sorted(A.shape) != sorted(B.shape):
                        continue
                    found = None
                    if A.shape == B.shape:
                        for flip in itertools.product((False, True), repeat=A.ndim):
                            C = B
                            for ax, f in enumerate(flip):
                                if f:
                                    C = np.flip(C, axis=ax)
                            if np.array_equal(A, C):
                                found = flip
                                break
                    if found is not None:
                        out.append((p1, f1, p2, f2, tuple(found)))
                    else:
                        if sa is None:
                            sa = set(A.ravel().tolist())
                        if sa == set(B.ravel().tolist()) and A.size > 1:
                            raise ValueError("faces coincide only up to an axis swap")
    return out


def join_pairs(shape1, face1, shape2, face2, flip):
    """The identifications declared by join_boundaries(p1, face1, p2, face2, flip)."""
    a = face_dofs(shape1, face1[0], face1[1])
    b = face_dofs(shape2, face2[0], face2[1], flip)
    if len(a) != len(b):
        raise ValueError("faces of different size")
    return list(zip(a, b))


# ---------------------------------------------------------------------------------------------
# knot vectors of a decomposition

def dir_knots(ds):
    """Direction spec {"p", "breaks", "mults" (interior), "cuts" (bool per interior break)} -> knot array.
    Cut knots have multiplicity p."""
    p = ds["p"]
    br = ds["breaks"]
    kn = [br[0]] * (p + 1)
    for x, m, c in zip(br[1:-1], ds["mults"], ds["cuts"]):
        kn += [x] * (p if c else min(m, p))
    kn += [br[-1]] * (p + 1)
    return np.array(kn, dtype=float)


def dir_cells(ds):
    """List of (lo, hi, knots_of_the_cell (open), ndofs) for the pieces between consecutive cuts."""
    p = ds["p"]
    br = ds["breaks"]
    cutpos = [br[0]] + [x for x, c in zip(br[1:-1], ds["cuts"]) if c] + [br[-1]]
    full = dir_knots(ds)
    out = []
    for lo, hi in zip(cutpos[:-1], cutpos[1:]):
        inner = [x for x in full if lo < x < hi]
        kn = np.array([lo] * (p + 1) + inner + [hi] * (p + 1), dtype=float)
        out.append((lo, hi, kn, len(kn) - p - 1))
    return out


def sub_knots(full, q, lo, hi):
    """Open knot vector of degree q on [lo,hi] with the interior knots of `full` lying strictly inside."""
    inner = [x for x in full if lo < x < hi]
    return np.array([lo] * (q + 1) + inner + [hi] * (q + 1), dtype=float)


def map_knots(kn, p, lo, hi, unit, flip):
    """Affine re-parametrisation of an open knot vector on [lo,hi]: to [0,1] if unit; reversed if flip.
    End knots stay exactly repeated."""
    kn = np.asarray(kn, dtype=float)
    a, b = (0.0, 1.0) if unit else (lo, hi)
    inner = kn[p + 1:len(kn) - p - 1]
    if unit:
        inner = (inner - lo) / (hi - lo)
    if flip:
        inner = (a + b) - inner[::-1]
    if len(inner) and not (np.all(inner > a) and np.all(inner < b) and np.all(np.diff(inner) >= 0)):
        raise ValueError("re-parametrised knots left the open interval")
    return np.concatenate(([a] * (p + 1), inner, [b] * (p + 1)))


# ---------------------------------------------------------------------------------------------
# geometry

def geo_coeffs(gkvs, delta, eps, A, shift):
    """Control net of  u -> A (u + s * sum_i delta_i N_i(u)) + shift  with s chosen such that every first
    partial derivative of the perturbation is bounded by eps (B-spline derivative coefficients)."""
    d = len(gkvs)
    shape = tuple(len(t) - q - 1 for t, q in gkvs)
    delta = np.asarray(delta, dtype=float).reshape(shape + (d,))
    dmax = 0.0
    for j, (t, q) in enumerate(gkvs):
        n = shape[j]
        if n < 2 or q < 1:
            continue
        dt = np.array([t[i + q + 1] - t[i + 1] for i in range(n - 1)])
        diff = np.diff(delta, axis=j)
        sh = [1] * (d + 1)
        sh[j] = n - 1
        dc = q * diff / dt.reshape(sh)
        dmax = max(dmax, float(np.max(np.abs(dc))))
    s = (eps / dmax) if dmax > 0 else 0.0
    grev = [rb.greville(t, q) for t, q in gkvs]
    ident = np.stack(np.meshgrid(*grev, indexing="ij"), axis=-1)
    C = ident + s * delta
    A = np.asarray(A, dtype=float)
    return C @ A.T + np.asarray(shift, dtype=float)


def restrict_geo(gkvs, coeffs, box):
    """B-spline representation of the restriction of the tensor-product spline (gkvs, coeffs) to the box
    [(lo,hi)]*d: interpolation at the Greville points of the restricted spline space (exact up to rounding
    because the restricted function lies in that space).  Returns (sub_kvs, sub_coeffs)."""
    sub = [(sub_knots(t, q, lo, hi), q) for (t, q), (lo, hi) in zip(gkvs, box)]
    grev = [rb.greville(t, q) for t, q in sub]
    vals = rb.tp_eval(gkvs, coeffs, grev)
    out = vals
    for ax, (t, q) in enumerate(sub):
        C = rb.colloc(t, q, grev[ax], 0)
        out = np.moveaxis(np.tensordot(np.linalg.inv(C), out, axes=(1, ax)), 0, ax)
    return sub, out


def interpolate_face(kvs, gfun, geo_eval):
    """Tensor-product interpolation at the Greville points: coefficients c with
    sum_i c_i N_i(grev_m) = gfun(geo_eval(grev))_m.  kvs: list of (knots, p); geo_eval(grid) -> (..., dim)."""
    grev = [rb.greville(t, p) for t, p in kvs]
    X = geo_eval(grev)
    vals = np.asarray(gfun(*[X[..., k] for k in range(X.shape[-1])]), dtype=float)
    vals = np.broadcast_to(vals, X.shape[:-1]).copy()
    out = vals
    for ax, (t, p) in enumerate(kvs):
        C = rb.colloc(t, p, grev[ax], 0)
        out = np.moveaxis(np.tensordot(np.linalg.inv(C), out, axes=(1, ax)), 0, ax)
    return out

"""Reference model of hierarchical (HB / THB) spline spaces, independent of pyiga.

Levels are obtained by dyadic refinement of the level-0 tensor-product knot vectors (every non-empty
span is halved, new knots are simple).  The state is the pair (active cells, deactivated cells) per
level; everything else (active/deactivated functions, representation matrices, truncation) is
*derived from the definitions*:

  Omega^l  = union of the level-l cells that are active or deactivated on level l   (Omega^0 = domain)
  a level-l B-spline b is   active       iff supp b <= Omega^l and supp b is not <= Omega^{l+1}
                            deactivated  iff supp b <= Omega^l and supp b <= Omega^{l+1}
  (Omega^{l+1} expressed in level-l cells is exactly the set of deactivated level-l cells.)
"""
import itertools
import numpy as np
from . import bspl as rb


def refine_knots(t):
    t = np.asarray(t, dtype=float)
    br = np.unique(t)
    mids = (br[1:] + br[:-1]) / 2
    return np.sort(np.concatenate([t, mids]))


class RefHSpace:
    def __init__(self, kvs0):
        """kvs0: list of (knots, p) per tensor axis."""
        self.dim = len(kvs0)
        self.levels = [[(np.asarray(t, dtype=float), int(p)) for t, p in kvs0]]
        self.active = [set(self.all_cells(0))]
        self.deact = [set()]
        self._P1 = {}

    # ---- meshes -----------------------------------------------------------------------------
    def numlevels(self):
        return len(self.levels)

    def breaks(self, l, ax):
        return np.unique(self.levels[l][ax][0])

    def ncells(self, l):
        return tuple(len(self.breaks(l, ax)) - 1 for ax in range(self.dim))

    def ndofs(self, l):
        return tuple(len(t) - p - 1 for t, p in self.levels[l])

    def all_cells(self, l):
        return list(itertools.product(*(range(n) for n in self.ncells(l))))

    def all_functions(self, l):
        return list(itertools.product(*(range(n) for n in self.ndofs(l))))

    def add_level(self):
        self.levels.append([(refine_knots(t), p) for t, p in self.levels[-1]])
        self.active.append(set())
        self.deact.append(set())

    def ensure_levels(self, L):
        while len(self.levels) < L:
            self.add_level()

    def children(self, c):
        return list(itertools.product(*(range(2 * ci, 2 * ci + 2) for ci in c)))

    def ancestor(self, c, up):
        return tuple(ci >> up for ci in c)

    def cell_extents(self, l, c):
        return tuple((float(self.breaks(l, ax)[ci]), float(self.breaks(l, ax)[ci + 1])) for ax, ci in enumerate(c))

    # ---- refinement -------------------------------------------------------------------------
    def refine(self, marked):
        """marked: dict level -> iterable of cells (all must be active on their level)."""
        marked = {int(l): [tuple(int(x) for x in c) for c in cs] for l, cs in marked.items() if len(list(cs)) > 0}
        if not marked:
            return
        for l, cs in marked.items():
            for c in cs:
                if l >= len(self.levels) or c not in self.active[l]:
                    raise ValueError("cell %r on level %d is not active" % (c, l))
        self.ensure_levels(max(marked) + 2)
        for l in sorted(marked):
            for c in set(marked[l]):
                self.active[l].discard(c)
                self.deact[l].add(c)
                self.active[l + 1].update(self.children(c))

    # ---- functions --------------------------------------------------------------------------
    def func_span_range(self, l, ax, j):
        t, p = self.levels[l][ax]
        br = self.breaks(l, ax)
        lo = int(np.searchsorted(br, t[j]))
        hi = int(np.searchsorted(br, t[j + p + 1]))
        return lo, hi

    def func_cells(self, l, jj):
        rng = [range(*self.func_span_range(l, ax, j)) for ax, j in enumerate(jj)]
        return set(itertools.product(*rng))

    def func_support(self, l, jj):
        out = []
        for ax, j in enumerate(jj):
            t, p = self.levels[l][ax]
            out.append((float(t[j]), float(t[j + p + 1])))
        return tuple(out)

    def functions(self, l):
        """(active, deactivated) function multi-indices on level l, by the support definition."""
        omega = self.active[l] | self.deact[l]
        nxt = self.deact[l]
        act, dea = set(), set()
        for jj in self.all_functions(l):
            cells = self.func_cells(l, jj)
            if cells <= omega:
                if cells <= nxt:
                    dea.add(jj)
                else:
                    act.add(jj)
        return act, dea

    def trimmed_levels(self):
        """Number of levels that carry at least one active cell (pyiga may allocate one level more)."""
        L = len(self.levels)
        while L > 1 and not self.active[L - 1] and not self.deact[L - 1]:
            L -= 1
        return L

    def canonical_functions(self, L=None):
        L = L or self.trimmed_levels()
        out = []
        for l in range(L):
            act, _ = self.functions(l)
            out.extend((l, jj) for jj in sorted(act))
        return out

    def canonical_cells(self, L=None):
        L = L or self.trimmed_levels()
        out = []
        for l in range(L):
            out.extend((l, c) for c in sorted(self.active[l]))
        return out

    # ---- representation matrices --------------------------------------------------------------
    def P1(self, l, ax):
        """1-D prolongation level l -> l+1 for one axis (dense)."""
        key = (l, ax)
        if key not in self._P1:
            self.ensure_levels(l + 2)
            tc, p = self.levels[l][ax]
            tf, _ = self.levels[l + 1][ax]
            self._P1[key] = rb.prolongation_matrix(tc, p, tf)
        return self._P1[key]

    def P(self, l):
        """Tensor-product prolongation level l -> l+1 (dense Kronecker product, C-order)."""
        M = np.ones((1, 1))
        for ax in range(self.dim):
            M = np.kron(M, self.P1(l, ax))
        return M

    def ravel(self, l, jj):
        return int(np.ravel_multi_index(tuple(jj), self.ndofs(l)))

    def rep(self, l, L):
        """Dense representation of all level-l TP functions on level L >= l."""
        n = int(np.prod(self.ndofs(l)))
        M = np.eye(n)
        for k in range(l, L):
            M = self.P(k) @ M
        return M

    def I_hb(self, L=None):
        """Columns: active HB functions in canonical order, represented on level L-1 (finest)."""
        L = L or self.trimmed_levels()
        cols = []
        for l in range(L):
            act, _ = self.functions(l)
            idx = [self.ravel(l, jj) for jj in sorted(act)]
            cols.append(self.rep(l, L - 1)[:, idx])
        return np.concatenate(cols, axis=1) if cols else np.zeros((int(np.prod(self.ndofs(L - 1))), 0))

    def I_thb(self, L=None):
        """THB basis by the definition: successively prolong and drop the coefficients of all functions
        whose support lies in Omega^k (i.e. the active and deactivated functions of level k)."""
        L = L or self.trimmed_levels()
        cols = []
        for l in range(L):
            act, _ = self.functions(l)
            idx = [self.ravel(l, jj) for jj in sorted(act)]
            n = int(np.prod(self.ndofs(l)))
            M = np.eye(n)[:, idx]
            for k in range(l + 1, L):
                M = self.P(k - 1) @ M
                a, d = self.functions(k)
                rows = [self.ravel(k, jj) for jj in (a | d)]
                M[rows, :] = 0.0
            cols.append(M)
        return np.concatenate(cols, axis=1) if cols else np.zeros((int(np.prod(self.ndofs(L - 1))), 0))

    def thb_to_hb(self, L=None):
        """T with I_thb = I_hb @ T (exists and is unique since HB functions are linearly independent)."""
        Ih = self.I_hb(L)
        It = self.I_thb(L)
        T, res, rk, sv = np.linalg.lstsq(Ih, It, rcond=None)
        return T, float(np.max(np.abs(Ih @ T - It))) if It.size else 0.0, rk

    def copy(self):
        o = RefHSpace(self.levels[0])
        o.levels = [list(lv) for lv in self.levels]
        o.active = [set(s) for s in self.active]
        o.deact = [set(s) for s in self.deact]
        return o

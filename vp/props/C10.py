"""C10 - eliminating Dirichlet dofs is algebraically exact for any index set; boundary conditions
address every face dof once with interpolating values; initial conditions reproduce value and
time derivative."""
import numpy as np
from hypothesis import strategies as st

from ..core import Sub, Violation, Skip
from ..gen import knots as gk
from ..ref import bspl as rb
from ..ref import c10_ref as cr

LEVEL = "exploration"
RULE = ("generated linear systems (dense/CSR/CSC/COO, SPD or diagonally dominant on the free block, optionally "
        "rectangular with elim_rows) x index subsets in drawn order x scalar/array values and rhs; tensor spline "
        "spaces dim 1-3 x faces (names and pairs) x constant/scalar/vector data x named, identity, random B-spline "
        "and NURBS geometries; two-/three-patch complexes; space-time cylinders.  Non-trivial: index order not "
        "sorted, or |idx| in {0,n-1,n}, or elim_rows given, or vector data, or dim 3 (or dim 1), or a flipped/"
        "three-patch complex, or time interval != [0,1] / final face; distinct by SHA-1 of the case spec")
ASSUMPTIONS = ["numpy dense linear algebra (np.linalg.solve) for the harness-side solves",
               "the defining data of a geometry object (knots, control points, weights) are read from its attributes; "
               "evaluation is done by the harness' own Cox-de Boor code",
               "multipatch: the identification of local dofs is re-derived from coinciding physical Greville points "
               "(conforming patches with p>=1)"]
EPS = np.finfo(float).eps


def _dense(M):
    import scipy.sparse
    if scipy.sparse.issparse(M):
        return np.asarray(M.toarray(), dtype=float)
    return np.asarray(M, dtype=float)


def _vec(ctx, oracle, x, n, what):
    """Normalise a library result to a float vector of length n (anything else is a violation)."""
    try:
        a = np.asarray(x, dtype=float)
    except Exception:
        raise Violation(oracle, "%s is not numeric: %r" % (what, type(x).__name__))
    if a.shape != (n,):
        raise Violation(oracle, "%s has shape %s, expected (%d,)" % (what, a.shape, n))
    return a


# =============================================================================================
# 1. algebraic part: RestrictedLinearSystem

def _mk_matrix(D, fmt):
    import scipy.sparse as sp
    if fmt == "dense":
        return np.array(D)
    return {"csr": sp.csr_matrix, "csc": sp.csc_matrix, "coo": sp.coo_matrix}[fmt](D)


def _mk_seq(lst, container, dtype):
    if container == "list":
        return [dtype(v) for v in lst]
    if container == "tuple":
        return tuple(dtype(v) for v in lst)
    if container == "int32":
        return np.array(lst, dtype=np.int32)
    return np.array(lst, dtype=np.int64 if dtype is int else float)


def check_algebraic(spec, ctx):
    from pyiga import assemble
    m, n = spec["m"], spec["n"]
    idx = list(spec["idx"])
    k = len(idx)
    rows = spec["elim_rows"]
    erows = idx if rows is None else list(rows)
    free_cols = [j for j in range(n) if j not in set(idx)]
    free_rows = [i for i in range(m) if i not in set(erows)]
    assert len(free_cols) == len(free_rows) and (rows is not None or m == n)
    nf = len(free_cols)

    # --- build the system (harness): M/8 with a sparsity threshold, then make the free block regular
    M = np.array(spec["entries"], dtype=float).reshape(m, n)
    M[np.abs(M) <= spec["thresh"]] = 0.0
    M /= 8.0
    if spec["kind"] == "spd":
        D = M.T @ M + np.eye(n)
    else:
        D = M.copy()
        for r, c in zip(free_rows, free_cols):     # strictly diagonally dominant free block
            s = 1.0 + np.sum(np.abs(D[r, free_cols]))
            D[r, c] = s if spec["entries"][(r * n + c) % len(spec["entries"])] >= 0 else -s
    A = _mk_matrix(D, spec["fmt"])
    A_snapshot = D.copy()

    vals_full = [v / 4.0 for v in spec["vals"]] if isinstance(spec["vals"], list) else None
    if vals_full is None:
        sval = spec["vals"] / 4.0 if spec["vkind"] == "scalar_float" else int(spec["vals"])
        values = sval
        vref = np.full(k, float(sval))
    else:
        values = _mk_seq(vals_full, spec["vkind"], float)
        vref = np.array(vals_full, dtype=float)
    indices = _mk_seq(idx, spec["ikind"], int)
    if isinstance(spec["b"], list):
        bref = np.array(spec["b"], dtype=float) / 4.0
        b = bref.copy()
    else:
        b = 0 if spec["b"] == "int0" else spec["b"] / 4.0
        bref = np.full(m, float(b))
    kw = {}
    if rows is not None:
        kw["elim_rows"] = _mk_seq(erows, spec["rkind"], int)
    elif spec.get("pass_none"):
        kw["elim_rows"] = None

    LS = ctx.sut(assemble.RestrictedLinearSystem, A, b, (indices, values), what="RestrictedLinearSystem", **kw)

    # --- order of the free dofs / rows as realised by restrict (any order is accepted, but it must be
    #     a permutation of the complement and everything else must be consistent with it)
    perm = _vec(ctx, "restrict_selects_free", ctx.sut(LS.restrict, np.arange(n, dtype=float), what="restrict"), nf, "restrict(arange)")
    rperm = _vec(ctx, "restrict_rhs_selects_free", ctx.sut(LS.restrict_rhs, np.arange(m, dtype=float), what="restrict_rhs"), nf,
                 "restrict_rhs(arange)")
    ctx.require("restrict_selects_free", sorted(perm.tolist()) == [float(j) for j in free_cols],
                "restrict keeps dofs %r, free dofs are %r" % (perm.tolist(), free_cols))
    ctx.require("restrict_rhs_selects_free", sorted(rperm.tolist()) == [float(j) for j in free_rows],
                "restrict_rhs keeps rows %r, non-eliminated rows are %r" % (rperm.tolist(), free_rows))
    perm = perm.astype(int)
    rperm = rperm.astype(int)

    # --- restricted matrix and right-hand side against the dense definition
    uD = np.zeros(n)
    uD[idx] = vref
    Aref = D[rperm][:, perm]
    bfull = bref - D @ uD
    scaleA = max(1.0, float(np.max(np.abs(D))))
    LA = _dense(LS.A)
    ctx.close("restricted_matrix", LA, Aref, rtol=4 * EPS, scale=scaleA, what="LS.A")
    sb = float(np.max(np.abs(bref)) if m else 0.0) + float(np.sum(np.abs(D), axis=1).max() * (np.max(np.abs(vref)) if k else 0.0)) + 1e-100
    Lb = _vec(ctx, "restricted_rhs", LS.b, nf, "LS.b")
    ctx.close("restricted_rhs", Lb, bfull[rperm], rtol=64 * EPS, scale=sb, what="LS.b")

    # --- solve (harness) and complete (library)
    x = np.linalg.solve(LA, Lb) if nf else np.zeros(0)
    u = _vec(ctx, "complete_shape", ctx.sut(LS.complete, x, what="complete"), n, "complete(x)")
    if k:
        ctx.close("prescribed_value", u[idx], vref, rtol=4 * EPS, atol=1e-100, scale=max(float(np.max(np.abs(vref))), 1e-100),
                  what="u[idx[k]] vs values[k] (idx=%r)" % (idx,))
    res = D @ u - bref
    rs = float(np.sum(np.abs(D), axis=1).max()) * float(np.max(np.abs(u))) + float(np.max(np.abs(bref))) + 1e-100
    if nf:
        ctx.close("free_equations", res[free_rows], np.zeros(nf), rtol=0, atol=1e-11 * rs, what="(A u - b)[free rows]")
        ctx.close("complete_keeps_free", u[perm], x, rtol=4 * EPS, atol=1e-100, scale=max(float(np.max(np.abs(x))), 1e-100))

    # --- mutual consistency of restrict / extend / restrict_rhs / restrict_matrix / complete
    y = np.array([((j * j) % 5) - 1.5 for j in range(nf)])
    ey = _vec(ctx, "extend_shape", ctx.sut(LS.extend, y, what="extend"), n, "extend(y)")
    ctx.equal("extend_zero_on_constrained", ey[idx].tolist(), [0.0] * k, "extend(y)[idx]")
    ctx.equal("restrict_extend_identity", _vec(ctx, "restrict_extend_identity", ctx.sut(LS.restrict, ey), nf, "restrict").tolist(),
              y.tolist(), "restrict(extend(y))")
    ctx.equal("extend_places_free", ey[perm].tolist(), y.tolist(), "extend(y)[free]")
    w = np.array([((3 * j) % 7) - 2.25 for j in range(n)])
    w[idx] = vref
    cw = _vec(ctx, "complete_restrict_identity", ctx.sut(LS.complete, ctx.sut(LS.restrict, w)), n, "complete(restrict(w))")
    ctx.close("complete_restrict_identity", cw, w, rtol=4 * EPS, atol=1e-100, scale=max(float(np.max(np.abs(w))), 1e-100))
    f = np.array([((5 * j) % 11) - 4.5 for j in range(m)])
    ctx.equal("restrict_rhs", _vec(ctx, "restrict_rhs", ctx.sut(LS.restrict_rhs, f), nf, "restrict_rhs(f)").tolist(),
              f[rperm].tolist(), "restrict_rhs(f)")
    Bd = np.array([[((int(spec["entries"][(i * n + j) % len(spec["entries"])]) * 5 + i + 2 * j) % 7) - 3.0 for j in range(n)]
                   for i in range(m)]).reshape(m, n)
    for fmtB in ("dense", spec["fmt"] if spec["fmt"] != "dense" else "csr"):
        RB = _dense(ctx.sut(LS.restrict_matrix, _mk_matrix(Bd, fmtB), what="restrict_matrix"))
        ctx.close("restrict_matrix", RB, Bd[rperm][:, perm], rtol=4 * EPS, scale=8.0, what="restrict_matrix(B) [%s]" % fmtB)

    # --- operands untouched
    ctx.equal("operands_unchanged", _dense(A).tolist(), A_snapshot.tolist(), "A modified")
    if isinstance(spec["b"], list):
        ctx.equal("operands_unchanged", np.asarray(b).tolist(), bref.tolist(), "b modified")
    if vals_full is not None:
        ctx.equal("operands_unchanged", [float(v) for v in values], vals_full, "values modified")
    ctx.equal("operands_unchanged", [int(v) for v in indices], idx, "indices modified")

    unsorted = idx != sorted(idx)
    ctx.flag("n=%s" % ("1" if n == 1 else "2-5" if n <= 5 else "6-14"), "fmt_" + spec["fmt"], "kind_" + spec["kind"],
             "idx_unsorted" if unsorted else "idx_sorted", "idx_" + spec["ikind"], "vals_" + spec["vkind"],
             "b_scalar" if not isinstance(spec["b"], list) else "b_array")
    if k == 0:
        ctx.flag("idx_empty")
    if k == n - 1:
        ctx.flag("idx_all_but_one")
    if k == n:
        ctx.flag("idx_all")
    if rows is not None:
        ctx.flag("elim_rows", "elim_rows_differ" if sorted(erows) != sorted(idx) else "elim_rows_same_set")
        if m != n:
            ctx.flag("rectangular")
    ctx.nontrivial = unsorted or k in (0, n - 1, n) or rows is not None


@st.composite
def strat_algebraic(draw):
    n = draw(st.sampled_from([1, 2, 2, 3, 3, 4, 4, 5, 5, 6, 7, 8, 9, 10, 11, 12, 13, 14]))
    order = list(draw(st.permutations(list(range(n)))))
    ksel = draw(st.sampled_from(["any"] * 8 + ["empty", "one", "allbutone", "allbutone", "all"]))
    k = {"empty": 0, "one": min(1, n), "allbutone": n - 1, "all": n}.get(ksel)
    if k is None:
        k = draw(st.integers(min(2, n), n))
    idx = order[:k]
    omode = draw(st.sampled_from(["drawn", "drawn", "drawn", "sorted", "reversed"]))
    if omode == "sorted":
        idx = sorted(idx)
    elif omode == "reversed":
        idx = sorted(idx, reverse=True)
    m = n
    rows = None
    rkind = "ndarray"
    if draw(st.integers(0, 9)) < 4:
        d = draw(st.sampled_from([0, 0, 0, 1, 2, -1]))
        m = n + d
        if m < 1 or k + d < 0 or k + d > m:
            m, d = n, 0
        rows = list(draw(st.permutations(list(range(m)))))[:k + d]
        if d == 0 and draw(st.integers(0, 4)) == 0:
            rows = list(draw(st.permutations(idx)))          # same set, other order
        rkind = draw(st.sampled_from(["ndarray", "list", "tuple", "int32"]))
    kind = "dom" if rows is not None else draw(st.sampled_from(["spd", "dom"]))
    entries = draw(st.lists(st.integers(-8, 8), min_size=m * n, max_size=m * n))
    vkind = draw(st.sampled_from(["ndarray", "ndarray", "ndarray", "list", "tuple", "scalar_float", "scalar_int"]))
    ikind = draw(st.sampled_from(["ndarray", "ndarray", "int32", "list", "tuple"]))
    if vkind.startswith("scalar"):
        vals = draw(st.integers(-8, 8))
        if ikind in ("list", "tuple"):       # documented: a pair of *arrays*; scalar values need indices.shape
            ikind = "ndarray"
    else:
        vals = [draw(st.integers(-40, 40)) for _ in range(k)]
    bk = draw(st.sampled_from(["array", "array", "array", "int0", "scalar"]))
    b = [draw(st.integers(-40, 40)) for _ in range(m)] if bk == "array" else ("int0" if bk == "int0" else draw(st.integers(-8, 8)))
    return {"m": m, "n": n, "idx": idx, "elim_rows": rows, "rkind": rkind, "kind": kind, "entries": entries,
            "thresh": draw(st.sampled_from([0, 0, 3, 6])), "fmt": draw(st.sampled_from(["dense", "csr", "csc", "coo"])),
            "vals": vals, "vkind": vkind, "ikind": ikind, "b": b, "pass_none": draw(st.booleans())}


# =============================================================================================
# 2. index helpers: slice_indices / boundary_dofs / boundary_cells

def check_slices(spec, ctx):
    from pyiga import assemble
    shape = tuple(spec["shape"])
    ax, idx, flip, ravel = spec["ax"], spec["idx"], spec["flip"], spec["ravel"]
    kw = {}
    if flip is not None:
        kw["flip"] = tuple(bool(f) for f in flip) if spec.get("flip_tuple", True) else [bool(f) for f in flip]
    got = np.asarray(ctx.sut(assemble.slice_indices, ax, idx, shape, ravel=ravel, what="slice_indices", **kw))
    ref = cr.slice_ref(ax, idx, shape, flip)
    if ravel:
        ref = cr.ravel_ref(ref, shape)
    ctx.equal("slice_indices", got.tolist(), ref.tolist(),
              "slice_indices(%d,%d,%r,ravel=%s,flip=%r)" % (ax, idx, shape, ravel, flip))
    ctx.flag("dim%d" % len(shape), "ravel" if ravel else "multi", "flip" if flip is not None and any(flip) else "noflip",
             "negative_idx" if idx < 0 else "idx>=0")
    ctx.nontrivial = (flip is not None and any(flip)) or idx < 0 or len(shape) == 3


def enum_slices(tier):
    import itertools
    out = []
    mx = 3 if tier == "quick" else 4
    for d in (1, 2, 3):
        for shape in itertools.product(range(1, mx + 1), repeat=d):
            for ax in range(d):
                idxs = sorted(set([0, -1, shape[ax] - 1, -shape[ax], shape[ax] // 2]))
                flips = [None] + [list(f) for f in itertools.product([False, True], repeat=d - 1)]
                for idx in idxs:
                    for flip in flips:
                        for ravel in (False, True):
                            out.append({"shape": list(shape), "ax": ax, "idx": idx, "flip": flip, "ravel": ravel})
    return out


def check_boundary_dofs(spec, ctx):
    from pyiga import assemble
    kvr = [gk.build_knots(k) for k in spec["kvs"]]
    kvs = tuple(ctx.sut(gk.pyiga_kv, k, what="KnotVector") for k in spec["kvs"])
    d = len(kvs)
    face = spec["face"]
    ax, side = cr.parse_face(face, d)
    bd = face if isinstance(face, str) else tuple(face)
    flip, ravel = spec["flip"], spec["ravel"]
    N = [rb.numdofs(t, p) for t, p in kvr]
    kw = {} if flip is None else {"flip": tuple(bool(f) for f in flip)}
    got = np.asarray(ctx.sut(assemble.boundary_dofs, kvs, bd, ravel=ravel, what="boundary_dofs", **kw))
    ref = cr.slice_ref(ax, 0 if side == 0 else N[ax] - 1, N, flip)
    if ravel:
        ref = cr.ravel_ref(ref, N)
    ctx.equal("boundary_dofs", got.tolist(), ref.tolist(), "boundary_dofs(%r, ravel=%s, flip=%r)" % (face, ravel, flip))
    # cells: one per non-empty knot span
    S = [len(np.unique(t)) - 1 for t, p in kvr]
    gotc = np.asarray(ctx.sut(assemble.boundary_cells, kvs, bd, ravel=ravel, what="boundary_cells"))
    refc = cr.slice_ref(ax, 0 if side == 0 else S[ax] - 1, S, None)
    if ravel:
        refc = cr.ravel_ref(refc, S)
    ctx.equal("boundary_cells", gotc.tolist(), refc.tolist(), "boundary_cells(%r, ravel=%s)" % (face, ravel))
    ctx.flag("dim%d" % d, "face_name" if isinstance(face, str) else "face_pair", "side%d" % side,
             "flip" if flip is not None and any(flip) else "noflip")
    ctx.nontrivial = d == 3 or (flip is not None and any(flip)) or any(gk.has_multiple_knots(k) for k in spec["kvs"])


def _faces(draw, d):
    names = ["left", "right"] + (["bottom", "top"] if d >= 2 else []) + (["front", "back"] if d >= 3 else [])
    pairs = [[ax, side] for ax in range(d) for side in (0, 1)]
    return draw(st.sampled_from(names + pairs))


@st.composite
def strat_boundary_dofs(draw):
    d = draw(st.sampled_from([1, 2, 2, 3, 3]))
    kvs = [draw(gk.knotvec(pmin=0, pmax=3, nmax=4, decades=2, interval=draw(st.sampled_from(["unit", "grid"])))) for _ in range(d)]
    flip = None if draw(st.booleans()) else [draw(st.booleans()) for _ in range(d - 1)]
    return {"kvs": kvs, "face": _faces(draw, d), "flip": flip, "ravel": draw(st.booleans())}


# =============================================================================================
# 3. combine_bcs on plain arrays

def check_combine(spec, ctx):
    from pyiga import assemble
    bcs = []
    cand = {}
    for ind, val in spec["bcs"]:
        ia = np.array(ind, dtype=np.int64 if spec["i64"] else np.int32)
        va = np.array([v / 4.0 for v in val], dtype=float)
        bcs.append((ia, va))
        for i, v in zip(ind, val):
            cand.setdefault(int(i), set()).add(v / 4.0)
    arg = bcs if spec["as_list"] else (bc for bc in bcs)
    res = ctx.sut(assemble.combine_bcs, arg, what="combine_bcs")
    ctx.require("combine_pair", isinstance(res, tuple) and len(res) == 2, "combine_bcs did not return a pair")
    _judge_indices_values(ctx, "combine", res[0], res[1], cand, tol=lambda c: 0.0)
    dup = sum(len(i) for i, _ in spec["bcs"]) - len(cand)
    ctx.flag("overlap" if dup else "disjoint", "conflicting_values" if any(len(s) > 1 for s in cand.values()) else "consistent",
             "n_bcs=%d" % min(len(bcs), 4))
    ctx.nontrivial = dup > 0


def _judge_indices_values(ctx, tag, gidx, gval, cand, tol):
    """cand: dof -> iterable of admissible values.  Every dof exactly once, value = one candidate."""
    try:
        gi = np.asarray(gidx)
        gv = np.asarray(gval, dtype=float)
    except Exception:
        raise Violation(tag + "_result_type", "indices/values are not arrays")
    ctx.require(tag + "_result_type", gi.ndim == 1 and gv.shape == gi.shape and (gi.size == 0 or np.issubdtype(gi.dtype, np.integer)),
                "indices %s %s / values %s are not matching 1-D integer/float arrays" % (gi.shape, gi.dtype, gv.shape))
    lst = [int(i) for i in gi]
    ctx.require(tag + "_each_dof_once", len(set(lst)) == len(lst),
                "a dof is returned more than once: %r" % sorted(i for i in set(lst) if lst.count(i) > 1)[:6])
    exp = set(cand)
    ctx.require(tag + "_dof_set", set(lst) == exp, "dofs returned but not on the requested faces: %r; missing: %r"
                % (sorted(set(lst) - exp)[:8], sorted(exp - set(lst))[:8]))
    worst = 0.0
    for i, v in zip(lst, gv):
        best = None
        for c in cand[i]:
            cv, ct = (c, tol(c)) if not isinstance(c, tuple) else c
            err = abs(v - cv)
            r = 0.0 if err == 0 else (err / ct if ct > 0 else float("inf"))
            if not (r == r):
                r = float("inf")
            best = r if best is None else min(best, r)
        worst = max(worst, best)
        if best > 1.0:
            ctx.ratio(tag + "_value", best)
            raise Violation(tag + "_value", "dof %d has value %r, admissible values %r" % (i, float(v), sorted(
                (c[0] if isinstance(c, tuple) else c) for c in cand[i])[:4]))
    ctx.ratio(tag + "_value", worst)
    return dict(zip(lst, gv.tolist()))


@st.composite
def strat_combine(draw):
    nb = draw(st.integers(1, 4))
    bcs = []
    for _ in range(nb):
        ind = list(draw(st.lists(st.integers(0, 12), unique=True, max_size=8)))
        val = [draw(st.integers(-8, 8)) for _ in ind]
        bcs.append([ind, val])
    return {"bcs": bcs, "i64": draw(st.booleans()), "as_list": draw(st.booleans())}


# =============================================================================================
# 4. geometries and spaces for the boundary-condition parts

NAMED = {1: ["line_segment", "line_segment_2d", "circular_arc", "unit_cube1"],
         2: ["unit_square", "bspline_quarter_annulus", "quarter_annulus", "disk"],
         3: ["unit_cube", "twisted_box", "annulus_x_line"]}


def _named_geo(gs):
    from pyiga import geometry
    nm, a = gs["name"], gs["args"]
    if nm == "line_segment":
        return geometry.line_segment(a[0] / 4.0, a[0] / 4.0 + (1 + abs(a[1])) / 4.0), False
    if nm == "line_segment_2d":
        return geometry.line_segment((a[0] / 4.0, a[1] / 4.0), (a[0] / 4.0 + 1.0, a[1] / 4.0 + a[2] / 4.0), intervals=1 + abs(a[2]) % 3), False
    if nm == "circular_arc":
        return geometry.circular_arc(0.25 + (abs(a[0]) % 6) / 4.0, r=1.0 + abs(a[1]) / 4.0), True
    if nm == "unit_cube1":
        return geometry.unit_cube(dim=1, num_intervals=1 + abs(a[0]) % 3), False
    if nm == "unit_square":
        return geometry.unit_square(num_intervals=1 + abs(a[0]) % 3), False
    if nm == "bspline_quarter_annulus":
        r1 = 0.5 + abs(a[0]) / 4.0
        return geometry.bspline_quarter_annulus(r1, r1 + 0.5 + abs(a[1]) / 4.0), False
    if nm == "quarter_annulus":
        r1 = 0.5 + abs(a[0]) / 4.0
        return geometry.quarter_annulus(r1, r1 + 0.5 + abs(a[1]) / 4.0), True
    if nm == "disk":
        return geometry.disk(0.5 + abs(a[0]) / 4.0), True
    if nm == "unit_cube":
        return geometry.unit_cube(num_intervals=1 + abs(a[0]) % 2), False
    if nm == "twisted_box":
        return geometry.twisted_box(), False
    if nm == "annulus_x_line":
        return geometry.tensor_product(geometry.line_segment(0.0, 0.5 + abs(a[0]) / 4.0), geometry.quarter_annulus()), True
    raise ValueError(nm)


def _random_geo_arrays(gs, kvr):
    """Control net = identity on the parameter box (+ optional extra coordinate) + bounded perturbation;
    optional weights in [0.5, 2].  Returns (geo kvs as (knots,p), coeffs (N..., dim), weights or None)."""
    d = len(kvr)
    gkvs = []
    for k in range(d):
        t, _ = kvr[k]
        a, b = float(t[0]), float(t[-1])
        pg, ng = gs["pg"][k], gs["ng"][k]
        br = [a + (b - a) * i / ng for i in range(ng + 1)]
        br[-1] = b
        gkvs.append((np.array([a] * pg + br + [b] * pg), pg))
    N = [rb.numdofs(t, p) for t, p in gkvs]
    gdim = d + (1 if gs["extra"] else 0)
    C = np.zeros(N + [gdim])
    for k in range(d):
        g = rb.greville(*gkvs[k])
        shp = [1] * d
        shp[k] = N[k]
        C[..., d - 1 - k] += g.reshape(shp)
    width = [float(kvr[k][0][-1] - kvr[k][0][0]) for k in range(d)]
    pert = np.array([gs["pert"][i % len(gs["pert"])] for i in range(C.size)], dtype=float).reshape(C.shape) / 16.0
    for c in range(gdim):
        C[..., c] += pert[..., c] * (width[d - 1 - c] if c < d else 1.0)
    W = None
    if gs["w"] is not None:
        W = np.array([(4 + gs["w"][i % len(gs["w"])]) / 4.0 for i in range(int(np.prod(N)))]).reshape(N)
    return gkvs, C, W


def build_geo(ctx, gs, kvr, kvs):
    """-> (library geometry object, GeoData)."""
    from pyiga import geometry, bspline
    if gs["kind"] == "named":
        geo, nurbs = ctx.sut(_named_geo, gs, what="geometry." + gs["name"])
        return geo, cr.geodata_from_object(geo, nurbs)
    if gs["kind"] == "identity":
        geo = ctx.sut(geometry.identity, kvs, what="geometry.identity")
        return geo, cr.geodata_from_object(geo, False)
    gkvs, C, W = _random_geo_arrays(gs, kvr)
    pk = tuple(bspline.KnotVector(t.copy(), p) for t, p in gkvs)
    if W is None:
        geo = ctx.sut(bspline.BSplineFunc, pk, C.copy(), what="BSplineFunc")
        return geo, cr.GeoData(gkvs, C, False)
    geo = ctx.sut(geometry.NurbsFunc, pk, C.copy(), W.copy(), what="NurbsFunc")
    return geo, cr.GeoData(gkvs, np.concatenate([C * W[..., None], W[..., None]], axis=-1), True)


@st.composite
def fn_spec(draw):
    s = st.integers(-4, 4)
    return {"c0": draw(s), "lin": [draw(s) for _ in range(3)], "quad": [draw(st.integers(-2, 2)) for _ in range(3)],
            "mix": draw(st.integers(-2, 2)), "amp": draw(st.sampled_from([0, 0, 1, 2, 4])), "freq": draw(st.integers(1, 3))}


CONSTS = [0, 1, -2, 0.0, 1.0, 2.5, -0.75]


@st.composite
def data_spec(draw, vector=True):
    kinds = ["fn", "fn", "fn", "fn1", "const", "constfn"] + (["vec_tuple", "vec_tuple", "vec_array"] if vector else [])
    k = draw(st.sampled_from(kinds))
    if k in ("const", "constfn"):
        return {"kind": k, "value": draw(st.sampled_from(CONSTS))}
    if k in ("fn", "fn1"):
        return {"kind": k, "f": draw(fn_spec())}
    nc = draw(st.integers(1, 3))
    comps = []
    for j in range(nc):
        if k == "vec_tuple" and nc > 1 and j > 0 and draw(st.integers(0, 3)) == 0:
            comps.append(draw(st.sampled_from([0.0, 1.0, -0.5])))
        else:
            comps.append(draw(fn_spec()))
    return {"kind": k, "comps": comps}


@st.composite
def space_and_geo(draw, dims=(1, 2, 2, 2, 3, 3), pmin=0):
    d = draw(st.sampled_from(list(dims)))
    gkind = draw(st.sampled_from(["named", "named", "identity", "random", "random", "random"]))
    iv = "unit" if gkind == "named" else draw(st.sampled_from(["unit", "grid"]))
    pmax, nmax = (3, 4) if d < 3 else (2, 3)
    pmin = pmin if draw(st.integers(0, 4)) == 0 else 1
    kvs = [draw(gk.knotvec(pmin=pmin, pmax=pmax, nmax=nmax, decades=2, interval=iv)) for _ in range(d)]
    if gkind == "named":
        gs = {"kind": "named", "name": draw(st.sampled_from(NAMED[d])), "args": [draw(st.integers(-4, 4)) for _ in range(3)]}
    elif gkind == "identity":
        gs = {"kind": "identity"}
    else:
        gs = {"kind": "random", "pg": [draw(st.integers(1, 2)) for _ in range(d)], "ng": [draw(st.integers(1, 2)) for _ in range(d)],
              "extra": draw(st.integers(0, 4)) == 0,
              "pert": draw(st.lists(st.integers(-4, 4), min_size=4, max_size=24)),
              "w": draw(st.lists(st.integers(-2, 4), min_size=3, max_size=12)) if draw(st.booleans()) else None}
    return d, kvs, gs


def _geo_flags(ctx, gs, gd):
    ctx.flag("geo_" + (gs["name"] if gs["kind"] == "named" else gs["kind"]), "geo_rational" if gd.rational else "geo_polynomial")
    if gd.dim != gd.sdim:
        ctx.flag("geo_dim>sdim")


def _setup_space(ctx, spec):
    kvr = [gk.build_knots(k) for k in spec["kvs"]]
    kvs = tuple(ctx.sut(gk.pyiga_kv, k, what="KnotVector") for k in spec["kvs"])
    geo, gd = build_geo(ctx, spec["geo"], kvr, kvs)
    ctx.flag("dim%d" % len(kvr))
    if any(gk.has_multiple_knots(k) for k in spec["kvs"]):
        ctx.flag("mult>1")
    if any(k["p"] == 0 for k in spec["kvs"]):
        ctx.flag("p=0")
    if any((k["breaks"][0], k["breaks"][-1]) != (0.0, 1.0) for k in spec["kvs"]):
        ctx.flag("interval!=[0,1]")
    _geo_flags(ctx, spec["geo"], gd)
    return kvr, kvs, geo, gd


def _coef_tol(ref):
    """Rounding bound for the interpolation coefficients: collocation solves are backward stable, so the
    coefficient error is <= c * eps * cond * max|coef| (c generous)."""
    s = max(float(np.max(np.abs(ref.coef))), float(np.max(np.abs(ref.F))), 1e-100)
    return 4096 * EPS * max(ref.cond, 1.0) * s


def _bd(face):
    return face if isinstance(face, str) else tuple(face)


# =============================================================================================
# 5. compute_dirichlet_bc: one face

def check_bc_single(spec, ctx):
    from pyiga import assemble
    kvr, kvs, geo, gd = _setup_space(ctx, spec)
    d = len(kvr)
    face = spec["face"]
    ax, side = cr.parse_face(face, d)
    g, ev, isvec = cr.make_data(spec["data"])
    res = ctx.sut(assemble.compute_dirichlet_bc, kvs, geo, _bd(face), g, what="compute_dirichlet_bc")
    ctx.require("bc_pair", isinstance(res, tuple) and len(res) == 2, "result is not a pair (indices, values)")
    ref = cr.face_reference(kvr, gd, ax, side, ev)
    ncomp = ref.F.shape[-1]
    tol = _coef_tol(ref)
    cand = {}
    for j in range(ncomp):
        for q, i in enumerate(ref.idx):
            cand[int(i) + j * ref.NN] = [(float(ref.coef[q, j]), tol)]
    got = _judge_indices_values(ctx, "bc", res[0], res[1], cand, tol=None)
    # the returned values, read as a spline on the face, take the boundary data at the Greville points
    co = np.array([[got[int(i) + j * ref.NN] for j in range(ncomp)] for i in ref.idx]).reshape(ref.fshape + (ncomp,))
    at_nodes = rb.tp_eval(ref.fkvs, co, ref.grid)
    s = max(float(np.max(np.abs(co))), float(np.max(np.abs(ref.F))), 1e-100)
    ctx.close("bc_interpolates", at_nodes, ref.F, rtol=0, atol=1e-11 * s, what="spline on the face at the Greville points vs g(G(xi))")
    dk = spec["data"]["kind"]
    ctx.flag("face_name" if isinstance(face, str) else "face_pair", "ax%d_side%d" % (ax, side), "data_" + dk)
    if dk in ("const", "constfn") and isinstance(spec["data"]["value"], int):
        ctx.flag("data_int_constant")
    if isvec:
        ctx.flag("ncomp=%d" % ncomp)
    ctx.nontrivial = isvec or d in (1, 3) or gd.rational


@st.composite
def strat_bc_single(draw):
    d, kvs, gs = draw(space_and_geo())
    return {"kvs": kvs, "geo": gs, "face": _faces(draw, d), "data": draw(data_spec())}


# =============================================================================================
# 6. compute_dirichlet_bcs: several faces / 'all', and use of the result for elimination

def check_bc_multi(spec, ctx):
    from pyiga import assemble
    kvr, kvs, geo, gd = _setup_space(ctx, spec)
    d = len(kvr)
    conds_ref = []
    if spec["all"] is not None:
        g, ev, isvec = cr.make_data(spec["all"])
        arg = ("all", g)
        for ax in range(d):
            for side in (0, 1):
                conds_ref.append((ax, side, ev))
        anyvec = isvec
    else:
        arg = []
        anyvec = False
        for face, data in spec["conds"]:
            g, ev, isvec = cr.make_data(data)
            anyvec = anyvec or isvec
            arg.append((_bd(face), g))
            conds_ref.append(cr.parse_face(face, d) + (ev,))
        if spec["as_tuple"]:
            arg = tuple(arg)
    res = ctx.sut(assemble.compute_dirichlet_bcs, kvs, geo, arg, what="compute_dirichlet_bcs")
    ctx.require("bcs_pair", isinstance(res, tuple) and len(res) == 2, "result is not a pair (indices, values)")
    cand = {}
    for ax, side, ev in conds_ref:
        ref = cr.face_reference(kvr, gd, ax, side, ev)
        tol = _coef_tol(ref)
        for j in range(ref.F.shape[-1]):
            for q, i in enumerate(ref.idx):
                cand.setdefault(int(i) + j * ref.NN, []).append((float(ref.coef[q, j]), tol))
    got = _judge_indices_values(ctx, "bcs", res[0], res[1], cand, tol=None)
    nfaces = len(set((a, s) for a, s, _ in conds_ref))
    ctx.flag("all_shorthand" if spec["all"] is not None else "n_conds=%d" % min(len(conds_ref), 4),
             "vector_data" if anyvec else "scalar_data", "shared_dofs" if sum(1 for v in cand.values() if len(v) > 1) else "disjoint_faces")
    # the pair is "suitable for passing to RestrictedLinearSystem": eliminate in a small SPD system
    NN = int(np.prod([rb.numdofs(t, p) for t, p in kvr]))
    if not anyvec and NN <= 150 and all(p >= 1 for _, p in kvr):
        M = np.ones((1, 1))
        for t, p in kvr:                                    # SPD model matrix: Kronecker product of tridiagonal SPD factors
            n1 = rb.numdofs(t, p)
            M = np.kron(M, 2.5 * np.eye(n1) - np.eye(n1, k=1) - np.eye(n1, k=-1))
        import scipy.sparse
        bvec = np.array([((7 * i) % 13) / 4.0 - 1.0 for i in range(NN)])
        LS = ctx.sut(assemble.RestrictedLinearSystem, scipy.sparse.csr_matrix(M), bvec, res, what="RestrictedLinearSystem(bcs)")
        LA, Lb = _dense(LS.A), np.asarray(LS.b, dtype=float)
        nfree = NN - len(got)
        ctx.require("chain_shape", LA.shape == (nfree, nfree) and Lb.shape == (nfree,), "restricted system has shape %s" % (LA.shape,))
        u = _vec(ctx, "chain_shape", ctx.sut(LS.complete, np.linalg.solve(LA, Lb) if nfree else np.zeros(0), what="complete"), NN, "u")
        ids = sorted(got)
        vv = np.array([got[i] for i in ids])
        ctx.close("chain_prescribed_value", u[ids] if ids else np.zeros(0), vv, rtol=4 * EPS, atol=1e-100,
                  scale=max(float(np.max(np.abs(vv))) if ids else 0.0, 1e-100))
        free = [i for i in range(NN) if i not in got]
        rs = 4.5 ** d * float(np.max(np.abs(u))) + 3.0
        ctx.close("chain_free_equations", (M @ u - bvec)[free], np.zeros(len(free)), rtol=0, atol=1e-11 * rs)
        ctx.flag("chained_elimination")
    ctx.nontrivial = anyvec or d in (1, 3) or nfaces >= 2


@st.composite
def strat_bc_multi(draw):
    d, kvs, gs = draw(space_and_geo())
    if draw(st.integers(0, 3)) == 0:
        return {"kvs": kvs, "geo": gs, "all": draw(data_spec()), "conds": None, "as_tuple": False}
    nc = draw(st.integers(1, 4))
    conds = [[_faces(draw, d), draw(data_spec())] for _ in range(nc)]
    return {"kvs": kvs, "geo": gs, "all": None, "conds": conds, "as_tuple": draw(st.booleans())}


# =============================================================================================
# 7. Multipatch.compute_dirichlet_bcs: glued numbering

LAYOUTS = {2: {"two_x": [(0, 0), (1, 0)], "two_y": [(0, 0), (0, 1)], "L_a": [(0, 0), (1, 0), (1, 1)], "L_b": [(0, 0), (0, 1), (1, 1)],
               "L_c": [(1, 0), (0, 0), (0, 1)], "L_d": [(0, 1), (1, 1), (1, 0)], "three_x": [(0, 0), (1, 0), (2, 0)]},
           1: {"two_x": [(0,), (1,)], "three_x": [(0,), (1,), (2,)]},
           3: {"two_x": [(0, 0, 0), (1, 0, 0)], "two_y": [(0, 0, 0), (0, 1, 0)], "two_z": [(0, 0, 0), (0, 0, 1)],
               "L_a": [(0, 0, 0), (1, 0, 0), (1, 0, 1)]}}


def _patch_geo(d, pos, mirror, sizes):
    """Axis-aligned box patch: physical coordinate c (x=0,...) runs over [o_c, o_c+size_c], reversed if mirrored.
    Linear spline, control points = box corners, parameter axis k <-> physical coordinate d-1-k."""
    lin = np.array([0.0, 0.0, 1.0, 1.0])
    C = np.zeros([2] * d + [d])
    for c in range(d):
        k = d - 1 - c
        lo = sum(sizes[c][:pos[c]])
        hi = lo + sizes[c][pos[c]]
        ends = np.array([hi, lo] if mirror[c] else [lo, hi], dtype=float)
        shp = [1] * d
        shp[k] = 2
        C[..., c] += ends.reshape(shp)
    return [(lin, 1)] * d, C


def check_multipatch(spec, ctx):
    from pyiga import assemble, bspline
    d = spec["dim"]
    kvr = [gk.build_knots(k) for k in spec["kvs"]]
    kvs = tuple(ctx.sut(gk.pyiga_kv, k, what="KnotVector") for k in spec["kvs"])
    cells = LAYOUTS[d][spec["layout"]]
    sizes = [[s / 2.0 for s in row] for row in spec["sizes"]]
    patches, gds = [], []
    for q, pos in enumerate(cells):
        gkvs, C = _patch_geo(d, pos, spec["mirror"][q], sizes)
        geo = ctx.sut(bspline.BSplineFunc, tuple(bspline.KnotVector(t.copy(), p) for t, p in gkvs), C.copy(), what="BSplineFunc")
        patches.append((kvs, geo))
        gds.append(cr.GeoData(gkvs, C, False))
    MP = ctx.sut(assemble.Multipatch, patches, automatch=True, what="Multipatch(automatch=True)")
    N = [rb.numdofs(t, p) for t, p in kvr]
    NN = int(np.prod(N))
    # reference identification: local dofs whose Greville points coincide in physical space
    grev = [rb.greville(t, p) for t, p in kvr]
    cls = {}
    local_cls = []
    for q, gd in enumerate(gds):
        P = gd.eval(grev).reshape(NN, d)
        keys = [tuple(int(round(v * 2 ** 20)) for v in row) for row in P]
        local_cls.append(keys)
        for i, key in enumerate(keys):
            cls.setdefault(key, []).append((q, i))
    p2g = [np.asarray(ctx.sut(MP.patch_to_global_idx, q, what="patch_to_global_idx")) for q in range(len(cells))]
    g_of_cls = {}
    for q in range(len(cells)):
        ctx.require("glued_numbering", p2g[q].shape == (NN,), "patch_to_global_idx(%d) has shape %s" % (q, p2g[q].shape))
        for i, key in enumerate(local_cls[q]):
            gi = int(p2g[q][i])
            if g_of_cls.setdefault(key, gi) != gi:
                raise Violation("glued_numbering", "coinciding dofs %r carry different global indices" % (cls[key],))
    ctx.require("glued_numbering", len(set(g_of_cls.values())) == len(g_of_cls) and sorted(g_of_cls.values()) == list(range(len(g_of_cls)))
                and int(MP.numdofs) == len(g_of_cls), "global numbering is not a bijection onto the %d glued dofs (numdofs=%s)"
                % (len(g_of_cls), MP.numdofs))
    # conditions
    arg, cand = [], {}
    for q, face, data in spec["conds"]:
        g, ev, _ = cr.make_data(data)
        arg.append((q, _bd(face), g))
        ax, side = cr.parse_face(face, d)
        ref = cr.face_reference(kvr, gds[q], ax, side, ev)
        tol = _coef_tol(ref)
        for k, i in enumerate(ref.idx):
            cand.setdefault(g_of_cls[local_cls[q][int(i)]], []).append((float(ref.coef[k, 0]), tol))
    res = ctx.sut(MP.compute_dirichlet_bcs, arg, what="Multipatch.compute_dirichlet_bcs")
    ctx.require("mp_pair", isinstance(res, tuple) and len(res) == 2, "result is not a pair (indices, values)")
    _judge_indices_values(ctx, "mp", res[0], res[1], cand, tol=None)
    shared_hit = any(len(cls[key]) > 1 and g_of_cls[key] in cand for key in cls)
    ctx.flag("dim%d" % d, "layout_" + spec["layout"], "mirrored" if any(any(m) for m in spec["mirror"]) else "aligned",
             "bc_touches_interface" if shared_hit else "bc_off_interface", "n_conds=%d" % min(len(arg), 4))
    if any(gk.has_multiple_knots(k) for k in spec["kvs"]):
        ctx.flag("mult>1")
    ctx.nontrivial = shared_hit or len(cells) >= 3 or any(any(m) for m in spec["mirror"])


@st.composite
def _sym_or_free_kv(draw, need_sym, pmax=3, nmax=3):
    if need_sym:
        p = draw(st.integers(1, pmax))
        n = draw(st.integers(1, nmax))
        m = draw(st.integers(1, p))
        return {"p": p, "breaks": [i / n for i in range(n)] + [1.0], "mults": [m] * (n - 1)}
    return draw(gk.knotvec(pmin=1, pmax=pmax, nmax=nmax, decades=2, interval="unit"))


@st.composite
def strat_multipatch(draw):
    d = draw(st.sampled_from([1, 2, 2, 2, 2, 3]))
    layout = draw(st.sampled_from(sorted(LAYOUTS[d])))
    cells = LAYOUTS[d][layout]
    mirrored = draw(st.integers(0, 2)) == 0
    mirror = [[(draw(st.booleans()) if mirrored else False) for _ in range(d)] for _ in cells]
    # physical coordinate c <-> parameter axis d-1-c; a mirrored coordinate needs a symmetric knot vector there
    kvs = []
    for k in range(d):
        c = d - 1 - k
        kvs.append(draw(_sym_or_free_kv(any(m[c] for m in mirror), pmax=3 if d < 3 else 2, nmax=3 if d < 3 else 2)))
    sizes = [[draw(st.integers(1, 4)) for _ in range(3)] for _ in range(d)]
    nc = draw(st.integers(1, 4))
    conds = [[draw(st.integers(0, len(cells) - 1)), _faces(draw, d), draw(data_spec(vector=False))] for _ in range(nc)]
    return {"dim": d, "kvs": kvs, "layout": layout, "mirror": mirror, "sizes": sizes, "conds": conds}


# =============================================================================================
# 8. compute_initial_condition_01 on space-time cylinders G(x,t) = (G~(x), t)

def check_initial(spec, ctx):
    from pyiga import assemble, bspline, geometry
    skvr = [gk.build_knots(k) for k in spec["kvs"]]
    skvs = tuple(ctx.sut(gk.pyiga_kv, k, what="KnotVector") for k in spec["kvs"])
    sgeo, sgd = build_geo(ctx, spec["geo"], skvr, skvs)
    tax, side = spec["tax"], spec["side"]
    tkr = gk.build_knots(spec["kvt"])
    tkv = ctx.sut(gk.pyiga_kv, spec["kvt"], what="KnotVector")
    t0, t1 = float(tkr[0][0]), float(tkr[0][-1])
    ds = len(skvr)
    d = ds + 1
    # space-time geometry from the defining data of the spatial one: time is the last physical coordinate
    # and runs linearly along parameter axis `tax`
    tlin = (np.array([t0, t0, t1, t1]), 1)
    H = np.expand_dims(sgd.hom, tax)
    H = np.repeat(H, 2, axis=tax)
    shp = [1] * d
    shp[tax] = 2
    tt = np.array([t0, t1]).reshape(shp)
    if sgd.rational:
        hom = np.concatenate([H[..., :-1], tt[..., None] * H[..., -1:], H[..., -1:]], axis=-1)
    else:
        hom = np.concatenate([H, tt[..., None] + 0 * H[..., :1]], axis=-1)
    gkvs = list(sgd.kvs)
    gkvs.insert(tax, tlin)
    gd = cr.GeoData(gkvs, hom, sgd.rational)
    pk = tuple(bspline.KnotVector(t.copy(), p) for t, p in gkvs)
    if sgd.rational:
        geo = ctx.sut(geometry.NurbsFunc, pk, hom.copy(), None, premultiplied=True, what="NurbsFunc")
    else:
        geo = ctx.sut(bspline.BSplineFunc, pk, hom.copy(), what="BSplineFunc")
    kvr = list(skvr)
    kvr.insert(tax, tkr)
    kvs = list(skvs)
    kvs.insert(tax, tkv)
    kvs = tuple(kvs)
    physical = spec["physical"]
    mk = cr.first_arg_fn if spec["partial_args"] else cr.scalar_fn
    g0, g1 = mk(spec["g0"]), mk(spec["g1"])
    kw = {} if (physical and spec["default_kw"]) else {"physical": physical}
    res = ctx.sut(assemble.compute_initial_condition_01, kvs, geo, (tax, side), g0, g1, what="compute_initial_condition_01", **kw)
    ctx.require("ic_pair", isinstance(res, tuple) and len(res) == 2, "result is not a pair (indices, values)")
    N = [rb.numdofs(t, p) for t, p in kvr]
    NN = int(np.prod(N))
    full = np.arange(NN).reshape(N)
    sl = (0, 1) if side == 0 else (N[tax] - 2, N[tax] - 1)
    exp = np.concatenate([np.take(full, s, axis=tax).ravel() for s in sl])
    try:
        gi = np.asarray(res[0])
        gv = np.asarray(res[1], dtype=float)
    except Exception:
        raise Violation("ic_result_type", "indices/values are not arrays")
    ctx.require("ic_result_type", gi.ndim == 1 and gv.shape == gi.shape and np.issubdtype(gi.dtype, np.integer), "indices/values malformed")
    lst = [int(i) for i in gi]
    ctx.require("ic_each_dof_once", len(set(lst)) == len(lst), "a dof is returned more than once")
    ctx.require("ic_dof_set", set(lst) == set(int(i) for i in exp), "indices are not the two layers of dofs next to the initial face")
    # a spline carrying the values (anything else elsewhere) has the prescribed value and time derivative on the face
    u = np.array([((11 * i) % 17) / 4.0 - 2.0 for i in range(NN)])
    u[lst] = gv
    u = u.reshape(N)
    tend = t0 if side == 0 else t1
    fgrid = [rb.greville(t, p) for t, p in skvr]
    grid = list(fgrid)
    grid.insert(tax, np.array([tend]))
    der = [0] * d
    der[tax] = 1
    v0 = np.take(rb.tp_eval(kvr, u, grid), 0, axis=tax)
    v1 = np.take(rb.tp_eval(kvr, u, grid, derivs=der), 0, axis=tax)
    if physical:
        P = np.take(gd.eval(grid), 0, axis=tax)
        X = [P[..., i] for i in range(P.shape[-1])]
    else:
        mesh = np.meshgrid(*fgrid, indexing="ij") if ds else []
        X = list(mesh)[::-1]                # parametric coordinates in x,y order (last axis first)
    r0 = np.asarray(g0(*X)) + np.zeros(v0.shape)
    r1 = np.asarray(g1(*X)) + np.zeros(v0.shape)
    tk, pt = tkr
    br = np.unique(tk)
    h = float(br[1] - br[0]) if side == 0 else float(br[-1] - br[-2])
    s0 = max(float(np.max(np.abs(gv))), float(np.max(np.abs(r0))), 1e-100)
    ctx.close("ic_value", v0, r0, rtol=0, atol=1e-11 * s0, what="u(.,t_end) vs g0")
    s1 = max(s0 * pt / h, float(np.max(np.abs(r1))))
    ctx.close("ic_time_derivative", v1, r1, rtol=0, atol=1e-10 * s1, what="du/dt(.,t_end) vs g1")
    ctx.flag("sdim%d" % ds, "side%d" % side, "tax%d" % tax, "physical" if physical else "parametric",
             "time_[0,1]" if (t0, t1) == (0.0, 1.0) else "time_other", "pt=%d" % pt)
    if spec["partial_args"]:
        ctx.flag("g_uses_first_arg_only")
    _geo_flags(ctx, spec["geo"], sgd)
    ctx.nontrivial = side == 1 or (t0, t1) != (0.0, 1.0) or ds == 2 or tax != 0


@st.composite
def strat_initial(draw):
    ds, kvs, gs = draw(space_and_geo(dims=(1, 1, 2, 2), pmin=0))
    kvt = draw(gk.knotvec(pmin=1, pmax=3, nmax=3, decades=1, interval=draw(st.sampled_from(["unit", "unit", "grid"]))))
    if gs["kind"] == "random":
        gs["extra"] = False
    return {"kvs": kvs, "geo": gs, "kvt": kvt, "tax": draw(st.sampled_from([0, 0, 0] + list(range(ds + 1)))),
            "side": draw(st.sampled_from([0, 0, 1])), "physical": draw(st.sampled_from([True, True, False])),
            "partial_args": draw(st.integers(0, 3)) == 0, "default_kw": draw(st.booleans()),
            "g0": draw(fn_spec()), "g1": draw(fn_spec())}


# =============================================================================================

SUBCHECKS = [
    Sub("algebraic", check_algebraic, strategy=lambda tier: strat_algebraic(), quick=5000, thorough=100000, shards=4,
        rule="n 1-14, dense/CSR/CSC/COO, SPD or dominant free block, index sets of all sizes in drawn order, "
             "scalar/array/list/tuple values, scalar/array rhs, elim_rows (incl. rectangular)", floor=200),
    Sub("slices", check_slices, enum=enum_slices, quick=0, thorough=0, shards=1,
        rule="exhaustive: shapes <=3 (quick) / <=4 (thorough) per axis, dim 1-3, every axis, idx in {0,-1,n-1,-n,n//2}, "
             "every flip, ravel on/off", floor=50),
    Sub("boundary_dofs", check_boundary_dofs, strategy=lambda tier: strat_boundary_dofs(), quick=300, thorough=5000, shards=1,
        rule="boundary_dofs / boundary_cells on random tensor bases, names and pairs, flips", floor=20),
    Sub("combine", check_combine, strategy=lambda tier: strat_combine(), quick=400, thorough=10000, shards=1,
        rule="1-4 index/value arrays with overlaps and conflicting values", floor=20),
    Sub("bc_single", check_bc_single, strategy=lambda tier: strat_bc_single(), quick=1000, thorough=12000, shards=4,
        rule="one face, dim 1-3, scalar/constant/vector data, all geometry kinds", floor=40),
    Sub("bc_multi", check_bc_multi, strategy=lambda tier: strat_bc_multi(), quick=600, thorough=8000, shards=4,
        rule="1-4 (face,data) pairs or the 'all' shorthand; result chained into RestrictedLinearSystem", floor=30),
    Sub("multipatch", check_multipatch, strategy=lambda tier: strat_multipatch(), quick=400, thorough=5000, shards=3,
        rule="2-3 box patches (dim 1-3), automatch, optional mirrored patches, 1-4 conditions", floor=20),
    Sub("initial_condition", check_initial, strategy=lambda tier: strat_initial(), quick=600, thorough=8000, shards=3,
        rule="space-time cylinders over 1-D/2-D geometries, any time axis, initial or final face, physical or "
             "parametric data", floor=30),
]

KNOWN = {}

"""C11 - relaxation and multigrid are consistent, contractive iterations."""
import contextlib
import io
import warnings

import numpy as np
from hypothesis import strategies as st

from ..core import Sub, Violation, Skip
from ..gen import knots as gk
from ..gen import hspaces as gh
from ..gen import c11_matrices as gm
from ..ref import bspl as rb
from ..ref import c11_ref as cr

LEVEL = "exploration"
RULE = ("(1) square systems n 1..12 (SPD Gram / SPD diagonally dominant / diagonally dominant / nonsymmetric; entries dyadic "
        "rationals so that b = A x* is exact) handed over as dense, CSR (sorted and unsorted indices), CSC, COO with explicit "
        "zeros, index lists (None, subsets in any order, empty; list/tuple/int arrays), sweeps, 0..4 iterations; "
        "(2) hierarchical spaces from generated refinement histories (dim 1-2, p 1-4, HB/THB, disparity inf/1/2, bdspecs "
        "None/[]/faces) with A = I^T (K + c M) I through the reference representation matrix, all 4 strategies x 5 smoothers; "
        "(3) drivers iterative_solve / solve_hmultigrid / twogrid with drawn tolerances, iteration limits and starting vectors; "
        "distinct by SHA-1 of the spec")
ASSUMPTIONS = ["oracles: text-book Gauss-Seidel and dense local multigrid V-cycle written out in vp/ref/c11_ref.py, reference "
               "hierarchical model vp/ref/hier.py (smoothing sets, Dirichlet dofs, representation matrices), exact Boehm "
               "prolongation vp/ref/bspl.py; numpy.linalg for dense reference solves and eigenvalues",
               "starting vectors of the multigrid cycle carry homogeneous values on the Dirichlet dofs (the only case the "
               "driver solve_hmultigrid produces); relative residual reduction is undefined for a zero initial residual, "
               "such cases are not generated",
               "twogrid is called with (sparse A, sparse P) or (dense A, dense P)"]

EPS = 2.0 ** -52
STRATEGIES = ("new", "trunc", "func_supp", "cell_supp")
SMOOTHERS = ("gs", "forward_gs", "backward_gs", "symmetric_gs", "exact")


# =============================================================================================
# 1. Gauss-Seidel

def _call_gs(ctx, solvers, A, x, b, iterations, indices, sweep, what):
    with warnings.catch_warnings():
        warnings.simplefilter("ignore")          # documented performance warning for non-CSR input
        ret = ctx.sut(solvers.gauss_seidel, A, x, b, iterations=iterations, indices=indices, sweep=sweep, what=what)
    if ret is not None:
        raise Violation("gs_inplace", "gauss_seidel must update x in place and return None, returned %r" % type(ret))


def _make_x(values, strided):
    if strided:
        buf = np.zeros(2 * len(values))
        x = buf[::2]
        x[:] = values
        return x
    return np.array(values, dtype=float)


def check_gs(spec, ctx):
    from pyiga import solvers
    mat, sto = spec["mat"], spec["sto"]
    n = mat["n"]
    Ad = np.array(mat["A"], dtype=float).reshape(n, n)
    sweep, its = spec["sweep"], spec["iterations"]
    idx_ref = None if spec["indices"] is None else list(spec["indices"]["idx"])
    xstar = np.array(spec["xstar"], dtype=float)
    b_cons = Ad @ xstar                     # exact (dyadic rationals)
    spd = mat["kind"].startswith("spd")

    runs = [("free", np.array(spec["b"], dtype=float), np.array(spec["x0"], dtype=float)),
            ("consistent", b_cons, np.array(spec["x0"], dtype=float))]
    for name, b, x0 in runs:
        A = gm.build_matrix(mat, sto)
        A_before = A.copy()
        x = _make_x(x0, spec["strided_x"])
        bb = b.copy()
        if spec["readonly_b"]:
            bb.flags.writeable = False
        _call_gs(ctx, solvers, A, x, bb, its, gm.build_indices(spec["indices"]), sweep, "gauss_seidel")
        ref, E = cr.gauss_seidel(Ad, x0, b, its, idx_ref, sweep, with_bound=True)
        sc = max(float(np.max(np.abs(ref))), float(np.max(np.abs(x0))), 1e-300)
        ctx.close("gs_textbook", x, ref, rtol=0, atol=1e-12 * sc + 64 * E, what="(%s rhs)" % name)
        # inputs are not modified
        ctx.close("gs_rhs_unmodified", bb, b, rtol=0, atol=0)
        Aa = A.toarray() if hasattr(A, "toarray") else A
        ctx.close("gs_matrix_unmodified", Aa, A_before.toarray() if hasattr(A_before, "toarray") else A_before, rtol=0, atol=0)
        # rows outside the index list are untouched
        if idx_ref is not None:
            rest = [i for i in range(n) if i not in set(idx_ref)]
            ctx.close("gs_untouched_rows", x[rest], x0[rest], rtol=0, atol=0)
        if name == "consistent" and spd:
            e0 = cr.energy(Ad, x0 - xstar)
            e1 = cr.energy(Ad, x - xstar)
            nrm = float(np.max(np.abs(Ad)))
            emax = max(float(np.max(np.abs(x0 - xstar))), float(np.max(np.abs(x - xstar))))
            # rounding of the two quadratic forms + effect of the rounding error (<= 64 E) of the iterate itself
            slack = 1e-12 * e0 + 4 * n * n * EPS * nrm * emax * emax + 2 * n * n * nrm * emax * 64 * float(np.max(E))
            ctx.ratio("gs_energy", (e1 - e0) / max(slack, 1e-300) if e1 > e0 else 0.0)
            if e1 > e0 + slack:
                raise Violation("gs_energy", "energy-norm error increased: %.17g -> %.17g" % (e0, e1))
    # exact solution is a fixed point
    A = gm.build_matrix(mat, sto)
    x = _make_x(xstar, spec["strided_x"])
    _call_gs(ctx, solvers, A, x, b_cons.copy(), max(its, 1), gm.build_indices(spec["indices"]), sweep, "gauss_seidel(x*)")
    ctx.close("gs_fixed_point", x, xstar, rtol=1e-12, atol=0, scale=max(float(np.max(np.abs(xstar))), 1e-300))

    fmt = sto["fmt"]
    unsorted_ = fmt == "csr_unsorted" and hasattr(A, "has_sorted_indices") and not _sorted(A)
    nonincr = idx_ref is not None and idx_ref != sorted(idx_ref)
    ctx.flag("fmt_" + fmt, "kind_" + mat["kind"], "sweep_" + sweep, "iterations_%d" % its,
             "explicit_zeros" if sto["explicit_zeros"] else None, "unsorted_indices" if unsorted_ else None,
             "indices_none" if idx_ref is None else ("indices_empty" if not idx_ref else
                                                     ("indices_unordered" if nonincr else "indices_sorted")),
             None if spec["indices"] is None else "idx_" + spec["indices"]["container"],
             "readonly_b" if spec["readonly_b"] else None, "strided_x" if spec["strided_x"] else None,
             "n1" if n == 1 else None)
    ctx.nontrivial = fmt in ("csc", "coo") or unsorted_ or nonincr


def _sorted(A):
    for i in range(A.shape[0]):
        row = A.indices[A.indptr[i]:A.indptr[i + 1]]
        if np.any(np.diff(row) < 0):
            return False
    return True


@st.composite
def strat_gs(draw):
    mat = draw(gm.matrix())
    n = mat["n"]
    return {"mat": mat, "sto": draw(gm.storage(mat)), "indices": draw(gm.index_list(n)),
            "sweep": draw(st.sampled_from(["forward", "backward", "symmetric"])),
            "iterations": draw(st.sampled_from([0, 1, 1, 2, 2, 3, 4])),
            "x0": draw(gm.vector(n)), "xstar": draw(gm.vector(n)), "b": draw(gm.vector(n, 64, 8.0)),
            "readonly_b": draw(st.integers(0, 5)) == 0, "strided_x": draw(st.integers(0, 5)) == 0}


# =============================================================================================
# 2. local multigrid on hierarchical spaces

class _HProblem:
    """Everything derived from the reference model for one history spec."""
    def __init__(self, spec, ctx):
        # solve - refine - solve: the space may be queried between the refinement steps of its history (smoothing sets,
        # Dirichlet dofs, prolongators of the intermediate space); nothing of that may influence what the final space returns
        probe = list(spec.get("probe") or [])
        cnt = {"k": 0, "used": 0}

        def on_step(hs_, ref_, info_):
            k = cnt["k"]
            cnt["k"] += 1
            if not probe or not probe[k % len(probe)] or info_["calls"] == 0:
                return
            for strat in STRATEGIES:
                ctx.sut(hs_.indices_to_smooth, strat, what="indices_to_smooth between refinements")
            ctx.sut(hs_.dirichlet_dofs, what="dirichlet_dofs between refinements")
            ctx.sut(hs_.virtual_hierarchy_prolongators, what="virtual_hierarchy_prolongators between refinements")
            cnt["used"] += 1
        hs, ref, info = gh.replay(spec, ctx, on_step=on_step if probe else None)
        if cnt["used"] and info["calls"] >= 2:
            ctx.flag("queried_between_refinements")
        self.hs, self.ref, self.info = hs, ref, info
        L = ref.trimmed_levels()
        self.L = L
        ctx.require("numlevels", hs.numlevels == L, "numlevels %d != %d" % (hs.numlevels, L))
        self.trunc = bool(spec["truncate"])
        self.faces = [tuple(b) for b in (spec["bdspecs"] or [])]
        I = ref.I_thb(L) if self.trunc else ref.I_hb(L)
        K = cr.tp_operator(ref.levels[L - 1], spec["c_mass"])
        A = I.T @ K @ I
        self.A = 0.5 * (A + A.T)
        self.n = self.A.shape[0]
        ctx.require("numdofs", hs.numdofs == self.n, "numdofs %d != %d" % (hs.numdofs, self.n))
        funcs = ref.canonical_functions(L)
        self.dirs = [i for i, (l, jj) in enumerate(funcs) if cr.on_faces(ref, l, jj, self.faces)]
        ds = set(self.dirs)
        self.free = [i for i in range(self.n) if i not in ds]
        # virtual levels: dof lists, new dofs and Dirichlet dofs per level
        self.vfuncs = [cr.virtual_functions(ref, k) for k in range(L)]
        self.vnew, self.vdir = [], []
        for k in range(L):
            isdir = [cr.on_faces(ref, l, jj, self.faces) for (l, jj) in self.vfuncs[k]]
            self.vdir.append(set(i for i, d in enumerate(isdir) if d))
            self.vnew.append(set(i for i, (l, jj) in enumerate(self.vfuncs[k]) if l == k and not isdir[i]))

    def vector(self, vals, zero_dirichlet=False):
        v = np.array((list(vals) * (self.n // len(vals) + 1))[:self.n], dtype=float)
        if zero_dirichlet:
            v[self.dirs] = 0.0
        return v

    def solve(self, f):
        """Exact discrete solution with homogeneous Dirichlet values, smallest eigenvalue of A_ff."""
        u = np.zeros(self.n)
        lam = (1.0, 1.0)
        if self.free:
            Aff = self.A[np.ix_(self.free, self.free)]
            w = np.linalg.eigvalsh(Aff)
            lam = (float(w[0]), float(w[-1]))
            if not lam[0] > 1e-13 * lam[1]:
                raise Skip("reference system numerically singular")
            u[self.free] = np.linalg.solve(Aff, f[self.free])
            # one step of iterative refinement with an extended-precision residual
            r = (f[self.free].astype(np.longdouble) - Aff.astype(np.longdouble) @ u[self.free].astype(np.longdouble))
            u[self.free] += np.linalg.solve(Aff, r.astype(float))
        return u, lam

    def energy(self, e):
        return float(e @ (self.A @ e))


def _classes_h(ctx, spec, pb):
    ctx.flag("dim%d" % spec["dim"], "levels%d" % pb.L, "thb" if pb.trunc else "hb", "disparity_%s" % spec["disparity"],
             "bdspecs_none" if spec["bdspecs"] is None else ("bdspecs_empty" if not spec["bdspecs"] else "bdspecs_faces"),
             "c_mass_%g" % spec["c_mass"], "no_free_dofs" if not pb.free else None,
             "disparity_added_cells" if pb.info["disparity_added"] else None)
    ctx.nontrivial = pb.L >= 3 or pb.trunc or spec["disparity"] is not None


def _check_sets(ctx, pb, strat, inds):
    ctx.require("smoothing_sets", len(inds) == pb.L, "%d smoothing sets for %d levels" % (len(inds), pb.L))
    out = []
    for k in range(pb.L):
        ind = np.asarray(inds[k])
        lst = [int(i) for i in ind.tolist()]
        nk = len(pb.vfuncs[k])
        ctx.require("smoothing_sets", ind.ndim == 1 and (len(lst) == 0 or ind.dtype.kind in "iu"), "index array expected")
        ctx.require("smoothing_set_range", all(0 <= i < nk for i in lst),
                    "%s level %d: index outside 0..%d: %r" % (strat, k, nk - 1, lst[:20]))
        ctx.require("smoothing_set_unique", len(set(lst)) == len(lst), "%s level %d: repeated dof %r" % (strat, k, lst[:20]))
        s = set(lst)
        miss = sorted(pb.vnew[k] - s)
        ctx.require("smoothing_set_contains_new", not miss,
                    "%s level %d: newly added dofs %r are not smoothed (set %r)" % (strat, k, miss[:10], lst[:20]))
        bad = sorted(s & pb.vdir[k])
        ctx.require("smoothing_set_no_dirichlet", not bad, "%s level %d contains Dirichlet dofs %r" % (strat, k, bad[:10]))
        if strat == "new" or k == 0:
            ctx.require("smoothing_set_new_exact", s == pb.vnew[k],
                        "%s level %d: set %r, expected exactly the new dofs %r" % (strat, k, lst[:20], sorted(pb.vnew[k])[:20]))
        if s - pb.vnew[k]:
            ctx.flag("set_has_coarse_dofs_" + strat)
        if not s:
            ctx.flag("empty_smoothing_set")
        out.append(lst)
    return out


def _prolongators(ctx, pb):
    Ps = ctx.sut(pb.hs.virtual_hierarchy_prolongators, what="virtual_hierarchy_prolongators")
    ctx.require("prolongators", len(Ps) == pb.L - 1, "%d prolongators for %d levels" % (len(Ps), pb.L))
    Pd = []
    for k, P in enumerate(Ps):
        shp = (len(pb.vfuncs[k + 1]), len(pb.vfuncs[k]))
        ctx.require("prolongators", tuple(P.shape) == shp, "prolongator %d has shape %r, expected %r" % (k, tuple(P.shape), shp))
        Pd.append(P.toarray() if hasattr(P, "toarray") else np.asarray(P, dtype=float))
    return Ps, Pd


def _dirichlet_queries(ctx, pb):
    hs = pb.hs
    dd = ctx.sut(hs.dirichlet_dofs, what="dirichlet_dofs")
    ctx.equal("dirichlet_dofs", sorted(int(i) for i in np.asarray(dd).tolist()), pb.dirs, "dirichlet_dofs()")
    nd = ctx.sut(hs.non_dirichlet_dofs, what="non_dirichlet_dofs")
    ctx.equal("non_dirichlet_dofs", [int(i) for i in np.asarray(nd, dtype=int).tolist()], pb.free, "non_dirichlet_dofs()")
    for k in range(pb.L):
        dk = ctx.sut(hs.dirichlet_dofs, k, what="dirichlet_dofs(lv)")
        ctx.equal("dirichlet_dofs_level", sorted(int(i) for i in np.asarray(dk).tolist()), sorted(pb.vdir[k]),
                  "dirichlet_dofs(%d)" % k)


def check_mg_cycle(spec, ctx):
    import scipy.sparse
    from pyiga import solvers
    pb = _HProblem(spec, ctx)
    _classes_h(ctx, spec, pb)
    hs, A, n = pb.hs, pb.A, pb.n
    f = pb.vector(spec["f"])
    x0 = pb.vector(spec["x0"], zero_dirichlet=True)
    ustar, lam = pb.solve(f)
    cond = lam[1] / lam[0]
    steps = spec["smooth_steps"]
    As = scipy.sparse.csr_matrix(A)
    _dirichlet_queries(ctx, pb)
    Ps, Pd = _prolongators(ctx, pb)
    usc = max(float(np.max(np.abs(ustar))), 1e-300)
    e0 = pb.energy(x0 - ustar)
    for strat in STRATEGIES:
        inds = ctx.sut(hs.indices_to_smooth, strat, what="indices_to_smooth(%s)" % strat)
        lists = _check_sets(ctx, pb, strat, inds)
        for sm in SMOOTHERS:
            tag = "%s/%s" % (strat, sm)
            step = ctx.sut(solvers.local_mg_step, hs, As, f, Ps, inds, sm, steps, what="local_mg_step")
            # (a) exact discrete solution is a fixed point
            uin = ustar.copy()
            y = ctx.sut(step, uin, what="mg_step(u*)")
            ctx.require("mg_step_shape", isinstance(y, np.ndarray) and y.shape == (n,), "cycle returned %r" % (type(y),))
            ctx.close("mg_input_unmodified", uin, ustar, rtol=0, atol=0, what=tag)
            ctx.close("mg_fixed_point", y, ustar, rtol=0, atol=(1e-10 + 64 * EPS * cond) * usc, what=tag)
            # (b) the cycle is the documented V-cycle (dense text-book evaluation with the same transfer
            #     matrices and smoothing sets)
            y = ctx.sut(step, x0.copy(), what="mg_step(x0)")
            yr = cr.vcycle(A, f, Pd, lists, sm, steps, x0)
            sc = max(float(np.max(np.abs(yr))), float(np.max(np.abs(x0))), usc)
            ctx.close("mg_cycle_textbook", y, yr, rtol=0, atol=(1e-10 + 64 * EPS * cond) * sc, what=tag)
            # (c) Dirichlet values stay homogeneous
            if pb.dirs:
                ctx.close("mg_dirichlet_untouched", y[pb.dirs], np.zeros(len(pb.dirs)), rtol=0, atol=1e-13 * sc, what=tag)
            # (d) energy-norm error does not increase (exact subspace solves: stated; Gauss-Seidel smoothers:
            #     follows from the same projection argument for SPD systems)
            e1 = pb.energy(y - ustar)
            dlt = 64 * EPS * cond * sc                  # rounding level of the iterate (subspace solves)
            slack = 1e-9 * e0 + 2 * np.sqrt(max(e0, 0.0) * lam[1] * n) * dlt + lam[1] * n * dlt * dlt
            name = "mg_energy_exact" if sm == "exact" else "mg_energy_gs"
            ctx.ratio(name, (e1 - e0) / max(slack, 1e-300) if e1 > e0 else 0.0)
            if e1 > e0 + slack:
                raise Violation(name, "%s: energy-norm error increased %.17g -> %.17g" % (tag, e0, e1))
    ctx.flag("smooth_steps_%d" % steps)


@st.composite
def strat_mg(draw, driver=False):
    spec = draw(gh.history(dims=(1, 2), pmax=4, max_steps=3, max_levels=4, disparities=(None, 1, 2), bdspecs_mode="any"))
    has_faces = bool(spec["bdspecs"])
    spec["c_mass"] = draw(st.sampled_from([0.0, 1.0, 1.0, 100.0] if has_faces else [1.0, 1.0, 100.0, 0.01]))
    spec["f"] = [draw(st.integers(-8, 8)) / 4.0 for _ in range(17)]
    if all(v == 0 for v in spec["f"]):
        spec["f"][0] = 1.0
    spec["x0"] = [draw(st.integers(-8, 8)) / 4.0 for _ in range(13)]
    spec["smooth_steps"] = draw(st.sampled_from([1, 2, 2, 3]))
    spec["probe"] = [draw(st.booleans()) for _ in range(len(spec["steps"]))]
    if driver:
        spec["strategy"] = draw(st.sampled_from(STRATEGIES))
        spec["smoother"] = draw(st.sampled_from(SMOOTHERS))
        spec["tol"] = draw(st.sampled_from([0.5, 0.1, 1e-2, 1e-4, 1e-8]))
        spec["maxiter"] = draw(st.sampled_from([1, 2, 3, 5, 8, 30]))
        spec["defaults"] = draw(st.integers(0, 5)) == 0
    return spec


# =============================================================================================
# 3. drivers

def _replay_driver(step, A, f, x0, active, tol, maxiter):
    """Independent replay of 'iterate until the residual on the active dofs is reduced by tol'.
    Returns (iterates, residual ratios, initial residual) for up to maxiter steps (stops one step after the first success)."""
    x = np.zeros(len(f)) if x0 is None else np.array(x0, dtype=float)
    r0 = float(np.linalg.norm((f - A @ x)[active]))
    xs, ratios = [], []
    hit = None
    for j in range(1, maxiter + 1):
        x = step(x)
        ratios.append(float(np.linalg.norm((f - A @ x)[active])) / r0)
        xs.append(np.array(x, dtype=float))
        if hit is None and ratios[-1] < tol:
            hit = j
        if hit is not None and j >= hit + 1:
            break
    return xs, ratios, r0


def _judge_stop(ctx, prefix, got_x, got_k, xs, ratios, tol, maxiter):
    # borderline decisions (ratio within 1e-9 of tol) are not judged
    if any(abs(r - tol) <= 1e-9 * tol for r in ratios):
        raise Skip("residual ratio within rounding of the tolerance")
    first = next((j + 1 for j, r in enumerate(ratios) if r < tol), None)
    if isinstance(got_k, (float, np.floating)) and np.isinf(got_k):
        ctx.flag("reported_limit")
        ctx.require(prefix + "_limit_report", first is None,
                    "reported inf (limit) although the residual ratio %.3g < tol %g was reached at step %s" %
                    (ratios[first - 1] if first else float("nan"), tol, first))
        ctx.require(prefix + "_limit_steps", len(xs) == maxiter, "internal: replay length")
        k = maxiter
    else:
        ctx.require(prefix + "_count_type", isinstance(got_k, (int, np.integer)) and not isinstance(got_k, bool),
                    "iteration count %r is neither an int nor inf" % (got_k,))
        k = int(got_k)
        ctx.flag("reported_converged", "converged_at_limit" if k == maxiter else None)
        ctx.require(prefix + "_count_range", 1 <= k <= maxiter, "iteration count %d outside 1..%d" % (k, maxiter))
        if first is None or k != first:
            rk = ratios[k - 1] if k - 1 < len(ratios) else float("nan")
            raise Violation(prefix + "_stop_rule", "returned after %d iterations (ratio %.3g, tol %g); the reduction is first "
                            "met at step %s; ratios %s" % (k, rk, tol, first, ["%.3g" % r for r in ratios[:8]]))
    ref = xs[k - 1]
    sc = max(float(np.max(np.abs(ref))), 1e-300)
    ctx.close(prefix + "_iterate", got_x, ref, rtol=0, atol=1e-11 * sc, what="returned vector vs iterate %d" % k)


def check_hmultigrid(spec, ctx):
    import scipy.sparse
    from pyiga import solvers
    pb = _HProblem(spec, ctx)
    _classes_h(ctx, spec, pb)
    if not pb.free:
        raise Skip("no free dofs: relative residual undefined")
    f = pb.vector(spec["f"])
    if not np.any(f[pb.free]):
        raise Skip("zero right-hand side")
    As = scipy.sparse.csr_matrix(pb.A)
    if spec["defaults"]:
        strat, sm, steps = "cell_supp", "gs", 2
        kw = {}
        ctx.flag("default_arguments")
    else:
        strat, sm, steps = spec["strategy"], spec["smoother"], spec["smooth_steps"]
        kw = {"strategy": strat, "smoother": sm, "smooth_steps": steps}
    tol, maxiter = spec["tol"], spec["maxiter"]
    buf = io.StringIO()
    with contextlib.redirect_stdout(buf):
        res = ctx.sut(solvers.solve_hmultigrid, pb.hs, As, f, tol=tol, maxiter=maxiter, what="solve_hmultigrid", **kw)
    ctx.require("hmg_return", isinstance(res, tuple) and len(res) == 2, "expected (x, iterations)")
    x, k = res
    # replay: the cycle with the documented parameters (local_mg_step itself is judged against the dense text-book
    # V-cycle in subcheck mg_cycle; using the same arithmetic here keeps the stop decisions comparable bit for bit),
    # residuals on the free dofs of the reference model
    Ps, Pd = _prolongators(ctx, pb)
    inds = ctx.sut(pb.hs.indices_to_smooth, strat, what="indices_to_smooth")
    _check_sets(ctx, pb, strat, inds)
    A = pb.A
    step = ctx.sut(solvers.local_mg_step, pb.hs, As, f, Ps, inds, sm, steps, what="local_mg_step")
    xs, ratios, r0 = _replay_driver(step, As, f, None, pb.free, tol, maxiter)
    ctx.flag("strategy_" + strat, "smoother_" + sm, "smooth_steps_%d" % steps, "tol_%g" % tol, "maxiter_%d" % maxiter)
    _judge_stop(ctx, "hmg", x, k, xs, ratios, tol, maxiter)
    # a finite count means the requested reduction holds for the returned vector
    if not np.isinf(k):
        rr = float(np.linalg.norm((f - A @ np.asarray(x, dtype=float))[pb.free])) / r0
        ctx.require("hmg_residual", rr < tol * (1 + 1e-3), "returned vector has residual ratio %.3g >= tol %g" % (rr, tol))


@st.composite
def strat_itsolve(draw):
    mat = draw(gm.matrix(nmin=2, nmax=10))
    n = mat["n"]
    act = draw(st.sampled_from(["none", "list", "array", "array"]))
    k = draw(st.integers(1, n))
    active = sorted(draw(st.permutations(list(range(n))))[:k]) if act != "none" else None
    return {"mat": mat, "method": draw(st.sampled_from(["gs", "gs_sym", "jacobi", "richardson", "half"])),
            "A_kind": draw(st.sampled_from(["dense", "csr", "operator"])),
            "f": [draw(st.sampled_from([-1, 1])) * draw(st.integers(1, 64)) / 8.0 for _ in range(n)],
            "x0": draw(st.sampled_from([None, "zeros", "vec"])), "x0v": draw(gm.vector(n)),
            "active": active, "active_kind": act,
            "tol": draw(st.sampled_from([0.9, 0.5, 0.1, 1e-2, 1e-4, 1e-8])), "maxiter": draw(st.sampled_from([1, 2, 3, 5, 10, 25]))}


def check_iterative_solve(spec, ctx):
    import scipy.sparse
    import scipy.sparse.linalg
    from pyiga import solvers
    mat = spec["mat"]
    n = mat["n"]
    Ad = np.array(mat["A"], dtype=float).reshape(n, n)
    f = np.array(spec["f"], dtype=float)
    method = spec["method"]
    d = np.diag(Ad).copy()
    nrm = float(np.max(np.sum(np.abs(Ad), axis=1)))
    if method == "gs":
        step = lambda x: cr.gauss_seidel(Ad, x, f, 1, None, "forward")
    elif method == "gs_sym":
        step = lambda x: cr.gauss_seidel(Ad, x, f, 1, None, "symmetric")
    elif method == "jacobi":
        step = lambda x: x + 0.5 * (f - Ad @ x) / d
    elif method == "richardson":
        step = lambda x: x + (f - Ad @ x) / nrm
    else:
        # a fixed linear contraction towards a point that is NOT the solution (driver must hit the limit)
        step = lambda x: 0.5 * x + 0.25
    x0 = None if spec["x0"] is None else (np.zeros(n) if spec["x0"] == "zeros" else np.array(spec["x0v"], dtype=float))
    active = spec["active"]
    if active is None:
        act_arg, act = None, list(range(n))
    else:
        act = list(active)
        act_arg = list(act) if spec["active_kind"] == "list" else np.array(act, dtype=int)
    x_init = np.zeros(n) if x0 is None else x0
    r0 = float(np.linalg.norm((f - Ad @ x_init)[act]))
    if not r0 > 1e-9 * (float(np.linalg.norm(f)) + nrm * float(np.linalg.norm(x_init)) + 1e-300):
        raise Skip("initial residual (numerically) zero: relative reduction undefined")
    if spec["A_kind"] == "dense":
        A = Ad.copy()
    elif spec["A_kind"] == "csr":
        A = scipy.sparse.csr_matrix(Ad)
    else:
        A = scipy.sparse.linalg.aslinearoperator(Ad.copy())
    tol, maxiter = spec["tol"], spec["maxiter"]
    x0_arg = None if x0 is None else x0.copy()
    buf = io.StringIO()
    with contextlib.redirect_stdout(buf), np.errstate(all="ignore"), warnings.catch_warnings():
        warnings.simplefilter("ignore")
        res = ctx.sut(solvers.iterative_solve, step, A, f.copy(), x0=x0_arg, active_dofs=act_arg, tol=tol, maxiter=maxiter,
                      what="iterative_solve")
    ctx.require("itsolve_return", isinstance(res, tuple) and len(res) == 2, "expected (x, iterations)")
    x, k = res
    if x0 is not None:
        ctx.close("itsolve_x0_unmodified", x0_arg, x0, rtol=0, atol=0)
    with np.errstate(all="ignore"):
        xs, ratios, _ = _replay_driver(step, Ad, f, x0, act, tol, maxiter)
    if not all(np.isfinite(r) for r in ratios):
        raise Skip("iteration overflowed")
    ctx.flag("method_" + method, "A_" + spec["A_kind"], "x0_%s" % spec["x0"], "active_" + spec["active_kind"],
             "kind_" + mat["kind"], "tol_%g" % tol, "maxiter_%d" % maxiter)
    _judge_stop(ctx, "itsolve", x, k, xs, ratios, tol, maxiter)
    ctx.nontrivial = spec["active"] is not None or spec["x0"] == "vec" or spec["A_kind"] != "dense"


# ---------------------------------------------------------------------------------------------
# two-grid

@st.composite
def strat_twogrid(draw):
    dim = draw(st.sampled_from([1, 1, 1, 2]))
    kvs, news = [], []
    for _ in range(dim):
        kv = draw(gk.knotvec(pmin=1, pmax=3, nmin=1, nmax=6 if dim == 1 else 3, decades=1, interval="unit", mult_prob=0.15))
        br = kv["breaks"]
        mode = draw(st.sampled_from(["halve", "halve", "some"]))
        if mode == "halve":
            new = [0.5 * (a + b) for a, b in zip(br[:-1], br[1:])]
        else:
            new = []
            for s in range(len(br) - 1):
                if draw(st.booleans()):
                    fr = draw(st.integers(1, 7)) / 8.0
                    new.append(br[s] + fr * (br[s + 1] - br[s]))
            if not new:
                new = [0.5 * (br[0] + br[1])]
        kvs.append(kv)
        news.append(new)
    nf = 1
    for kv, new in zip(kvs, news):
        kn, p = gk.build_knots(kv)
        nf *= len(kn) - p - 1 + len(new)
    return {"dim": dim, "kvs": kvs, "new": news, "c_mass": draw(st.sampled_from([1.0, 1.0, 10.0, 0.1])),
            "f": [draw(st.integers(-8, 8)) / 4.0 for _ in range(11)],
            "u0": draw(st.sampled_from(["array", "list", "none", "list_int", "array_int", "array_zero"])),
            "u0v": [draw(st.integers(-4, 4)) for _ in range(7)],
            "storage": draw(st.sampled_from(["csr", "csr", "csc", "dense"])),
            "smoother": draw(st.sampled_from(["gs_forward", "gs_backward", "gs_symmetric", "sequential", "operator", "own"])),
            "smooth_steps": draw(st.sampled_from([1, 2, 2, 3])), "tol": draw(st.sampled_from([1e-3, 1e-6, 1e-8, 1e-10])),
            "default_args": draw(st.integers(0, 4)) == 0}


def check_twogrid(spec, ctx):
    import scipy.sparse
    from pyiga import solvers
    kv_c, kv_f, P1 = [], [], []
    for kv, new in zip(spec["kvs"], spec["new"]):
        kn, p = gk.build_knots(kv)
        fine = np.sort(np.concatenate([kn, np.array(new, dtype=float)]))
        kv_c.append((kn, p))
        kv_f.append((fine, p))
        P1.append(rb.prolongation_matrix(kn, p, fine))
    Pd = np.ones((1, 1))
    for P in P1:
        Pd = np.kron(Pd, P)
    Ad = cr.tp_operator(kv_f, spec["c_mass"])
    Ad = 0.5 * (Ad + Ad.T)
    n = Ad.shape[0]
    f = np.array((spec["f"] * (n // len(spec["f"]) + 1))[:n], dtype=float)
    if not np.any(f):
        f[0] = 1.0
    w = np.linalg.eigvalsh(Ad)
    lam_min, lam_max = float(w[0]), float(w[-1])
    if not lam_min > 1e-12 * lam_max:
        raise Skip("reference system numerically singular")
    ustar = np.linalg.solve(Ad, f)
    vals = (spec["u0v"] * (n // len(spec["u0v"]) + 1))[:n]
    kind = spec["u0"]
    if kind == "none":
        u0, u0_ref = None, np.zeros(n)
    elif kind == "list":
        u0, u0_ref = [v / 4.0 for v in vals], np.array(vals) / 4.0
    elif kind == "list_int":
        u0, u0_ref = [int(v) for v in vals], np.array(vals, dtype=float)
    elif kind == "array":
        u0, u0_ref = np.array(vals) / 4.0, np.array(vals) / 4.0
    elif kind == "array_int":
        u0, u0_ref = np.array(vals, dtype=int), np.array(vals, dtype=float)
    else:
        u0, u0_ref = np.zeros(n), np.zeros(n)
    res0 = float(np.linalg.norm(f - Ad @ u0_ref))
    if not res0 > 1e-9 * float(np.linalg.norm(f)):
        raise Skip("initial residual (numerically) zero")
    if spec["storage"] == "dense":
        A, P = Ad.copy(), Pd.copy()
    elif spec["storage"] == "csr":
        A, P = scipy.sparse.csr_matrix(Ad), scipy.sparse.csr_matrix(Pd)
    else:
        A, P = scipy.sparse.csc_matrix(Ad), scipy.sparse.csc_matrix(Pd)
    name = spec["smoother"]
    I_n = np.eye(n)
    Dg = np.diag(Ad)
    lowD, upD = np.tril(Ad), np.triu(Ad)
    S_fw = I_n - np.linalg.solve(lowD, Ad)           # iteration matrices (for the predicted convergence rate only)
    S_bw = I_n - np.linalg.solve(upD, Ad)
    if name.startswith("gs_"):
        S = solvers.GaussSeidelSmoother(sweep=name[3:])
        Sref = lambda u: cr.gauss_seidel(Ad, u, f, 1, None, name[3:])
        Smat = {"forward": S_fw, "backward": S_bw, "symmetric": S_bw @ S_fw}[name[3:]]
    elif name == "sequential":
        S = solvers.SequentialSmoother((solvers.GaussSeidelSmoother(iterations=2, sweep="backward"),
                                        solvers.OperatorSmoother(np.eye(n) / (2 * lam_max))))
        Sref = lambda u: (lambda v: v + (f - Ad @ v) / (2 * lam_max))(cr.gauss_seidel(Ad, u, f, 2, None, "backward"))
        Smat = (I_n - Ad / (2 * lam_max)) @ S_bw @ S_bw
    elif name == "operator":
        Dinv = scipy.sparse.diags(0.5 / Dg)
        S = solvers.OperatorSmoother(Dinv)
        Sref = lambda u: u + 0.5 * (f - Ad @ u) / Dg
        Smat = I_n - 0.5 * Ad / Dg[:, None]
    else:
        def S(A_, u, f_):                     # user-defined smoother with the documented (A, u, f) in-place interface
            u[:] = cr.gauss_seidel(Ad, u, f_, 1, None, "backward")
        Sref = lambda u: cr.gauss_seidel(Ad, u, f, 1, None, "backward")
        Smat = S_bw
    # the smoother objects of pyiga perform the text-book update (one application, in place)
    v0 = np.array(vals, dtype=float) / 4.0
    v = v0.copy()
    with warnings.catch_warnings():
        warnings.simplefilter("ignore")
        ctx.sut(S, A, v, f, what="smoother:" + name)
    vr = Sref(v0)
    ctx.close("smoother_textbook", v, vr, rtol=0, atol=1e-11 * max(float(np.max(np.abs(vr))), 1e-300), what=name)
    # "converges" is observable only through the iteration limit (1000): configurations whose exact asymptotic two-grid
    # rate predicts more than ~1/3 of it (e.g. damped Jacobi for high degree) are outside the judged domain
    steps_eff = 2 if spec["default_args"] else spec["smooth_steps"]
    Cgc = I_n - Pd @ np.linalg.solve(Pd.T @ Ad @ Pd, Pd.T @ Ad)
    rate = float(np.max(np.abs(np.linalg.eigvals(Cgc @ np.linalg.matrix_power(Smat, steps_eff)))))
    tol_eff = 1e-8 if spec["default_args"] else spec["tol"]
    if rate >= 1.0 or np.log(tol_eff) / np.log(max(rate, 1e-300)) > 300:
        raise Skip("two-grid rate too slow for the iteration limit")
    ctx.flag("rate<0.1" if rate < 0.1 else ("rate<0.5" if rate < 0.5 else "rate>=0.5"))
    tol = spec["tol"]
    kw = {} if spec["default_args"] else {"tol": tol, "smooth_steps": spec["smooth_steps"]}
    if spec["default_args"]:
        tol = 1e-8
        ctx.flag("default_arguments")
    u0_before = None if u0 is None else (list(u0) if isinstance(u0, list) else u0.copy())
    buf = io.StringIO()
    with contextlib.redirect_stdout(buf), warnings.catch_warnings():
        warnings.simplefilter("ignore")
        if u0 is None and spec["default_args"]:
            u = ctx.sut(solvers.twogrid, A, f.copy(), P, S, what="twogrid", **kw)
        else:
            u = ctx.sut(solvers.twogrid, A, f.copy(), P, S, u0, what="twogrid", **kw)
    out = buf.getvalue()
    ctx.require("twogrid_return", isinstance(u, np.ndarray) and u.shape == (n,) and u.dtype == np.float64,
                "returned %r %r" % (type(u), getattr(u, "shape", None)))
    if u0 is not None:
        ctx.equal("twogrid_u0_unmodified", list(u0) if isinstance(u0, list) else u0.tolist(),
                  u0_before if isinstance(u0_before, list) else u0_before.tolist(), "u0")
    ctx.require("twogrid_converged", "Diverged" not in out and "too many" not in out,
                "two-grid iteration did not converge for an SPD system with nested prolongation: %s" % out.strip()[:200])
    # the iteration stops when the residual before a coarse-grid correction is below tol*res0; the correction does not
    # increase the energy-norm error  =>  |u-u*|_A <= |r|_2 / sqrt(lam_min) <= tol*res0/sqrt(lam_min)
    e = u - ustar
    en = float(np.sqrt(max(e @ (Ad @ e), 0.0)))
    cond = lam_max / lam_min
    bound = tol * res0 / np.sqrt(lam_min) + 1e3 * EPS * cond * float(np.sqrt(max(ustar @ (Ad @ ustar), 0.0)))
    ctx.flag("energy_bound_sharp" if en > 0.5 * bound else None)
    ctx.require("twogrid_energy_error", en <= bound, "energy error %.3g exceeds tol*res0/sqrt(lam_min) = %.3g" % (en, bound))
    res = float(np.linalg.norm(f - Ad @ u))
    rb_ = np.sqrt(cond) * tol * res0 + 1e3 * EPS * cond * float(np.linalg.norm(f))
    ctx.require("twogrid_residual", res <= rb_, "residual %.3g exceeds sqrt(cond)*tol*res0 = %.3g" % (res, rb_))
    m = int(out.split()[-2]) if out.strip().endswith("iterations") else -1
    ctx.flag("u0_" + kind, "storage_" + spec["storage"], "smoother_" + name, "dim%d" % spec["dim"], "tol_%g" % tol,
             "iters<=5" if 0 <= m <= 5 else ("iters<=20" if m <= 20 else "iters>20"),
             "nonuniform_refinement" if any(len(nw) != len(kv["breaks"]) - 1 for kv, nw in zip(spec["kvs"], spec["new"])) else None)
    ctx.nontrivial = kind not in ("none",) or spec["storage"] != "csr"


# =============================================================================================

SUBCHECKS = [
    Sub("gauss_seidel", check_gs, strategy=lambda tier: strat_gs(), quick=4000, thorough=100000, isolate=True, floor=200,
        rule="solvers.gauss_seidel (dense loop / relaxation_cy) vs coordinate-wise text-book update with a running rounding "
             "bound; x* exactly fixed; SPD: energy error never increases; non-trivial: CSC/COO/unsorted CSR or index list "
             "not increasing"),
    Sub("mg_cycle", check_mg_cycle, strategy=lambda tier: strat_mg(), quick=240, thorough=4000, isolate=True, floor=30,
        timeout_q=600,
        rule="indices_to_smooth / dirichlet dofs vs reference model; local_mg_step: fixed point, equals dense text-book "
             "V-cycle, energy error non-increasing, for 4 strategies x 5 smoothers per space; non-trivial: >= 3 levels or THB "
             "or finite disparity"),
    Sub("hmultigrid_driver", check_hmultigrid, strategy=lambda tier: strat_mg(driver=True), quick=240, thorough=4000,
        isolate=True, floor=30, timeout_q=600,
        rule="solve_hmultigrid stopping rule and returned iterate vs replay of the documented cycle"),
    Sub("iterative_solve", check_iterative_solve, strategy=lambda tier: strat_itsolve(), quick=800, thorough=15000, floor=50,
        rule="iterative_solve with text-book step functions: count = first step meeting the reduction, inf = limit"),
    Sub("twogrid", check_twogrid, strategy=lambda tier: strat_twogrid(), quick=320, thorough=5000, isolate=True, floor=30,
        timeout_q=600,
        rule="twogrid with nested B-spline prolongation (exact Boehm matrices), SPD K + cM, starting vectors None/list/"
             "int list/array/int array; smoother objects vs text-book; convergence bounds"),
]

KNOWN = {}

"""C09 - tensor-product fast paths and closed-form Galerkin matrix identities."""
import contextlib
import ctypes
import fcntl
import io
import itertools
import os
from fractions import Fraction

import numpy as np
from hypothesis import strategies as st

from ..core import Sub, Violation, Skip
from ..gen import knots as gk
from ..gen import geo as gg
from ..ref import bspl as rb
from ..ref import geo as rg

LEVEL = "exploration"
RULE = ("tensor-product spaces (dims 1-3, mixed degrees 0-6, non-uniform and repeated knots), derivative orders (du,dv) <= p, pairs "
        "of knot vectors on a common mesh with finer quadrature grids, polynomial weights / right-hand sides, affine / bilinear / "
        "NURBS geometries; non-trivial: degree 0/1, or repeated knots, or mixed degrees, or an asymmetric pair with a finer grid, "
        "or derivative order >= 2; distinct by SHA-1 of the spec")
ASSUMPTIONS = ["exact rational integrals of products of piecewise polynomials (vp/ref/bspl.py pp_basis) are the reference for the "
               "1D routines; Kronecker products of them for the tensor-product matrices",
               "fast (ACA) assemblers: entrywise error bound c*tol*max(1, max|A|) with c = 10 calibrated on the unchanged tree; "
               "libc rand() is seeded per case with a Hypothesis-drawn value"]
EPS = np.finfo(float).eps


# ---------------------------------------------------------------------------------------------
# exact 1D integrals

def exact_biform(kv1, kv2, du, dv, weight=None):
    """M[i,j] = int w * N1_j^(du) * N2_i^(dv)  (kv1 trial / columns, kv2 test / rows); common breakpoints required.
    kv = (knots, p); weight = polynomial coefficient list (ascending) or None."""
    (t1, p1), (t2, p2) = kv1, kv2
    br1, pc1 = rb.pp_basis(t1, p1)
    br2, pc2 = rb.pp_basis(t2, p2)
    allbr = sorted(set(br1) | set(br2))
    n1, n2 = len(t1) - p1 - 1, len(t2) - p2 - 1
    M = [[Fraction(0)] * n1 for _ in range(n2)]
    w = [Fraction(float(c)) for c in weight] if weight is not None else [Fraction(1)]

    def piece(br, pcs, lo):
        k = max(i for i in range(len(br) - 1) if br[i] <= lo)
        return pcs[k]
    for lo, hi in zip(allbr[:-1], allbr[1:]):
        A = piece(br1, pc1, lo)
        B = piece(br2, pc2, lo)
        for j, pa in A.items():
            da = rb.poly_deriv(pa, du)
            if all(c == 0 for c in da):
                continue
            for i, pb in B.items():
                db = rb.poly_deriv(pb, dv)
                if all(c == 0 for c in db):
                    continue
                prod = rb.poly_mul(rb.poly_mul(da, db), w)
                M[i][j] += rb.poly_integral(prod, lo, hi)
    return np.array([[float(x) for x in r] for r in M]).reshape(n2, n1)


def exact_load(kv, poly):
    t, p = kv
    br, pcs = rb.pp_basis(t, p)
    n = len(t) - p - 1
    out = [Fraction(0)] * n
    w = [Fraction(float(c)) for c in poly]
    for s, (lo, hi) in enumerate(zip(br[:-1], br[1:])):
        for i, pa in pcs[s].items():
            out[i] += rb.poly_integral(rb.poly_mul(pa, w), lo, hi)
    return np.array([float(x) for x in out])


def _polyfun(coefs):
    c = [float(x) for x in coefs]
    return lambda x: sum(ck * np.asarray(x, dtype=float) ** k for k, ck in enumerate(c))


def check_biform(spec, ctx):
    from pyiga import assemble, bspline
    k1 = spec["kv1"]
    kn1, p1 = gk.build_knots(k1)
    kv1 = gk.pyiga_kv(k1)
    du, dv = spec["du"], spec["dv"]
    mode = spec["mode"]
    if mode == "sym":
        w = spec["weight"]
        nqp = None
        if w is not None:
            nqp = int(np.ceil((2 * p1 - du - dv + len(w) - 1 + 1) / 2.0))
            nqp = max(nqp, 1)
        A = ctx.sut(assemble.bsp_mixed_deriv_biform_1d, kv1, du, dv, nqp=nqp, weightfunc=_polyfun(w) if w is not None else None,
                    what="bsp_mixed_deriv_biform_1d")
        ref = exact_biform((kn1, p1), (kn1, p1), du, dv, w)
        ctx.close("biform_1d_exact", A, ref, rtol=1e-11, atol=0, scale=np.max(np.abs(ref)) + 1e-300)
        if du == dv == 0 and w is None:
            M = ctx.sut(assemble.bsp_mass_1d, kv1, what="bsp_mass_1d").toarray()
            ctx.close("mass_1d", M, ref, rtol=1e-11, atol=0, scale=np.max(np.abs(ref)))
            ctx.close("mass_symmetric", M, M.T, rtol=0, atol=1e-14 * np.max(np.abs(M)))
            try:
                np.linalg.cholesky(M)
            except np.linalg.LinAlgError:
                raise Violation("mass_positive_definite", "1D mass matrix is not positive definite")
            ctx.close("mass_sum_is_measure", M.sum(), kn1[-1] - kn1[0], rtol=1e-12, atol=0)
        if du == dv == 1 and w is None and p1 >= 1:
            K = ctx.sut(assemble.bsp_stiffness_1d, kv1, what="bsp_stiffness_1d").toarray()
            ctx.close("stiffness_1d", K, ref, rtol=1e-11, atol=0, scale=np.max(np.abs(ref)))
            ctx.close("stiffness_kernel", K @ np.ones(K.shape[0]), np.zeros(K.shape[0]), rtol=0, atol=1e-12 * np.max(np.abs(K)))
            ev = np.linalg.eigvalsh(0.5 * (K + K.T))
            ctx.require("stiffness_psd", ev[0] > -1e-12 * ev[-1], "negative eigenvalue %g" % ev[0])
            if len(ev) > 1:
                ctx.require("stiffness_kernel_only_constants", ev[1] > 1e-10 * ev[-1], "second eigenvalue %g: kernel larger than constants" % ev[1])
    else:
        k2 = spec["kv2"]
        kn2, p2 = gk.build_knots(k2)
        kv2 = gk.pyiga_kv(k2)
        quad = None
        if spec["finer"]:
            br = np.array(k1["breaks"])
            quad = np.sort(np.concatenate([br, (br[1:] + br[:-1]) / 2]))
        A = ctx.sut(assemble.bsp_mixed_deriv_biform_1d_asym, kv1, kv2, du, dv, quadgrid=quad, what="bsp_mixed_deriv_biform_1d_asym")
        ref = exact_biform((kn1, p1), (kn2, p2), du, dv)
        ctx.require("asym_shape", A.shape == ref.shape, "shape %r, expected %r" % (A.shape, ref.shape))
        ctx.close("biform_1d_asym_exact", A, ref, rtol=1e-11, atol=0, scale=np.max(np.abs(ref)) + 1e-300)
        if du == dv == 0:
            M = ctx.sut(assemble.bsp_mass_1d_asym, kv1, kv2, quadgrid=quad, what="bsp_mass_1d_asym")
            ctx.close("mass_1d_asym", M, ref, rtol=1e-11, atol=0, scale=np.max(np.abs(ref)))
        ctx.flag("asym", "finer_grid" if spec["finer"] else None, "different_degrees" if p1 != p2 else None)
    ctx.flag("p%d" % p1 if p1 <= 1 else None, "mult>1" if gk.has_multiple_knots(k1) else None,
             "deriv>=2" if max(du, dv) >= 2 else None, "weight" if spec.get("weight") else None)
    ctx.nontrivial = p1 <= 1 or gk.has_multiple_knots(k1) or max(du, dv) >= 2 or mode == "asym"


@st.composite
def strat_biform(draw):
    k1 = draw(gk.knotvec(pmin=0, pmax=6, nmax=5, decades=2, interval="grid"))
    p1 = k1["p"]
    mode = draw(st.sampled_from(["sym", "sym", "asym"]))
    if mode == "sym":
        du, dv = draw(st.integers(0, p1)), draw(st.integers(0, p1))
        w = None
        if draw(st.booleans()):
            w = [draw(st.integers(-4, 4)) / 2.0 for _ in range(draw(st.integers(1, 3)))]
        return {"mode": mode, "kv1": k1, "du": du, "dv": dv, "weight": w}
    p2 = draw(st.integers(0, 6))
    k2 = {"p": p2, "breaks": k1["breaks"], "mults": [max(1, min(m + draw(st.integers(-1, 1)), max(p2, 1))) for m in k1["mults"]]}
    du, dv = draw(st.integers(0, p1)), draw(st.integers(0, p2))
    return {"mode": mode, "kv1": k1, "kv2": k2, "du": du, "dv": dv, "finer": draw(st.booleans())}


# ---------------------------------------------------------------------------------------------
# tensor-product paths and identities

STRINGS = {"mass": "u * v * dx", "stiffness": "inner(grad(u), grad(v)) * dx"}


def setup_strings(tier):
    from pyiga import compile as pc, vform as V, bspline
    base = os.environ.get("XDG_CACHE_HOME", "/tmp")
    os.makedirs(base, exist_ok=True)
    jobs = [(d, n) for d in (2, 3) for n in ("mass", "stiffness")]
    k = int(os.environ.get("VERIF_SHARD", "0")) % len(jobs)
    for dim, name in jobs[k:] + jobs[:k]:
        with open(os.path.join(base, "c09-%s-%d.lock" % (name, dim)), "w") as lk:
            fcntl.flock(lk, fcntl.LOCK_EX)
            kvs = tuple(bspline.make_knots(1, 0.0, 1.0, 1) for _ in range(dim))
            pc.compile_vform(V.parse_vf(STRINGS[name], kvs))


def _kron(mats):
    M = np.ones((1, 1))
    for A in mats:
        M = np.kron(M, A)
    return M


def check_tp(spec, ctx):
    from pyiga import assemble, geometry
    kvss = spec["kvs"]
    dim = len(kvss)
    kvs = tuple(gk.pyiga_kv(k) for k in kvss)
    kns = [gk.build_knots(k) for k in kvss]
    M1 = [exact_biform(k, k, 0, 0) for k in kns]
    K1 = [exact_biform(k, k, 1, 1) for k in kns]
    Mref = _kron(M1)
    Kref = sum(_kron([K1[a] if a == b else M1[a] for a in range(dim)]) for b in range(dim))
    vol = float(np.prod([k[0][-1] - k[0][0] for k in kns]))
    minp = min(p for _, p in kns)
    ident = geometry.identity(kvs)
    for name, ref in (("mass", Mref), ("stiffness", Kref)):
        if name == "stiffness" and minp < 1:
            continue
        f = getattr(assemble, name)
        A = ctx.sut(f, kvs, what=name + "(kvs)")                         # Kronecker path
        sc = np.max(np.abs(ref))
        ctx.close(name + "_kronecker_exact", A, ref, rtol=1e-11, atol=0, scale=sc)
        B = ctx.sut(f, kvs, ident, what=name + "(kvs, identity geo)")     # generic path
        ctx.close(name + "_generic_identity", B, ref, rtol=1e-11, atol=0, scale=sc)
        if spec["string"]:
            C = ctx.sut(assemble.assemble, STRINGS[name], kvs, geo=ident, what="assemble(string)")
            ctx.close(name + "_string", C, ref, rtol=1e-11, atol=0, scale=sc)
            ctx.flag("string_form")
        Ad = A.toarray()
        ctx.close(name + "_symmetric", Ad, Ad.T, rtol=0, atol=1e-14 * sc)
        one = np.ones(Ad.shape[0])
        if name == "mass":
            ctx.close("mass_sum_is_measure", one @ Ad @ one, vol, rtol=1e-11, atol=0)
            try:
                np.linalg.cholesky(Ad)
            except np.linalg.LinAlgError:
                raise Violation("mass_positive_definite", "mass matrix not positive definite")
        else:
            ctx.close("stiffness_kernel", Ad @ one, np.zeros(len(one)), rtol=0, atol=1e-11 * sc)
            ev = np.linalg.eigvalsh(0.5 * (Ad + Ad.T))
            ctx.require("stiffness_psd", ev[0] > -1e-11 * ev[-1], "negative eigenvalue %g" % ev[0])
            if len(ev) > 1:
                ctx.require("stiffness_kernel_only_constants", ev[1] > 1e-9 * ev[-1], "second eigenvalue %g" % ev[1])
    # geometry with polynomial Jacobian determinant: total mass = measure of the mapped domain
    geo, gref = gg.build_geometry(spec["geo"])
    Mg = ctx.sut(assemble.mass, kvs, geo, what="mass(kvs, geo)").toarray()
    one = np.ones(Mg.shape[0])
    # reference measure with an independent (over-integrating) Gauss rule
    grid, wts = [], []
    for (t, p) in kns:
        gbr = np.unique(np.concatenate([np.unique(t)] + [np.unique(g[0]) for g in gref.kvs]))
        x, w = rf_gauss(gbr, 8)
        grid.append(x)
        wts.append(w)
    J = gref.on_grid(grid, 1)[1]
    det = np.abs(np.linalg.det(J))
    W = wts[0]
    for a in range(1, dim):
        W = np.multiply.outer(W, wts[a])
    measure = float(np.sum(det * W))
    # Gauss rule of the library: max p + 1 nodes per span: exact if |det J| is a polynomial of degree <= 2p+1 per direction
    # on the spans of the SPACE mesh -> only asserted for geometries whose knots are a subset of the space's mesh
    geo_ok = all(set(np.unique(g[0]).tolist()) <= set(np.unique(t).tolist()) for g, (t, p) in zip(gref.kvs, kns))
    degs = [g[1] for g in gref.kvs]
    pmax = max(p for _, p in kns)
    if geo_ok and not spec["geo"]["nurbs"] and dim * max(degs) <= 2 * pmax + 1 and min(np.linalg.det(J).min(), -np.linalg.det(J).max()) < 0 or True:
        if geo_ok and not spec["geo"]["nurbs"] and dim * max(degs) - 1 <= 1:
            ctx.close("mass_sum_is_mapped_measure", one @ Mg @ one, measure, rtol=1e-10, atol=0)
            ctx.flag("polynomial_jacobian_geometry")
    ctx.close("mass_geo_symmetric", Mg, Mg.T, rtol=0, atol=1e-14 * np.max(np.abs(Mg)))
    try:
        np.linalg.cholesky(Mg)
    except np.linalg.LinAlgError:
        raise Violation("mass_positive_definite", "mass matrix with geometry not positive definite")
    if minp >= 1:
        Kg = ctx.sut(assemble.stiffness, kvs, geo, what="stiffness(kvs, geo)").toarray()
        ctx.close("stiffness_geo_kernel", Kg @ one, np.zeros(len(one)), rtol=0, atol=1e-10 * np.max(np.abs(Kg)))
        ctx.close("stiffness_geo_symmetric", Kg, Kg.T, rtol=0, atol=1e-13 * np.max(np.abs(Kg)))
        ev = np.linalg.eigvalsh(0.5 * (Kg + Kg.T))
        ctx.require("stiffness_psd", ev[0] > -1e-10 * ev[-1], "negative eigenvalue %g" % ev[0])
    ctx.flag("dim%d" % dim, "mixed_degrees" if len(set(p for _, p in kns)) > 1 else None,
             "mult>1" if any(gk.has_multiple_knots(k) for k in kvss) else None, "p<=1" if minp <= 1 else None)
    ctx.nontrivial = minp <= 1 or any(gk.has_multiple_knots(k) for k in kvss) or len(set(p for _, p in kns)) > 1


def rf_gauss(breaks, n):
    x, w = np.polynomial.legendre.leggauss(n)
    a = np.asarray(breaks[:-1])[:, None]
    b = np.asarray(breaks[1:])[:, None]
    return (0.5 * (a + b) + 0.5 * (b - a) * x[None, :]).ravel(), (0.5 * (b - a) * w[None, :]).ravel()


@st.composite
def strat_tp(draw):
    dim = draw(st.sampled_from([2, 2, 3]))
    pm = 4 if dim == 2 else 2
    kvss = [draw(gk.knotvec(pmin=0, pmax=pm, nmin=1, nmax=3 if dim == 2 else 2, decades=1, interval="unit")) for _ in range(dim)]
    # geometry on (a subset of) the space mesh: degree-1 single-span maps (affine / bilinear / trilinear)
    geo = draw(gg.geometry_map(dim, pmax=1, nmax=1, nurbs=None))
    return {"kvs": kvss, "geo": geo, "string": draw(st.integers(0, 3)) == 0}


# ---------------------------------------------------------------------------------------------
# load vectors, inner products, integrals of polynomial data

def check_load(spec, ctx):
    from pyiga import assemble, bspline
    kvss = spec["kvs"]
    dim = len(kvss)
    kvs = tuple(gk.pyiga_kv(k) for k in kvss)
    kns = [gk.build_knots(k) for k in kvss]
    pmax = max(p for _, p in kns)
    monos = [m for m in spec["monomials"] if all(e <= pmax + 1 for e in m[1])]
    if not monos:
        raise Skip("no admissible monomial")

    def f(*xyz):       # xyz order; exponent e[j] belongs to coordinate j
        xyz = [np.asarray(t, dtype=float) for t in xyz]
        return sum(c * np.prod(np.broadcast_arrays(*[xyz[j] ** e[j] for j in range(dim)]), axis=0) for c, e in monos)
    # exact inner products: tensor product of 1D integrals; coordinate j <-> tensor axis dim-1-j
    ref = 0
    refabs = 0
    for c, e in monos:
        vecs = []
        for ax in range(dim):
            j = dim - 1 - ax
            poly = [0.0] * e[j] + [1.0]
            vecs.append(exact_load(kns[ax], poly))
        T = vecs[0]
        for v in vecs[1:]:
            T = np.multiply.outer(T, v)
        ref = ref + c * T
        refabs = refabs + abs(c) * np.abs(T)
    got = ctx.sut(assemble.inner_products, kvs, f, what="inner_products")
    sc = np.max(refabs) + 1e-300      # scale of the terms (the sum itself may cancel to zero)
    ctx.close("inner_products_exact", got, ref, rtol=1e-11, atol=0, scale=sc)
    tot = ctx.sut(assemble.integrate, kvs, f, what="integrate")
    ctx.close("integrate_exact", tot, float(np.sum(ref)), rtol=1e-11, atol=1e-13 * sc)
    if dim == 1:
        c0 = [0.0] * (pmax + 2)
        for c, e in monos:
            c0[e[0]] += c
        lv = ctx.sut(bspline.load_vector, kvs[0], _polyfun(c0), what="load_vector")
        ctx.close("load_vector_exact", lv, ref, rtol=1e-11, atol=0, scale=sc)
    # affine geometry, physical data: int_Omega f dx = |det A| int f(A xi + b) dxi ; own over-integrating rule as reference
    geo, gref = gg.build_geometry(spec["geo"])
    if dim >= 2:
        fphys = lambda *X: sum(c * np.prod(np.broadcast_arrays(*[np.asarray(X[j], dtype=float) ** min(e[j], 1) for j in range(dim)]), axis=0)
                               for c, e in monos)
        grid, wts = [], []
        for (t, p) in kns:
            x, w = rf_gauss(np.unique(t), 6)
            grid.append(x)
            wts.append(w)
        R = gref.on_grid(grid, 1)
        X = [R[0][..., j] for j in range(dim)]
        det = np.abs(np.linalg.det(R[1]))
        W = wts[0]
        for a in range(1, dim):
            W = np.multiply.outer(W, wts[a])
        refI = float(np.sum(fphys(*X) * det * W))
        gotI = ctx.sut(assemble.integrate, kvs, fphys, f_physical=True, geo=geo, what="integrate(physical, geo)")
        # multilinear data on an affine map: polynomial of degree <= dim per direction; exact for p+1 >= (dim+1)/2 nodes
        if min(p for _, p in kns) >= 1:
            ctx.close("integrate_geo_exact", gotI, refI, rtol=1e-10, atol=1e-12)
        ip = ctx.sut(assemble.inner_products, kvs, fphys, f_physical=True, geo=geo, what="inner_products(physical, geo)")
        ctx.close("inner_products_sum", float(np.sum(ip)), float(gotI), rtol=1e-10, atol=1e-12)
        ctx.flag("affine_geometry", "orientation_reversing" if float(np.linalg.det(np.asarray(spec["geo"]["A"], dtype=float))) < 0 else None)
    ctx.flag("dim%d" % dim, "p0" if min(p for _, p in kns) == 0 else None, "mult>1" if any(gk.has_multiple_knots(k) for k in kvss) else None)
    ctx.nontrivial = min(p for _, p in kns) <= 1 or any(gk.has_multiple_knots(k) for k in kvss) or dim == 3


@st.composite
def strat_load(draw):
    dim = draw(st.integers(1, 3))
    pm = 5 if dim == 1 else (3 if dim == 2 else 2)
    kvss = [draw(gk.knotvec(pmin=0, pmax=pm, nmin=1, nmax=4 if dim == 1 else 2, decades=1, interval="unit")) for _ in range(dim)]
    monos = []
    for _ in range(draw(st.integers(1, 3))):
        monos.append([draw(st.integers(-4, 4)) / 2.0, [draw(st.integers(0, 3)) for _ in range(dim)]])
    # orientation-reversing affine maps included: integrals over the mapped domain carry |det J| (the reference does too)
    g = draw(gg.geometry_map(max(dim, 2), pmax=1, nmax=1, nurbs=False, orient_preserving=False))
    g["amp"] = 0.0      # affine
    if dim == 1:
        g = draw(gg.geometry_map(1, pmax=1, nmax=1, nurbs=False))
    return {"kvs": kvss, "monomials": monos, "geo": g}


# ---------------------------------------------------------------------------------------------
# low-rank fast assemblers

def check_fast(spec, ctx):
    from pyiga import assemble
    kvss = spec["kvs"]
    dim = len(kvss)
    kvs = tuple(gk.pyiga_kv(k) for k in kvss)
    geo, gref = gg.build_geometry(spec["geo"])
    which = spec["which"]
    exact = getattr(assemble, which)(kvs, geo).toarray()
    tol = spec["tol"]
    ctypes.CDLL(None).srand(int(spec["srand"]))
    buf = io.StringIO()
    with contextlib.redirect_stdout(buf):
        A = ctx.sut(getattr(assemble, which + "_fast"), kvs, geo, tol=tol, verbose=1, what=which + "_fast")
    log = buf.getvalue()
    reason = "skipcount" if "Skipped" in log else ("tolerance" if "tolerance reached" in log else ("maxiter" if "Maximum iteration" in log else "unknown"))
    A = A.toarray()
    ctx.require("fast_shape", A.shape == exact.shape, "shape")
    bound = 10.0 * tol * max(1.0, float(np.max(np.abs(exact))))
    err = float(np.max(np.abs(A - exact)))
    if reason != "skipcount":
        ctx.ratio("fast_error_over_bound[%s]" % reason, err / bound)
    if err > bound:
        raise Violation("fast_assembler_accuracy", "%s_fast: max entrywise error %.3g > %.3g (tol=%g, stop reason: %s)"
                        % (which, err, bound, tol, reason), stop_reason=reason)
    ctx.flag(which, "dim%d" % dim, "stop_" + reason, "nurbs" if spec["geo"]["nurbs"] else "bspline_geo")
    ctx.nontrivial = True


@st.composite
def strat_fast(draw):
    dim = draw(st.sampled_from([2, 2, 3]))
    pm = 3 if dim == 2 else 2
    kvss = [draw(gk.knotvec(pmin=1, pmax=pm, nmin=2, nmax=5 if dim == 2 else 3, decades=1, interval="unit", mult_prob=0.1)) for _ in range(dim)]
    geo = draw(gg.geometry_map(dim, pmax=2, nmax=2))
    return {"kvs": kvss, "geo": geo, "which": draw(st.sampled_from(["mass", "stiffness"])),
            "tol": 10.0 ** (-draw(st.integers(4, 10))), "srand": draw(st.integers(0, 2 ** 31 - 1))}


def _stopping_heuristic_only(spec):
    """True iff the fast assembler reproduces the matrix within the bound once its two early-stopping heuristics are
    switched off (skipcount / tolcount huge): the violation is then the early stop of the cross approximation, not a wrong
    matrix generator, reordering or band structure (those stay wrong however long the iteration runs)."""
    from pyiga import assemble
    kvs = tuple(gk.pyiga_kv(k) for k in spec["kvs"])
    geo, gref = gg.build_geometry(spec["geo"])
    which = spec["which"]
    exact = getattr(assemble, which)(kvs, geo).toarray()
    ctypes.CDLL(None).srand(int(spec["srand"]))
    A = getattr(assemble, which + "_fast")(kvs, geo, tol=spec["tol"], maxiter=2000, skipcount=20000, tolcount=10 ** 6, verbose=0).toarray()
    bound = 10.0 * spec["tol"] * max(1.0, float(np.max(np.abs(exact))))
    return A.shape == exact.shape and float(np.max(np.abs(A - exact))) <= bound


def _known_skip(spec, viol):
    return viol.oracle == "fast_assembler_accuracy" and viol.detail.get("stop_reason") == "skipcount" and _stopping_heuristic_only(spec)


def _known_tolcount(spec, viol):
    return viol.oracle == "fast_assembler_accuracy" and viol.detail.get("stop_reason") == "tolerance" and _stopping_heuristic_only(spec)


SUBCHECKS = [
    Sub("biform_1d", check_biform, strategy=lambda tier: strat_biform(), quick=600, thorough=12000, floor=50,
        rule="bsp_mixed_deriv_biform_1d(_asym), bsp_mass/stiffness_1d(_asym) vs exact rational integrals; 1D identities"),
    Sub("tensor_paths", check_tp, strategy=lambda tier: strat_tp(), quick=160, thorough=4000, shards=8, isolate=True, floor=20,
        timeout_q=600, setup=setup_strings,
        rule="Kronecker path = generic path with identity geometry = string form = Kronecker product of exact 1D matrices; SPD / kernel "
             "/ measure identities, also under affine and multilinear geometries"),
    Sub("load", check_load, strategy=lambda tier: strat_load(), quick=400, thorough=8000, floor=30,
        rule="inner_products / integrate / load_vector of polynomial data vs exact rational integrals; affine geometries"),
    Sub("fast", check_fast, strategy=lambda tier: strat_fast(), quick=300, thorough=6000, isolate=True, floor=30,
        rule="mass_fast / stiffness_fast vs standard assembly: entrywise error <= 10*tol*max(1, max|A|)"),
]
SHARED_CACHE = True
KNOWN = {"fast_assemble_skipcount_heuristic": _known_skip, "fast_assemble_tolcount_heuristic": _known_tolcount}

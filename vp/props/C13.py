"""C13 - form-compilation caching never substitutes a different assembler."""
import copy
import hashlib
import json
import os
import subprocess
import sys

import numpy as np
from hypothesis import strategies as st

from ..core import Sub, Violation, Skip, VERIF, REPO
from ..gen import forms as gf
from ..gen import knots as gk
from ..ref import forms as rf
from ..ref import geo as rg
from . import C01

LEVEL = "exploration"
RULE = ("pairs (form, one-token mutation neighbour) from the typed vform grammar; non-trivial: both forms accepted and they "
        "differ in exactly one token (operator, function name, constant, derivative index/flag, measure, boundary flag, "
        "component mode, space index, updatable/physical flag); distinct by SHA-1 of the pair spec")
ASSUMPTIONS = ["cache key of compile_vform = (vf.hash(), (on_demand,)) as observable through vf.hash(); generated text through "
               "compile.generate(); numerical behaviour of returned classes judged by the C01 reference assembly",
               "freshness: the generator functions of scripts/generate-assemblers.py are re-run in sub-processes with "
               "PYTHONHASHSEED 0..3 and compared with the files on disk as multisets of lines per def/cdef block"]

REJECT = C01.REJECT


# ---------------------------------------------------------------------------------------------
# mutation neighbours

def _walk(node, path=()):
    """Yield (path, node) for every AST node (lists starting with a string)."""
    if isinstance(node, list) and node and isinstance(node[0], str):
        yield path, node
        for i, x in enumerate(node[1:], 1):
            if isinstance(x, list):
                if x and isinstance(x[0], str):
                    yield from _walk(x, path + (i,))
                else:
                    for j, y in enumerate(x):
                        if isinstance(y, list):
                            yield from _walk(y, path + (i, j))


def _get(root, path):
    n = root
    for p in path:
        n = n[p]
    return n


FN_CLASS = {"sin": ["cos", "abs"], "cos": ["sin", "abs"], "abs": ["sin", "cos"], "sqrt": ["log"], "log": ["sqrt"],
            "exp": ["sin", "cos"], "tan": ["sin"]}


def mutations(spec):
    """All one-token mutations applicable to the spec: list of (kind, function applying it to a deep copy)."""
    out = []
    extra = []
    dim = spec["dim"]
    roots = [(("terms", ti), term) for ti, term in enumerate(spec["terms"])]
    roots += [(("lets", li, "expr"), v["expr"]) for li, v in enumerate(spec.get("lets", []))]
    for prefix, term in roots:
        for path, node in _walk(term):
            op = node[0]
            full = prefix + path
            in_let = prefix[0] == "lets"
            if op in ("+", "-"):
                out.append(("operator_in_let" if in_let else "operator", full, ("op", "-" if op == "+" else "+")))
            elif op == "fn" and node[1] in FN_CLASS:
                for f in FN_CLASS[node[1]]:
                    if node[1] in ("sqrt", "log", "sin", "cos", "abs") or f in ("sin", "cos"):
                        out.append(("function_name", full, ("fn", f)))
            elif op == "const":
                out.append(("constant_in_let" if in_let else "constant", full, ("const", float(node[1]) + 1.0)))
                out.append(("constant_in_let" if in_let else "constant", full, ("const", -float(node[1]) if node[1] != 0 else 2.0)))
                # neighbours whose Python hash may coincide with the original's (hash(-1.0) == hash(-2.0)); appended at the
                # end of the list so that the 'pick' indices of older replay files keep their meaning
                extra.append(("constant_in_let" if in_let else "constant", full, ("const", float(node[1]) - 1.0)))
                extra.append(("constant_in_let" if in_let else "constant", full, ("const", 2.0 * float(node[1]) if node[1] != 0 else -2.0)))
            elif op == "dx":
                if dim > 1:
                    out.append(("derivative_index", full, ("dxk", (int(node[2]) + 1) % dim)))
                if spec["kind"] != "surface":
                    out.append(("physical_parametric", full, ("flag3", not bool(node[3]))))
            elif op in ("grad", "hess", "div") and spec["kind"] != "surface":
                out.append(("physical_parametric", full, ("flag2", not bool(node[2]))))
            elif op == "pow":
                out.append(("constant", full, ("powk", int(node[2]) + 1 if int(node[2]) >= 1 else 2)))
            elif op == "dxm":
                out.append(("measure", full, ("op", "gw")))
            elif op == "gw" and spec["kind"] in ("gw", "volume"):
                out.append(("measure", full, ("op", "dxm")))
    if spec["kind"] == "gw" and dim >= 2:
        out.append(("boundary_flag", None, ("kind_boundary", None)))
    if spec.get("comps") is None:
        out.append(("component_mode", None, ("comps", [1] * spec["arity"])))
    if spec["arity"] == 2 and not spec.get("spaces") and spec["kind"] != "boundary":
        out.append(("space_index", None, ("spaces", [0, 1])))
    for ii, inp in enumerate(spec["inputs"]):
        if inp["kind"] == "spline":
            out.append(("updatable_flag", None, ("updatable", ii)))
    # structural neighbours: one top-level term (one vf.add() call) duplicated or dropped - the form denotes a different
    # integrand (A + A = 2A) although the SET of its terms is unchanged by a duplication
    for ti in range(len(spec["terms"])):
        extra.append(("term_duplicated", None, ("dup_term", ti)))
        if len(spec["terms"]) >= 2:
            extra.append(("term_dropped", None, ("drop_term", ti)))
    return out + extra


def apply_mutation(spec, mut):
    kind, full, (what, val) = mut
    s = copy.deepcopy(spec)
    if full is not None:
        node = _get(s, full)
        if what == "op":
            node[0] = val
        elif what == "fn":
            node[1] = val
        elif what == "const":
            node[1] = val
        elif what == "dxk":
            node[2] = val
        elif what == "flag3":
            node[3] = val
        elif what == "flag2":
            node[2] = val
        elif what == "powk":
            node[2] = val
    elif what == "dup_term":
        s["terms"].append(copy.deepcopy(s["terms"][val]))
    elif what == "drop_term":
        del s["terms"][val]
    elif what == "kind_boundary":
        s["kind"] = "boundary"
        s["bd"] = [0, 0]
    elif what == "comps":
        s["comps"] = val
    elif what == "spaces":
        s["spaces"] = val
        s["kvs"] = [s["kvs"][0], copy.deepcopy(s["kvs"][0])]
    elif what == "updatable":
        s["inputs"][val]["updatable"] = not s["inputs"][val].get("updatable", False)
    return s


def _key_and_text(spec, on_demand=False):
    from pyiga import compile as pc
    vf = gf.build_vform(spec)
    key = vf.hash()
    text = pc.generate(vf, on_demand=on_demand)
    return key, text


def _interface(spec):
    """What a user of the returned assembler class observes besides the numbers."""
    return json.dumps({"dim": spec["dim"], "arity": spec["arity"], "boundary": spec["kind"] == "boundary",
                       "surface": spec["kind"] == "surface", "comps": spec.get("comps"), "spaces": spec.get("spaces"),
                       "inputs": [[i["name"], i["shape"], i["kind"] == "callable", bool(i.get("updatable"))] for i in spec["inputs"]],
                       "params": [[p["name"], p["shape"]] for p in spec["params"]]}, sort_keys=True)


def _semantics(spec):
    built = gf.build_data(spec)
    interp, M, sabs = C01.reference(spec, built)
    return M, sabs


def check_pair(spec, ctx):
    A = spec["form"]
    muts = mutations(A)
    if spec.get("only_in_let"):
        muts = [m for m in muts if m[1] is not None and m[1][0] == "lets"]
    if not muts:
        raise Skip("no applicable mutation")
    mut = muts[spec["pick"] % len(muts)]
    B = apply_mutation(A, mut)
    keyA, textA = ctx.sut(_key_and_text, A, accept=REJECT, what="hash/generate")
    # the same AST built again must map to the same key (otherwise the cache is never hit).  The generated TEXT of
    # two builds may differ in the order of independent statements and in storage offsets (the scheduling iterates over
    # sets of objects), so text equality is not demanded.
    keyA2, textA2 = ctx.sut(_key_and_text, A, accept=REJECT, what="hash/generate")
    ctx.require("key_deterministic", keyA == keyA2, "the same form built twice has different cache keys")
    if textA != textA2:
        ctx.flag("text_differs_between_builds")
    try:
        keyB, textB = ctx.sut(_key_and_text, B, accept=REJECT, what="hash/generate")
    except Skip:
        ctx.flag("mutant_rejected")
        raise
    if keyA == keyB:
        ctx.flag("keys_equal")
        # sharing a cache entry is only sound if both forms denote the same assembler: same interface and same integrand
        if _interface(A) != _interface(B):
            raise Violation("cache_key_collision", "forms differing in one token (%s) share the in-process cache key but have "
                            "different assembler interfaces" % mut[0], mutation=mut[0])
        try:
            MA, sA = _semantics(A)
            MB, sB = _semantics(B)
        except rf.FormError:
            raise Skip("reference rejects")
        if MA.shape != MB.shape or not np.allclose(MA, MB, rtol=1e-9, atol=1e-12 * (np.max(sA) + 1e-300)):
            raise Violation("cache_key_collision", "forms differing in one token (%s) share the in-process cache key but denote "
                            "different integrands (reference matrices differ by %.3g)"
                            % (mut[0], float(np.max(np.abs(MA - MB))) if MA.shape == MB.shape else float("inf")), mutation=mut[0])
        ctx.flag("keys_equal_semantically_identical")
    else:
        ctx.flag("keys_differ")
    if spec.get("on_demand") and A["kind"] != "boundary":
        try:
            from pyiga import compile as pc
            tod = pc.generate(gf.build_vform(A), on_demand=True)
            ctx.require("on_demand_text", tod != textA, "on_demand code identical to plain code")
            ctx.flag("on_demand")
        except REJECT:
            pass
    ctx.flag("mutation_" + mut[0])
    ctx.nontrivial = True


@st.composite
def strat_pair(draw):
    f = draw(gf.form(depth=2, max_terms=2))
    return {"form": f, "pick": draw(st.integers(0, 10 ** 6)), "on_demand": draw(st.integers(0, 7)) == 0}


@st.composite
def strat_let_pair(draw):
    """Forms whose coefficient is a chain of user-defined variables; the mutated token lies in a variable's definition."""
    f = draw(gf.nested_let_form())
    return {"form": f, "pick": draw(st.integers(0, 10 ** 6)), "on_demand": False, "only_in_let": True}


# ---------------------------------------------------------------------------------------------
# dynamic: compile A then B (and again) in one process; every returned class must implement its own form

def check_dynamic(spec, ctx):
    from pyiga import compile as pc
    A = spec["form"]
    muts = mutations(A)
    if not muts:
        raise Skip("no applicable mutation")
    B = apply_mutation(A, muts[spec["pick"] % len(muts)])
    forms = [A, B] if not spec.get("swap") else [B, A]
    prepared = []
    for fs in forms:
        built = gf.build_data(fs)
        try:
            interp, M, sabs = C01.reference(fs, built)
            pc.generate(gf.build_vform(fs))
        except (rf.FormError,) + REJECT:
            raise Skip("form rejected")
        if not np.all(np.isfinite(M)):
            raise Skip("non-finite reference")
        prepared.append((fs, built, M, sabs))
    classes = {}
    order = [0, 1, 0, 1]
    for k in order:
        fs, built, M, sabs = prepared[k]
        vf = gf.build_vform(fs)
        Asm = ctx.sut(pc.compile_vform, vf, what="compile_vform")
        if k in classes:
            # (returning the very same class is an optimisation, not part of the property: either way the returned
            # assembler must implement the requested form, which check_one decides below)
            ctx.flag("second_request_same_class" if classes[k] is Asm else "second_request_new_class")
        classes[k] = Asm
        try:
            C01.check_one(ctx, fs, Asm, built, M, sabs, "single")
        except Violation as v:
            v.detail["note"] = "request %d in the order %r" % (k, order)
            raise
        # identical source <-> same on-disk module: the module's name is the digest of the source it was built from
        pyx = os.path.join(pc.MODDIR, Asm.__module__ + ".pyx")
        if os.path.exists(pyx):
            with open(pyx) as f:
                src = f.read()
            modname = "mod" + hashlib.shake_128(src.encode()).hexdigest(8)
            ctx.require("module_name", Asm.__module__ == modname, "module %s holds source with digest %s" % (Asm.__module__, modname))
        else:
            raise Violation("module_name", "no source file %s for the loaded module" % pyx)
    ctx.flag("swap" if spec.get("swap") else "noswap", "mutation_" + muts[spec["pick"] % len(muts)][0])
    ctx.nontrivial = True


def check_object_history(spec, ctx):
    """One VForm OBJECT over time: its key is requested (hash() or a compile that hits the in-process cache and therefore does
    not finalize the object), then a further term is added to the same object.  Either the addition is refused, or every later
    request - for this object and for a fresh copy of the short form - gets an assembler that implements the requested form."""
    from pyiga import compile as pc
    full = spec["form"]
    if len(full["terms"]) < 2:
        raise Skip("single-term form")
    short = dict(full)
    short["terms"] = full["terms"][:1]
    built = gf.build_data(full)
    try:
        _, Ms, ss = C01.reference(short, built)
        _, Mf, sf = C01.reference(full, built)
        pc.generate(gf.build_vform(short))
        pc.generate(gf.build_vform(full))
    except (rf.FormError,) + REJECT:
        raise Skip("form rejected")
    if not (np.all(np.isfinite(Ms)) and np.all(np.isfinite(Mf))):
        raise Skip("non-finite reference")
    vf, b = gf.build_vform(short, return_builder=True)
    if spec["op"] == "hash":
        ctx.sut(vf.hash, what="VForm.hash")
    else:
        ctx.sut(pc.compile_vform, gf.build_vform(short), what="compile_vform (warm the in-process cache)")
        Asm0 = ctx.sut(pc.compile_vform, vf, what="compile_vform (cache hit)")
        C01.check_one(ctx, short, Asm0, built, Ms, ss, "single")
    try:
        vf.add(b(full["terms"][1]))
        added = True
    except (RuntimeError, ValueError, TypeError) as e:
        added = False
        ctx.flag("add_refused_after_key_request")
    if added:
        ctx.flag("add_accepted_after_key_request")
        Asm1 = ctx.sut(pc.compile_vform, vf, what="compile_vform (extended object)")
        try:
            C01.check_one(ctx, full, Asm1, built, Mf, sf, "single")
        except Violation as v:
            raise Violation("object_history", "a term added after the key of the object had been requested is not reflected by "
                            "the assembler returned for the object: %s" % v, **v.detail)
        Asm2 = ctx.sut(pc.compile_vform, gf.build_vform(short), what="compile_vform (fresh short form)")
        try:
            C01.check_one(ctx, short, Asm2, built, Ms, ss, "single")
        except Violation as v:
            raise Violation("object_history", "a fresh copy of the short form gets the assembler of the extended object: %s" % v,
                            **v.detail)
    ctx.flag("op_" + spec["op"])
    ctx.nontrivial = True


@st.composite
def strat_history(draw):
    f = draw(gf.form(depth=1, max_terms=2, dims=(1, 2), allow_vec=False, allow_two_space=False,
                     kinds=("volume", "volume", "gw")))
    return {"form": f, "op": draw(st.sampled_from(["hash", "compile"]))}


@st.composite
def strat_dynamic(draw):
    f = draw(gf.form(depth=1, max_terms=1, dims=(1, 2)))
    return {"form": f, "pick": draw(st.integers(0, 10 ** 6)), "swap": draw(st.booleans())}


# ---------------------------------------------------------------------------------------------
# freshness of the shipped assemblers.pyx / genericasm.pxi

GEN_SCRIPT = r'''
import sys, os, importlib.util
sys.path.insert(0, %(repo)r)
spec = importlib.util.spec_from_file_location("genasm", os.path.join(%(repo)r, "scripts", "generate-assemblers.py"))
m = importlib.util.module_from_spec(spec)
spec.loader.exec_module(m)
from pyiga.codegen import cython as backend
out = %(out)r
with open(os.path.join(out, "assemblers.pyx"), "w") as f:
    f.write(backend.preamble())
    f.write(m.generate(dim=2))
    f.write(m.generate(dim=3))
with open(os.path.join(out, "genericasm.pxi"), "w") as f:
    f.write('# file generated by generate-assemblers.py\n')
    f.write(backend.generate_generic(dim=1))
    f.write(backend.generate_generic(dim=2))
    f.write(backend.generate_generic(dim=3))
'''


def _blocks(text):
    """Split into blocks at def/cdef/class lines; each block is a sorted tuple of its stripped non-empty lines."""
    blocks = []
    cur = []
    for line in text.splitlines():
        s = line.strip()
        if not s:
            continue
        if s.startswith(("def ", "cdef ", "cpdef ", "class ", "cdef class ", "@")) and not line.startswith(" " * 8):
            if cur:
                blocks.append(cur)
            cur = []
        cur.append(s)
    if cur:
        blocks.append(cur)
    return sorted(tuple(sorted(b)) for b in blocks)


def check_fresh(spec, ctx):
    seed = spec["hashseed"]
    out = os.path.join(os.environ.get("XDG_CACHE_HOME", "/tmp"), "fresh-%d" % seed)
    os.makedirs(out, exist_ok=True)
    env = dict(os.environ)
    env["PYTHONHASHSEED"] = str(seed)
    code = GEN_SCRIPT % {"repo": REPO, "out": out}
    r = subprocess.run([sys.executable, "-c", code], env=env, stdout=subprocess.PIPE, stderr=subprocess.STDOUT, text=True)
    if r.returncode != 0:
        raise Violation("generator_runs", "generator script failed: %s" % r.stdout[-800:])
    for name in ("assemblers.pyx", "genericasm.pxi"):
        with open(os.path.join(out, name)) as f:
            gen = f.read()
        with open(os.path.join(REPO, "pyiga", name)) as f:
            disk = f.read()
        if gen == disk:
            ctx.flag(name + ":byte_identical")
            continue
        if _blocks(gen) != _blocks(disk):
            gb, db = _blocks(gen), _blocks(disk)
            diff = [b for b in gb if b not in db][:1] + [b for b in db if b not in gb][:1]
            raise Violation("shipped_code_fresh", "%s on disk differs from the generator output (PYTHONHASHSEED=%d) beyond statement "
                            "order; first differing block: %r" % (name, seed, [x[:6] for x in diff]))
        ctx.flag(name + ":same_up_to_order")
    ctx.nontrivial = True


def enum_fresh(tier):
    return [{"hashseed": s} for s in ((0, 1, 2, 3) if tier == "quick" else range(8))]


# ---------------------------------------------------------------------------------------------
# the 14 pre-seeded cache entries: (form, class) pairs

def _predef_spec(name, dim):
    """AST of the predefined forms (written from their mathematical definition)."""
    u, v = ["u"], ["v"]
    if name == "mass":
        return {"arity": 2, "comps": None, "terms": [["*", ["*", u, v], ["dxm"]]]}
    if name == "stiffness":
        return {"arity": 2, "comps": None, "terms": [["*", ["inner", ["grad", u, False], ["grad", v, False]], ["dxm"]]]}
    if name == "divdiv":
        return {"arity": 2, "comps": [dim, dim], "terms": [["*", ["*", ["div", u, False], ["div", v, False]], ["dxm"]]]}
    if name in ("L2", "L2phys"):
        return {"arity": 1, "comps": None, "terms": [["*", ["*", ["input", "f"], v], ["dxm"]]]}
    t = dim - 1
    sg = lambda w: ["vec"] + [["dx", w, k, False] for k in range(dim - 1)]
    if name == "heat":
        return {"arity": 2, "comps": None,
                "terms": [["*", ["+", ["inner", sg(u), sg(v)], ["*", ["dx", u, t, False], v]], ["dxm"]]]}
    if name == "wave":
        dtv = ["dx", v, t, False]
        sgdt = ["vec"] + [["dx", ["dx", v, k, False], t, False] for k in range(dim - 1)]
        return {"arity": 2, "comps": None,
                "terms": [["*", ["+", ["*", ["dx", ["dx", u, t, False], t, False], dtv], ["inner", sg(u), sgdt]], ["dxm"]]]}
    raise ValueError(name)


PREDEF = [("mass", "mass_vf", "MassAssembler"), ("stiffness", "stiffness_vf", "StiffnessAssembler"),
          ("heat", "heat_st_vf", "HeatAssembler_ST"), ("wave", "wave_st_vf", "WaveAssembler_ST"),
          ("divdiv", "divdiv_vf", "DivDivAssembler"), ("L2", "L2functional_vf", "L2FunctionalAssembler"),
          ("L2phys", "L2functional_vf", "L2FunctionalAssemblerPhys")]


def check_predef(spec, ctx):
    from pyiga import compile as pc, vform as V, assemblers, assemble, bspline, geometry
    name, vfname, clsname = PREDEF[spec["which"]]
    dim = spec["dim"]
    kw = {"physical": True} if name == "L2phys" else {}
    vf = getattr(V, vfname)(dim, **kw)
    Asm = ctx.sut(pc.compile_vform, vf, what="compile_vform(predefined)")
    expected = getattr(assemblers, clsname + "%dD" % dim)
    ctx.require("preseeded_identity", Asm is expected, "compile_vform(%s(%d)) returned %r instead of the shipped %s"
                % (vfname, dim, Asm, clsname))
    # numerical behaviour of the shipped class against the reference for ITS form
    kvspecs = spec["kvs"]
    kvs = tuple(gk.pyiga_kv(k) for k in kvspecs)
    kns = [gk.build_knots(k) for k in kvspecs]
    if name in ("heat", "wave"):
        # space-time cylinder: spatial geometry extruded along the time axis (tensor axis 0)
        gs = dict(spec["geo"])
        sgeo, _ = gf.gg.build_geometry(gs)
        geo = sgeo.cylinderize(0.0, 1.0)
    else:
        geo, _ = gf.gg.build_geometry(spec["geo"])
    gref = rg.from_pyiga(geo)
    form = _predef_spec(name, dim)
    form.update({"dim": dim, "kind": "volume", "spaces": None, "bd": None, "params": [],
                 "inputs": [{"name": "f", "shape": [], "kind": "callable" if name == "L2phys" else "spline",
                             "seed": spec["fseed"], "p": 2, "nurbs": False}] if name.startswith("L2") else []})
    env = rf.Env(dim, [kns], gref)
    args = {"geo": geo}
    data = {"inputs": {}, "params": {}}
    if name.startswith("L2"):
        decl = form["inputs"][0]
        if name == "L2phys":
            pyf, reff = gf._callable_for(decl, dim)
            args["f"] = pyf
            data["inputs"]["f"] = reff
        else:
            fs = {"nurbs": False, "vshape": [], "kvs": [{"p": 2, "breaks": [0.0, 0.5, 1.0], "mults": [1]} for _ in range(dim)],
                  "cseed": (decl["seed"] * 3)[:23]}
            f_py, f_ref = gf.gg.build_func(fs)
            args["f"] = f_py
            data["inputs"]["f"] = f_ref
    interp = rf.Interp(env, form, data)
    M, sabs = interp.assemble()
    built = {"kvs": [kvs], "args": args, "env": env, "data": data}
    C01.check_one(ctx, form | {"geo": {"nurbs": False}}, Asm, built, M, sabs, "predefined")
    ctx.flag(name + "%dD" % dim)
    ctx.nontrivial = True


@st.composite
def strat_predef(draw):
    which = draw(st.integers(0, len(PREDEF) - 1))
    dim = draw(st.sampled_from([2, 3]))
    name = PREDEF[which][0]
    pm = 2 if dim == 3 else 3
    kvs = [draw(gk.knotvec(pmin=2 if name == "wave" else 1, pmax=pm, nmin=1, nmax=2, decades=1, interval="unit")) for _ in range(dim)]
    gdim = dim - 1 if name in ("heat", "wave") else dim
    geo = draw(gf.gg.geometry_map(gdim, pmax=2, nmax=2, nurbs=False))
    return {"which": which, "dim": dim, "kvs": kvs, "geo": geo, "fseed": [draw(st.integers(-8, 8)) / 4.0 for _ in range(11)]}


SUBCHECKS = [
    Sub("static_pairs", check_pair, strategy=lambda tier: strat_pair(), quick=640, thorough=40000, floor=100, timeout_q=400,
        timeout_t=6000, rule="equal cache key => identical generated text, for (form, one-token mutant) pairs; same AST twice => "
                             "equal key and text"),
    Sub("let_pairs", check_pair, strategy=lambda tier: strat_let_pair(), quick=320, thorough=10000, floor=50, timeout_q=400, timeout_t=6000,
        rule="chains of user-defined variables (vf.let) where inner variables are referenced only from other variables' definitions; "
             "the mutated token lies inside a definition (added after seeded change C13)"),
    Sub("dynamic", check_dynamic, strategy=lambda tier: strat_dynamic(), quick=16, thorough=96, shards=8, isolate=True, floor=2,
        timeout_q=900, timeout_t=7000, max_shrink_calls=4,
        rule="compile A, B, A, B in one process (and B, A, B, A): each returned class assembles ITS form (C01 oracle), cache hits "
             "return the identical class, module name = digest of the source"),
    Sub("object_history", check_object_history, strategy=lambda tier: strat_history(), quick=48, thorough=480, shards=8, isolate=True,
        floor=4, timeout_q=600, timeout_t=6000, max_shrink_calls=8,
        rule="one VForm object: key requested (hash() / cache-hit compile), then a term is added to the same object: refused, or "
             "all later requests (the object, a fresh copy of the short form) get assemblers of the requested forms"),
    Sub("freshness", check_fresh, enum=enum_fresh, quick=0, thorough=0, shards=4, floor=2, timeout_q=600,
        rule="regenerate assemblers.pyx / genericasm.pxi under PYTHONHASHSEED 0..3 and compare with the shipped files"),
    Sub("preseeded", check_predef, strategy=lambda tier: strat_predef(), quick=64, thorough=800, shards=8, isolate=True, floor=10,
        timeout_q=600, rule="the 14 pre-seeded (form, class) pairs: identity of the returned class and C01 oracle for the form"),
]
KNOWN = {}

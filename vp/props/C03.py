"""C03 - hierarchical assembly is the level-wise Galerkin restriction of tensor-product assembly."""
import fcntl
import os
import numpy as np
from hypothesis import strategies as st

from ..core import Sub, Violation, Skip
from ..gen import knots as gk
from ..gen import geo as gg
from ..gen import forms as gf
from ..gen import hspaces as gh
from ..ref import forms as rf
from ..ref import hier as rh

LEVEL = "exploration"
RULE = ("refinement histories (<= 3-4 levels, p 1-3, dim 1-2, disparity {inf,1,2}, HB/THB, bdspecs None/[]/faces) x a library of "
        "scalar forms (mass, Laplace, nonsymmetric convection with input field and parameter, L2 functionals with parametric / "
        "physical data) x affine / curved B-spline / NURBS geometries x symmetric flag; non-trivial: >= 2 levels with a non-zero "
        "inter-level entry; distinct by SHA-1 of the spec")
ASSUMPTIONS = ["oracle (definition): A[i,j] = R_i^T A_L R_j with L the finer of the two levels, A_L the reference Gauss assembly "
               "(vp/ref/forms.py) on the level-L tensor-product space and R the exact knot-insertion representation "
               "(vp/ref/hier.py); THB = T^T A_HB T with T derived from the definition of truncation"]

FORMS = ["mass", "laplace", "convection", "functional", "functional_phys"]


def form_spec(name, dim):
    u, v = ["u"], ["v"]
    base = {"dim": dim, "kind": "volume", "comps": None, "spaces": None, "bd": None, "params": [], "inputs": []}
    if name == "mass":
        base.update({"arity": 2, "terms": [["*", ["*", u, v], ["dxm"]]]})
    elif name == "laplace":
        base.update({"arity": 2, "terms": [["*", ["inner", ["grad", u, False], ["grad", v, False]], ["dxm"]]]})
    elif name == "convection":
        base.update({"arity": 2, "terms": [["*", ["*", ["*", ["input", "f0"], ["dot", ["param", "c0"], ["grad", u, False]]], v], ["dxm"]]],
                     "inputs": [{"name": "f0", "shape": [], "kind": "spline", "updatable": False, "p": 2, "nurbs": False, "seed": None}],
                     "params": [{"name": "c0", "shape": [dim], "value": None}]})
    elif name == "functional":
        base.update({"arity": 1, "terms": [["*", ["*", ["input", "f0"], v], ["dxm"]]],
                     "inputs": [{"name": "f0", "shape": [], "kind": "spline", "updatable": False, "p": 2, "nurbs": False, "seed": None}]})
    elif name == "functional_phys":
        base.update({"arity": 1, "terms": [["*", ["*", ["input", "f0"], v], ["dxm"]]],
                     "inputs": [{"name": "f0", "shape": [], "kind": "callable", "updatable": False, "p": 2, "nurbs": False, "seed": None}]})
    return base


def _fill(fs, spec):
    for i in fs["inputs"]:
        i["seed"] = spec["fseed"]
    for p in fs["params"]:
        p["value"] = spec["pvals"][:p["shape"][0]]
    fs["geo"] = spec["geo"]
    return fs


def setup(tier):
    """Compile the form library once per run into the shared module cache.  Every worker walks the library starting at a
    different form; a per-form file lock makes sure no two workers build the same module at the same time (the others then
    load it from the disk cache)."""
    from pyiga import compile as pc
    base = os.environ.get("XDG_CACHE_HOME", "/tmp")
    os.makedirs(base, exist_ok=True)
    jobs = [(dim, name) for dim in ((1, 2) if tier == "quick" else (1, 2, 3)) for name in FORMS]
    k = int(os.environ.get("VERIF_SHARD", "0")) % len(jobs)
    for dim, name in jobs[k:] + jobs[:k]:
        with open(os.path.join(base, "c03-%s-%d.lock" % (name, dim)), "w") as lk:
            fcntl.flock(lk, fcntl.LOCK_EX)
            fs = form_spec(name, dim)
            fs["kvs"] = [[]]
            pc.compile_vform(gf.build_vform(fs), on_demand=True)


def ref_level_matrix(fs, spec, ref, L, data_cache):
    """Reference tensor-product assembly on level L."""
    kns = ref.levels[L]
    geo_py, geo_ref = data_cache["geo"]
    env = rf.Env(ref.dim, [kns], geo_ref)
    interp = rf.Interp(env, fs, data_cache["data"])
    return interp.assemble()


def check_hassemble(spec, ctx):
    from pyiga import assemble
    name = spec["form"]
    # the space is USED between the refinement steps of its history (an adaptive loop assembles, queries boundary dofs,
    # refines, assembles again): the final matrix is defined by the final space alone, so none of this may change it
    probe = list(spec.get("probe") or [])
    nsteps = len(spec["steps"])
    state = {"k": 0, "used": 0, "prev": None, "used_prev": False, "quiet_refine_after_use": False}

    def on_step(hs_, ref_, info_):
        k = state["k"]
        state["k"] += 1
        # class: a refinement that adds no level and deactivates no function but activates new ones, on a space that was
        # used (caches populated) just before
        Lr = ref_.trimmed_levels()
        fa = [ref_.functions(l) for l in range(Lr)]
        cur = (Lr, sum(len(d) for _, d in fa), sum(len(a) for a, _ in fa))
        if state["prev"] is not None and state["used_prev"] and cur[0] == state["prev"][0] and cur[1] == state["prev"][1] \
                and cur[2] > state["prev"][2]:
            state["quiet_refine_after_use"] = True
        state["prev"] = cur
        state["used_prev"] = False
        bits = probe[k % len(probe)] if probe else 0
        if not bits or info_["calls"] == 0:
            return
        if bits & 1:
            fs0 = _fill(form_spec(name, ref_.dim), spec)
            fs0["kvs"] = [spec["kvs"]]
            b0 = gf.build_data(fs0)
            ctx.sut(assemble.assemble, gf.build_vform(fs0), hs_, args=dict(b0["args"]), what="assemble(hspace) between refinements")
        if bits & 2:
            ctx.sut(hs_.dirichlet_dofs, what="dirichlet_dofs between refinements")
            ctx.sut(hs_.indices_to_smooth, what="indices_to_smooth between refinements")
        state["used"] += 1
        state["used_prev"] = True
    hs, ref, info = gh.replay(spec, ctx, on_step=on_step if probe else None)
    if info["calls"] == 0:
        raise Skip("no effective refinement")
    L = ref.trimmed_levels()
    dim = ref.dim
    NL = int(np.prod(ref.ndofs(L - 1)))
    QL = int(np.prod([n * (p + 1) for n, (t, p) in zip(ref.ncells(L - 1), ref.levels[L - 1])]))
    if QL * NL * (NL if form_spec(name, dim)["arity"] == 2 else 1) > 4e7:
        raise Skip("reference too large")
    fs = _fill(form_spec(name, dim), spec)
    fs["kvs"] = [spec["kvs"]]
    built = gf.build_data(fs)
    cache = {"geo": (built["geo"], built["env"].geo), "data": built["data"]}
    vf = gf.build_vform(fs)
    args = dict(built["args"])
    sym = bool(spec["symmetric"]) and name in ("mass", "laplace")
    if fs["arity"] == 2:
        got = ctx.sut(assemble.assemble, vf, hs, args=args, symmetric=sym, what="assemble(hspace)")
    else:
        got = ctx.sut(assemble.assemble, vf, hs, args=args, what="assemble(hspace)")
    # reference by the definition
    funcs = ref.canonical_functions(L)
    n = len(funcs)
    lev = np.array([l for l, _ in funcs])
    acts = [sorted(ref.functions(l)[0]) for l in range(L)]
    if fs["arity"] == 2:
        A = np.zeros((n, n))
        S = np.zeros((n, n))
        for lv in range(L):
            AL, sabs = ref_level_matrix(fs, spec, ref, lv, cache)
            cols = []
            for l in range(lv + 1):
                idx = [ref.ravel(l, jj) for jj in acts[l]]
                cols.append(ref.rep(l, lv)[:, idx])
            B = np.concatenate(cols, axis=1)                # N_lv x n_{<=lv}
            m = B.shape[1]
            M = B.T @ AL @ B
            Sm = np.abs(B).T @ sabs @ np.abs(B)
            mask = np.maximum.outer(lev[:m], lev[:m]) == lv
            A[:m, :m][mask] = M[mask]
            S[:m, :m][mask] = Sm[mask]
        interlevel = bool(np.any((np.abs(A) > 1e-14 * np.max(np.abs(A))) & (lev[:, None] != lev[None, :])))
    else:
        A = np.zeros(n)
        S = np.zeros(n)
        pos = 0
        for lv in range(L):
            bL, sabs = ref_level_matrix(fs, spec, ref, lv, cache)
            idx = [ref.ravel(lv, jj) for jj in acts[lv]]
            A[pos:pos + len(idx)] = bL[idx]
            S[pos:pos + len(idx)] = sabs[idx]
            pos += len(idx)
        interlevel = L >= 2
    if spec["truncate"]:
        T, res, _ = ref.thb_to_hb(L)
        if fs["arity"] == 2:
            A = T.T @ A @ T
            S = np.abs(T).T @ S @ np.abs(T)
        else:
            A = T.T @ A
            S = np.abs(T).T @ S
    scale = S + 1e-3 * float(np.max(S)) + 1e-300
    g = got.toarray() if hasattr(got, "toarray") else np.asarray(got)
    ctx.close("levelwise_definition", g, A, rtol=1e-9, atol=0, scale=scale)
    # symmetric assembly of a symmetric form returns the same matrix as general assembly
    if name in ("mass", "laplace"):
        other = ctx.sut(assemble.assemble, gf.build_vform(fs), hs, args=dict(built["args"]), symmetric=not sym,
                        what="assemble(hspace, symmetric=%s)" % (not sym))
        ctx.close("symmetric_flag", other, g, rtol=1e-11, atol=0, scale=scale)
        ctx.close("symmetry", g, g.T, rtol=1e-11, atol=0, scale=scale)
        # polynomial integrand (affine geometry): equals I^T A_fine I with the finest tensor-product assembly
        if spec["geo"]["amp"] == 0.0 and not spec["geo"]["nurbs"]:
            Afine, sf = ref_level_matrix(fs, spec, ref, L - 1, cache)
            I = ref.I_thb(L) if spec["truncate"] else ref.I_hb(L)
            ctx.close("galerkin_projection", g, I.T @ Afine @ I, rtol=1e-9, atol=0, scale=np.abs(I).T @ sf @ np.abs(I) + 1e-3 * float(np.max(sf)))
            ctx.flag("polynomial_integrand")
    ctx.flag("dim%d" % dim, "levels%d" % L, name, "thb" if spec["truncate"] else "hb", "disparity_%s" % spec["disparity"],
             "bdspecs_%s" % ("none" if spec["bdspecs"] is None else ("empty" if not spec["bdspecs"] else "faces")),
             "curved_geo" if spec["geo"]["amp"] > 0 else "affine_geo", "nurbs_geo" if spec["geo"]["nurbs"] else None,
             "symmetric_flag" if sym else None, "disparity_added_cells" if info["disparity_added"] else None,
             "used_between_refinements" if state["used"] and info["calls"] >= 2 else None,
             "refine_without_deactivation_after_use" if state["quiet_refine_after_use"] else None)
    ctx.nontrivial = L >= 2 and interlevel


@st.composite
def strat_hassemble(draw, tier="quick"):
    dims = (1, 1, 2) if tier == "quick" else (1, 1, 2, 2, 3)
    dim0 = draw(st.sampled_from(dims))
    if dim0 == 1:
        # 1D is cheap: deeper hierarchies (5 levels) on larger coarse meshes, so that a finite disparity d >= 2 has room to
        # matter (a level-l cell whose level-(l-d) neighbourhood is still unrefined needs l >= 2, i.e. >= 4 levels for d = 2)
        spec = draw(gh.history(dims=(1,), pmin=1, pmax=3, n0max=4, max_steps=5, max_levels=5,
                               disparities=(None, 1, 2, 2, 3), bdspecs_mode="any", containers=("set",)))
    else:
        spec = draw(gh.history(dims=(dim0,), pmin=1, pmax=2, n0max=2, max_steps=3, max_levels=3 if tier == "quick" else 4,
                               disparities=(None, 1, 2), bdspecs_mode="any", containers=("set",)))
    if spec["dim"] == 3:
        # keep the level-wise reference assembly affordable: p = 1, <= 3 levels, <= 2 coarse cells per direction
        spec["max_levels"] = 3
        for k in spec["kvs"]:
            k["p"] = 1
            k["mults"] = [1] * len(k["mults"])
    elif spec["dim"] == 2 and spec["max_levels"] == 4:
        for k in spec["kvs"]:
            k["p"] = min(k["p"], 1 + (len(k["breaks"]) <= 2))
            k["mults"] = [min(m, k["p"]) for m in k["mults"]]
    dim = spec["dim"]
    spec["form"] = draw(st.sampled_from(FORMS))
    spec["geo"] = draw(gg.geometry_map(dim, pmax=2, nmax=2, orient_preserving=True))
    spec["symmetric"] = draw(st.booleans())
    spec["fseed"] = [draw(st.integers(-8, 8)) / 4.0 for _ in range(11)]
    spec["pvals"] = [draw(st.integers(-8, 8)) / 4.0 for _ in range(3)]
    spec["probe"] = [draw(st.sampled_from([0, 0, 1, 2, 3])) for _ in range(len(spec["steps"]))]
    return spec


@st.composite
def strat_adaptive(draw, tier="quick"):
    """Adaptive-loop histories: larger coarse meshes, several small refinement steps (1-2 cells each, any level), and the
    space is used (assembled on, boundary dofs queried) after every step."""
    spec = draw(gh.history(dims=(1, 1, 2), pmin=1, pmax=2, n0min=3, n0max=3 if tier == "quick" else 4, max_steps=5, max_levels=3,
                           disparities=(None, None, 2), bdspecs_mode="any", containers=("set",), max_cells=2, region_steps=False,
                           mult_prob=0.0))
    if spec["dim"] == 2:
        for k in spec["kvs"]:
            k["p"] = 1
    dim = spec["dim"]
    spec["form"] = draw(st.sampled_from(["mass", "laplace", "mass"]))
    spec["geo"] = draw(gg.geometry_map(dim, pmax=1, nmax=1, orient_preserving=True, nurbs=False))
    spec["symmetric"] = draw(st.booleans())
    spec["fseed"] = [draw(st.integers(-8, 8)) / 4.0 for _ in range(11)]
    spec["pvals"] = [draw(st.integers(-8, 8)) / 4.0 for _ in range(3)]
    spec["probe"] = [draw(st.sampled_from([1, 3, 3, 2])) for _ in range(len(spec["steps"]))]
    return spec


def enum_1d(tier):
    """Exhaustive: every history of <= 2 refine calls (3 levels) over every non-empty subset of active cells of 1D meshes with
    <= 3 (thorough: 4) cells, x p x disparity x HB/THB x {mass, Laplace}."""
    from . import C04
    out = []
    fseed = [1.0, -0.5, 0.75, 2.0, 0.25, -1.5, 1.0, 0.5, -1.0, 0.5, 0.75]
    for p in (1, 2):
        for disp in ((None,) if tier == "quick" else (None, 2)):
            for trunc in (False, True):
                for n in ((3,) if tier == "quick" else (2, 3, 4)):
                    kvs = [{"p": p, "breaks": [i / n for i in range(n + 1)], "mults": [1] * (n - 1)}]
                    base = {"dim": 1, "kvs": kvs, "max_levels": 3, "disparity": disp, "truncate": trunc, "bdspecs": None,
                            "geo": {"dim": 1, "kvs": [{"p": 1, "breaks": [0.0, 1.0], "mults": []}], "nurbs": False, "pert": [0.0],
                                    "amp": 0.0, "A": [[2.0]], "b": [0.5]},
                            "symmetric": False, "fseed": fseed, "pvals": [1.0, 0.5, 0.25]}
                    hist = []
                    ref = rh.RefHSpace([gk.build_knots(k) for k in kvs])
                    C04._enum_from(ref, 2, 3, [], hist, base)
                    for i, h in enumerate(hist):
                        if len(h["steps"]) < 2:
                            continue
                        h = dict(h)
                        h["form"] = "mass" if (i % 2 == 0 or tier == "quick" and n == 3) else "laplace"
                        h["probe"] = [(i // 2) % 4, 0]      # use the space after the first refine call in 3 of 4 histories
                        out.append(h)
    return out


SUBCHECKS = [
    Sub("hassemble", check_hassemble, strategy=lambda tier: strat_hassemble(tier), quick=192, thorough=2400, shards=8, isolate=True,
        floor=10, timeout_q=900, timeout_t=7000, setup=setup, max_shrink_calls=30,
        rule="assemble(form, HSpace) vs level-wise definition R_i^T A_L R_j; THB congruence; symmetric flag; Galerkin projection for "
             "polynomial integrands"),
    Sub("adaptive_loop", check_hassemble, strategy=lambda tier: strat_adaptive(tier), quick=256, thorough=4000, shards=8, isolate=True,
        floor=10, timeout_q=900, timeout_t=7000, setup=setup, max_shrink_calls=30,
        rule="adaptive-loop histories (up to 5 small refinement steps on larger coarse meshes) with the space assembled on and "
             "queried after every step; the final matrix equals the level-wise definition for the final space"),
    Sub("enum_1d", check_hassemble, enum=enum_1d, quick=0, thorough=0, shards=16, isolate=True, floor=50, timeout_q=900, timeout_t=7000,
        setup=setup, rule="exhaustive: all 2-call refinement histories (3 levels) on 1D meshes with <= 3 (4) cells x p in {1,2} x "
                          "disparity {inf,2} x HB/THB, mass and Laplace forms"),
]
SHARED_CACHE = True
KNOWN = {}

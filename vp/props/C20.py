"""C20 - the on-disk compile cache survives crashes and concurrent compilation.

Level: fault enumeration.  Generated inputs are fault sequences and schedules; the oracle is "a fresh process obtains a
correct assembler, with exit status 0"."""
import glob
import hashlib
import json
import os
import re
import shutil
import signal
import subprocess
import sys
import time

import numpy as np
from hypothesis import strategies as st

from ..core import Sub, Violation, Skip, VERIF, REPO
from ..ref import bspl as rb

LEVEL = "fault_enumeration"
RULE = ("fault model derived by strace from one cold compile of the current tree (which cache artefacts are written in place, "
        "which arrive atomically by rename/link); enumerated: every reachable damage class (deleted, empty, header-only, half, "
        "all-but-last-byte, same-length garbage, leftover partial build directory) of every artefact, singly and in pairs across "
        "restarts; SIGKILL of a compiling process (group) at generated times; 2..16 processes racing on the same / distinct forms "
        "with generated start offsets; non-trivial: a fault that leaves an artefact present but incomplete, an effective kill "
        "during the build, or >= 2 racing processes whose compile windows overlap")
ASSUMPTIONS = ["kernel-level torn writes and loss of the page cache (power failure) are outside the model",
               "kill times and process interleavings are sampled, not enumerated",
               "correctness of the recovered assembler: its matrix equals the independently computed mass matrix "
               "(c * int N_i N_j * |G'|) bit-for-bit with an undamaged run and to 1e-13 with the reference"]

CHILD = os.path.join(VERIF, "vp", "c20_child.py")
STATE = {}


def _base():
    return os.environ.get("XDG_CACHE_HOME", "/tmp/c20")


def _moddir(cache):
    return os.path.join(cache, "pyiga", "modules")


def _proc_sample(pid):
    """(state, cpu seconds of the process, number of live descendants) from /proc; None if the process is gone."""
    try:
        with open("/proc/%d/stat" % pid) as f:
            txt = f.read()
        rest = txt[txt.rindex(")") + 2:].split()
        state = rest[0]
        cpu = (int(rest[11]) + int(rest[12])) / float(os.sysconf("SC_CLK_TCK"))
    except (OSError, ValueError, IndexError):
        return None
    ndesc = 0
    todo = [pid]
    seen = set()
    while todo:
        q = todo.pop()
        if q in seen:
            continue
        seen.add(q)
        try:
            for tid in os.listdir("/proc/%d/task" % q):
                with open("/proc/%d/task/%s/children" % (q, tid)) as f:
                    kids = [int(x) for x in f.read().split()]
                ndesc += len(kids)
                todo += kids
        except OSError:
            pass
    return state, cpu, ndesc


def run_child(cache, k, timeout=300, marker=None, wait=True, new_session=False, detect_block=False, block_window=60.0):
    """detect_block: the child is the only process working on this cache.  If it sleeps without any descendant (no compiler
    running) and without CPU progress for block_window seconds, it is reported as blocked: this is decided from the process
    state, not from elapsed time alone - a child that is merely slow on a loaded machine is runnable ('R'), accumulates CPU
    time or waits for a compiler child."""
    env = dict(os.environ)
    env["XDG_CACHE_HOME"] = cache
    env["PYTHONHASHSEED"] = "0"
    args = [sys.executable, CHILD, str(k)] + ([marker] if marker else [])
    p = subprocess.Popen(args, env=env, stdout=subprocess.PIPE, stderr=subprocess.PIPE, text=True,
                         start_new_session=new_session, cwd=_base())
    if not wait:
        return p
    t0 = time.time()
    idle_since, idle_cpu = None, None
    blocked = False
    while True:
        try:
            out, err = p.communicate(timeout=1.0)
            return {"rc": p.returncode, "out": out, "err": err}
        except subprocess.TimeoutExpired:
            pass
        now = time.time()
        if detect_block:
            smp = _proc_sample(p.pid)
            if smp is not None:
                state, cpu, ndesc = smp
                if state == "S" and ndesc == 0 and (idle_cpu is None or cpu - idle_cpu < 0.5):
                    if idle_since is None:
                        idle_since, idle_cpu = now, cpu
                    elif now - idle_since >= block_window:
                        blocked = True
                else:
                    idle_since, idle_cpu = None, None
        if blocked or now - t0 > timeout:
            p.kill()
            out, err = p.communicate()
            return {"rc": None, "out": out, "err": err, "timeout": True, "blocked": blocked,
                    "idle_s": (now - idle_since) if idle_since else 0.0}


def parse_result(res):
    for line in (res.get("out") or "").splitlines():
        if line.startswith("RESULT "):
            return json.loads(line[7:])
    return None


def reference_matrix(k):
    """c * int N_i N_j |G'| for p=2, 3 spans on [0,1], G(t) = 2t."""
    t = np.array([0, 0, 0, 1 / 3, 2 / 3, 1, 1, 1], dtype=float)
    t[3], t[4] = np.linspace(0.0, 1.0, 4)[1:-1]
    x, w = np.polynomial.legendre.leggauss(3)
    br = np.unique(t)
    nodes = np.concatenate([0.5 * (a + b) + 0.5 * (b - a) * x for a, b in zip(br[:-1], br[1:])])
    wts = np.concatenate([0.5 * (b - a) * w for a, b in zip(br[:-1], br[1:])])
    C = rb.colloc(t, 2, nodes)
    return (1.0 + k) * 2.0 * (C.T * wts) @ C


def judge(ctx, res, k, what, good_hex=None):
    if res.get("blocked"):
        raise Violation("fresh_request_succeeds", "%s: the next request blocks - the process slept for %.0f s without a compiler "
                        "child and without CPU progress and never returned an assembler" % (what, res.get("idle_s", 0.0)))
    if res.get("timeout"):
        raise Skip("child timed out (inconclusive)")
    rc = res["rc"]
    if rc is None or rc < 0:
        sig = signal.Signals(-rc).name if rc is not None and -rc in [s.value for s in signal.Signals] else str(rc)
        raise Violation("fresh_request_succeeds", "%s: the next request died with %s" % (what, sig), signal=sig)
    if rc != 0:
        tail = (res["err"] or "").strip().splitlines()[-3:]
        raise Violation("fresh_request_succeeds", "%s: the next request failed (exit %d): %s" % (what, rc, " | ".join(tail)[-400:]))
    r = parse_result(res)
    if r is None:
        raise Violation("fresh_request_succeeds", "%s: no result printed" % what)
    A = np.array([[float.fromhex(x) for x in row] for row in r["matrix"]])
    ctx.close("recovered_assembler_correct", A, reference_matrix(k), rtol=1e-13, atol=1e-15)
    if good_hex is not None and r["matrix"] != good_hex:
        raise Violation("recovered_assembler_correct", "%s: matrix differs bitwise from the undamaged run" % what)
    return r


# ---------------------------------------------------------------------------------------------
# setup: pristine cache + fault model from strace

def setup(tier):
    """One cold compile under strace per run (shared by all workers through a file lock and a state file)."""
    import fcntl
    base = _base()
    os.makedirs(base, exist_ok=True)
    state_file = os.path.join(base, "c20-state.json")
    with open(os.path.join(base, "c20-setup.lock"), "w") as lk:
        fcntl.flock(lk, fcntl.LOCK_EX)
        if os.path.exists(state_file):
            with open(state_file) as f:
                STATE.update(json.load(f))
            return
        _setup_once(tier)
        with open(state_file, "w") as f:
            json.dump(STATE, f)


def _setup_once(tier):
    base = _base()
    os.makedirs(base, exist_ok=True)
    pristine = os.path.join(base, "pristine")
    log = os.path.join(base, "strace.log")
    t0 = time.time()
    env = dict(os.environ)
    env["XDG_CACHE_HOME"] = pristine
    env["PYTHONHASHSEED"] = "0"
    cmd = ["strace", "-f", "-qq", "-e", "trace=openat,open,creat,rename,renameat,renameat2,link,linkat,unlink,unlinkat", "-o", log,
           sys.executable, CHILD, "0"]
    try:
        p = subprocess.run(cmd, env=env, stdout=subprocess.PIPE, stderr=subprocess.PIPE, text=True, timeout=600, cwd=base)
        traced = True
    except (FileNotFoundError, subprocess.TimeoutExpired):
        p = subprocess.run([sys.executable, CHILD, "0"], env=env, stdout=subprocess.PIPE, stderr=subprocess.PIPE, text=True, cwd=base)
        traced = False
    STATE["t_compile"] = time.time() - t0
    STATE["pristine"] = pristine
    STATE["good"] = parse_result({"out": p.stdout})
    STATE["setup_rc"] = p.returncode
    STATE["setup_err"] = p.stderr[-600:]
    md = _moddir(pristine)
    files = []
    for root, dirs, fs in os.walk(md):
        for f in fs:
            files.append(os.path.relpath(os.path.join(root, f), md))
    STATE["files"] = sorted(files)
    inplace, atomic = set(), set()
    if traced and os.path.exists(log):
        with open(log, errors="replace") as f:
            for line in f:
                m = re.search(r'open(?:at)?\([^"]*"([^"]+)", ([A-Z_|0-9]+)', line)
                if m and ("O_WRONLY" in m.group(2) or "O_RDWR" in m.group(2)) and ("O_CREAT" in m.group(2) or "O_TRUNC" in m.group(2)):
                    path = m.group(1)
                    if not os.path.isabs(path):
                        continue
                    if os.path.abspath(path).startswith(md):
                        inplace.add(os.path.relpath(os.path.abspath(path), md))
                m = re.search(r'(?:rename|renameat|renameat2|link|linkat)\(.*"([^"]+)"(?:, [A-Z_0-9|]+)?\)\s+= 0', line)
                if m:
                    path = m.group(1)
                    if os.path.isabs(path) and os.path.abspath(path).startswith(md):
                        atomic.add(os.path.relpath(os.path.abspath(path), md))
    # without strace nothing is known to be written in place: only deletions are injected
    # final artefacts of the cache directory.  An artefact counts as written in place only if such a write was positively
    # observed (absolute path, or a relative path that names the artefact); otherwise only its absence is a reachable
    # crash state.  Unknown never means "in place": the harness must not inject states the tree cannot produce.
    rel_inplace = set()
    if traced and os.path.exists(log):
        with open(log, errors="replace") as f:
            for line in f:
                m = re.search(r'open(?:at)?\([^"]*"([^"]+)", ([A-Z_|0-9]+)', line)
                if m and not os.path.isabs(m.group(1)) and ("O_WRONLY" in m.group(2) or "O_RDWR" in m.group(2)) \
                        and ("O_CREAT" in m.group(2) or "O_TRUNC" in m.group(2)):
                    rel_inplace.add(os.path.normpath(m.group(1)))
    model = {}
    for f in files:
        if f in inplace or f in rel_inplace or os.path.basename(f) in rel_inplace:
            model[f] = "in_place"
        else:
            model[f] = "atomic"
    STATE["model"] = model
    STATE["traced"] = traced


def _artefacts(ext):
    return [f for f in STATE["files"] if f.endswith(ext)]


DAMAGES = ["deleted", "empty", "header", "half", "allbutlast", "garbage", "tenth", "third"]
EXTS = [".pyx", ".c", ".o", ".so"]


def apply_damage(path, damage, data):
    if damage == "deleted":
        os.remove(path)
        return "absent"
    n = len(data)
    if damage == "empty":
        new = b""
    elif damage == "header":
        new = data[:64]
    elif damage == "half":
        new = data[:n // 2]
    elif damage == "tenth":
        new = data[:n // 10]
    elif damage == "third":
        new = data[:(3 * n) // 10]
    elif damage == "allbutlast":
        new = data[:-1]
    else:
        new = bytes((b * 7 + 13) % 256 for b in data[:4096]) + data[4096:] if n > 4096 else bytes((b * 7 + 13) % 256 for b in data)
    with open(path, "wb") as f:
        f.write(new)
    return "partial"


def check_fault(spec, ctx):
    if STATE.get("good") is None:
        raise Violation("fresh_request_succeeds", "cold compile into an empty cache failed (exit %r): %s"
                        % (STATE.get("setup_rc"), STATE.get("setup_err")))
    base = _base()
    case = os.path.join(base, "case-%d-%d" % (os.getpid(), int(time.time() * 1e6) % 10 ** 9))
    shutil.copytree(STATE["pristine"], case)
    md = _moddir(case)
    applied = []
    try:
        for (ext, damage) in spec["faults"]:
            if ext == "builddir":
                # leftover private build directory of a crashed process, with partial content
                d = os.path.join(md, "build-crashed%d" % len(applied))
                os.makedirs(d, exist_ok=True)
                for f in STATE["files"]:
                    src = os.path.join(md, f)
                    if os.path.isfile(src) and os.path.dirname(f) == "":
                        with open(src, "rb") as fh:
                            data = fh.read()
                        with open(os.path.join(d, f), "wb") as fh:
                            fh.write(data[:len(data) // 2])
                applied.append(("builddir", "partial"))
                continue
            targets = _artefacts(ext)
            if not targets:
                continue
            for t in targets:
                kind = STATE["model"].get(t, "in_place")
                if kind.startswith("atomic") and damage != "deleted":
                    ctx.flag("unreachable_state_skipped")
                    continue
                p = os.path.join(md, t)
                if not os.path.exists(p):
                    continue
                with open(p, "rb") as fh:
                    data = fh.read()
                applied.append((t, apply_damage(p, damage, data)))
            # a restart between two faults: request once, ignore the outcome of the intermediate run's judgement here
            if spec.get("restart_between") and (ext, damage) != tuple(spec["faults"][-1]):
                res = run_child(case, 0, detect_block=True)
                judge(ctx, res, 0, "after fault %s:%s (intermediate restart)" % (ext, damage), STATE["good"]["matrix"])
        if not applied:
            raise Skip("no reachable fault state for this tree")
        res = run_child(case, 0, detect_block=True)
        judge(ctx, res, 0, "after faults %r" % (spec["faults"],), STATE["good"]["matrix"])
        # and once more (the repaired cache must be usable again)
        res = run_child(case, 0, detect_block=True)
        judge(ctx, res, 0, "second request after faults %r" % (spec["faults"],), STATE["good"]["matrix"])
    finally:
        shutil.rmtree(case, ignore_errors=True)
    for ext, damage in spec["faults"]:
        ctx.flag("%s:%s" % (ext, damage))
    ctx.flag("pair" if len(spec["faults"]) > 1 else "single")
    ctx.nontrivial = any(a[1] == "partial" for a in applied)


def enum_faults(tier):
    out = []
    for ext in EXTS:
        for dmg in DAMAGES:
            out.append({"faults": [[ext, dmg]]})
    out.append({"faults": [["builddir", "partial"]]})
    pairs = [((".so", "half"), (".c", "half")), ((".pyx", "empty"), (".so", "deleted")), ((".o", "half"), (".so", "deleted")),
             ((".c", "garbage"), (".so", "deleted")), ((".so", "third"), (".so", "tenth")), (("builddir", "partial"), (".so", "deleted"))]
    if tier == "thorough":
        for e1 in EXTS:
            for d1 in ("deleted", "half", "garbage"):
                for e2 in EXTS:
                    for d2 in ("deleted", "half", "allbutlast"):
                        if (e1, d1) != (e2, d2):
                            pairs.append(((e1, d1), (e2, d2)))
    for a, b in pairs:
        out.append({"faults": [list(a), list(b)], "restart_between": True})
        out.append({"faults": [list(a), list(b)], "restart_between": False})
    return out


# ---------------------------------------------------------------------------------------------
# real interruption

def check_kill(spec, ctx):
    base = _base()
    case = os.path.join(base, "kill-%d-%d" % (os.getpid(), int(time.time() * 1e6) % 10 ** 9))
    os.makedirs(case, exist_ok=True)
    T = STATE.get("t_compile", 10.0)
    try:
        p = run_child(case, spec["form"], wait=False, new_session=True)
        stage = spec.get("stage")
        if stage:
            # progress-based kill point (independent of the machine load): wait until the build has produced a file with
            # the given extension anywhere below the cache directory, then a fraction of the measured compile time more
            finished = False
            t_end = time.time() + 40 * T + 120
            seen = False
            while time.time() < t_end:
                if p.poll() is not None:
                    finished = True
                    break
                for root, dirs, fs in os.walk(case):
                    if any(f.endswith("." + stage) for f in fs):
                        seen = True
                        break
                if seen:
                    break
                time.sleep(0.02)
            if seen and not finished:
                try:
                    p.wait(timeout=spec["frac"] * 0.25 * T)
                    finished = True
                except subprocess.TimeoutExpired:
                    finished = False
            ctx.flag("kill_after_" + stage if seen else "stage_not_reached")
        else:
            delay = spec["frac"] * T
            try:
                p.wait(timeout=delay)
                finished = True
            except subprocess.TimeoutExpired:
                finished = False
        if not finished:
            try:
                if spec["group"]:
                    os.killpg(p.pid, signal.SIGKILL)
                else:
                    os.kill(p.pid, signal.SIGKILL)
            except ProcessLookupError:
                pass
            p.wait()
            if not spec["group"]:
                # let orphaned compiler children finish or die
                time.sleep(0.5)
                try:
                    os.killpg(p.pid, signal.SIGKILL)
                except ProcessLookupError:
                    pass
        md = _moddir(case)
        leftovers = []
        if os.path.isdir(md):
            for root, dirs, fs in os.walk(md):
                leftovers += fs
        res = run_child(case, spec["form"], detect_block=True)
        judge(ctx, res, spec["form"], "after SIGKILL at %.2f of the compile time (leftovers: %s)" % (spec["frac"], sorted(leftovers)[:6]))
        ctx.flag("killed" if not finished else "finished_before_kill", "group_kill" if spec["group"] else "single_kill",
                 "leftover_files" if leftovers else "no_leftovers")
        ctx.nontrivial = (not finished) and bool(leftovers)
    finally:
        shutil.rmtree(case, ignore_errors=True)


@st.composite
def strat_kill(draw):
    # concentrate on the second half of the build (C compilation and link)
    frac = draw(st.one_of(st.integers(5, 100), st.integers(55, 100))) / 100.0
    return {"frac": frac, "group": draw(st.booleans()), "form": draw(st.integers(1, 3)),
            "stage": draw(st.sampled_from([None, "pyx", "c", "c", "o"]))}


# ---------------------------------------------------------------------------------------------
# concurrent compilation

def _sha(path):
    with open(path, "rb") as f:
        return hashlib.sha256(f.read()).hexdigest()


def check_race(spec, ctx):
    base = _base()
    case = os.path.join(base, "race-%d-%d" % (os.getpid(), int(time.time() * 1e6) % 10 ** 9))
    os.makedirs(case, exist_ok=True)
    k = spec["k"]
    forms = [0] * k if spec["same"] else [i % spec["nforms"] for i in range(k)]
    procs = []
    t0 = time.time()
    try:
        for i in range(k):
            d = spec["offsets"][i % len(spec["offsets"])]
            while time.time() - t0 < d:
                time.sleep(0.01)
            marker = os.path.join(case, "m%d" % i)
            procs.append((i, forms[i], run_child(case, forms[i], wait=False, marker=marker), marker))
        first_sha = {}
        results = {}
        deadline = time.time() + 600
        pending = list(procs)
        md = _moddir(case)
        while pending and time.time() < deadline:
            for item in list(pending):
                i, fk, p, marker = item
                if p.poll() is not None:
                    out, err = p.communicate()
                    results[i] = {"rc": p.returncode, "out": out, "err": err}
                    pending.remove(item)
                    r = parse_result(results[i])
                    if r is not None:
                        for so in glob.glob(os.path.join(md, r["module"] + "*.so")):
                            first_sha.setdefault(so, _sha(so))
            time.sleep(0.05)
        for item in pending:
            item[2].kill()
            raise Skip("race timed out (inconclusive)")
        for i, fk, p, marker in procs:
            judge(ctx, results[i], fk, "process %d of %d racing on %s" % (i, k, "the same form" if spec["same"] else "distinct forms"))
        for so, h in first_sha.items():
            if os.path.exists(so) and _sha(so) != h:
                raise Violation("completed_entry_not_overwritten", "%s was overwritten with different content after a process had "
                                "already loaded it" % os.path.basename(so))
        # a later request still works
        res = run_child(case, forms[0])
        judge(ctx, res, forms[0], "request after the race")
        ctx.flag("k%d" % k, "same_form" if spec["same"] else "distinct_forms")
        ctx.nontrivial = k >= 2
    finally:
        for _, _, p, _ in procs:
            if p.poll() is None:
                p.kill()
        shutil.rmtree(case, ignore_errors=True)


@st.composite
def strat_race(draw):
    k = draw(st.sampled_from([2, 3, 4, 8]))
    return {"k": k, "same": draw(st.booleans()), "nforms": draw(st.integers(2, 4)),
            "offsets": [0.0] + [draw(st.integers(0, 30)) / 10.0 for _ in range(7)]}


SHARED_CACHE = True

SUBCHECKS = [
    Sub("faults", check_fault, enum=enum_faults, quick=0, thorough=0, shards=16, floor=1, timeout_q=900, timeout_t=7000, setup=setup,
        rule="every reachable damage class of every cache artefact (fault model from strace), singly and in pairs across restarts; "
             "then a request in a fresh process"),
    Sub("kill", check_kill, strategy=lambda tier: strat_kill(), quick=12, thorough=200, shards=4, floor=0, timeout_q=900, timeout_t=7000,
        setup=setup, max_shrink_calls=3, rule="SIGKILL of a compiling process (or its process group) at generated times, then a fresh request"),
    Sub("race", check_race, strategy=lambda tier: strat_race(), quick=4, thorough=48, shards=2, floor=0, timeout_q=900, timeout_t=7000,
        setup=setup, max_shrink_calls=2, rule="2..8 processes requesting the same / distinct forms from one empty cache with "
                                             "generated start offsets; all must succeed; a loaded .so must never change afterwards"),
]
KNOWN = {}

"""C08 - assembly is independent of symmetry flag, format, layout, subset and thread count."""
import fcntl
import os
import numpy as np
from hypothesis import strategies as st

from ..core import Sub, Violation, Skip
from ..gen import knots as gk
from ..gen import geo as gg
from ..gen import forms as gf

LEVEL = "exploration"
RULE = ("assembler (14 shipped classes, 7 JIT forms incl. non-square component blocks, two spaces, parameter + updatable field, "
        "functionals, on-demand mode) x generated space/geometry/inputs x configuration (symmetric, format, layout, index "
        "subsets, bounding boxes, update sequences, thread counts 1..16); non-trivial: the configuration differs from the base "
        "in >= 1 coordinate and either the matrix has off-diagonal component blocks or a strict unsorted subset is requested; "
        "distinct by SHA-1 of the spec")
ASSUMPTIONS = ["differential/metamorphic oracle: base = assemble_entries(asm, symmetric=False, 'csr', 'blocked') with 1 thread "
               "(tied to the independent reference by C01); every other configuration must reproduce it (rtol 1e-13), thread "
               "counts bitwise",
               "the harness does not own the thread schedule: races are searched by repetition over thread counts"]

JIT = ["stokes21", "rect23", "twospace", "coef_updatable", "functional_updatable", "vecfunctional", "convection"]
ONDEMAND = ["coef_updatable", "convection"]


def jit_vform(name, dim=2):
    from pyiga import vform as V
    if name == "stokes21":
        vf = V.VForm(dim)
        u, p = vf.basisfuns(components=(dim, 1))
        vf.add(V.div(u) * p * V.dx)
    elif name == "rect23":
        vf = V.VForm(dim)
        u, v = vf.basisfuns(components=(2, 3))
        M = vf.parameter("M", shape=(3, 2))
        vf.add(V.inner(V.dot(M, u), v) * V.dx)
    elif name == "twospace":
        vf = V.VForm(dim)
        u, v = vf.basisfuns(spaces=(0, 1))
        vf.add((u * v + V.inner(V.grad(u), V.grad(v))) * V.dx)
    elif name == "coef_updatable":
        vf = V.VForm(dim)
        u, v = vf.basisfuns()
        f = vf.input("f", updatable=True)
        c = vf.parameter("c")
        vf.add(c * f * V.inner(V.grad(u), V.grad(v)) * V.dx)
    elif name == "functional_updatable":
        vf = V.VForm(dim, arity=1)
        v = vf.basisfuns()
        f = vf.input("f", updatable=True)
        vf.add(f * v * V.dx)
    elif name == "vecfunctional":
        vf = V.VForm(dim, arity=1)
        v = vf.basisfuns(components=(2, None))
        w = vf.input("w", shape=(2,))
        vf.add(V.inner(w, v) * V.dx)
    elif name == "convection":
        vf = V.VForm(dim)
        u, v = vf.basisfuns()
        b = vf.parameter("b", shape=(dim,))
        vf.add(V.dot(b, V.grad(u)) * v * V.dx)
    else:
        raise ValueError(name)
    return vf


def setup_jit(tier):
    from pyiga import compile as pc
    base = os.environ.get("XDG_CACHE_HOME", "/tmp")
    os.makedirs(base, exist_ok=True)
    jobs = [(n, False) for n in JIT] + [(n, True) for n in ONDEMAND]
    k = int(os.environ.get("VERIF_SHARD", "0")) % len(jobs)
    for name, od in jobs[k:] + jobs[:k]:
        with open(os.path.join(base, "c08-%s-%d.lock" % (name, od)), "w") as lk:
            fcntl.flock(lk, fcntl.LOCK_EX)
            pc.compile_vform(jit_vform(name), on_demand=od)


def _field(dim, seed, shape=(), p=2):
    fs = {"nurbs": False, "vshape": list(shape), "kvs": [{"p": p, "breaks": [0.0, 0.5, 1.0], "mults": [1]} for _ in range(dim)],
          "cseed": [1.0 + abs(x) for x in (seed * 3)[:23]]}
    return gg.build_func(fs)[0]


def _dense(A):
    import scipy.sparse
    from pyiga import mlmatrix
    if isinstance(A, mlmatrix.MLMatrix):
        return A.asmatrix().toarray()
    if scipy.sparse.issparse(A):
        return A.toarray()
    return np.asarray(A)


def make_asm(spec, which=0, on_demand=False, bbox=None):
    """Instantiate the assembler of the case; `which` selects the alternative data set (for update tests)."""
    from pyiga import assemblers, compile as pc, geometry
    name = spec["asm"]
    dim = spec["dim"]
    kvs = tuple(gk.pyiga_kv(k) for k in spec["kvs"])
    seed = spec["fseed"] if which == 0 else spec["fseed2"]
    if name in ("HeatAssembler_ST", "WaveAssembler_ST"):
        sgeo, _ = gg.build_geometry(spec["geo"])
        geo = sgeo.cylinderize(0.0, 1.0)
    else:
        geo, _ = gg.build_geometry(spec["geo"])
    if name in ("MassAssembler", "StiffnessAssembler", "HeatAssembler_ST", "WaveAssembler_ST", "DivDivAssembler"):
        return getattr(assemblers, name + "%dD" % dim)(kvs, geo), {}
    if name == "L2FunctionalAssembler":
        return getattr(assemblers, name + "%dD" % dim)(kvs, geo, _field(dim, seed)), {}
    if name == "L2FunctionalAssemblerPhys":
        s = list(seed)
        f = lambda *X: s[0] + np.sin(sum(s[1 + k] * X[k] for k in range(dim)))
        return getattr(assemblers, name + "%dD" % dim)(kvs, geo, f), {}
    Asm = pc.compile_vform(jit_vform(name), on_demand=on_demand)
    kw = {"bbox": bbox} if on_demand else {}
    if name == "stokes21":
        return Asm(kvs, geo, **kw), {}
    if name == "rect23":
        return Asm(kvs, geo, M=np.array(spec["pvals"][:6]).reshape(3, 2), **kw), {}
    if name == "twospace":
        kvs1 = tuple(gk.pyiga_kv(k) for k in spec["kvs1"])
        return Asm(kvs, kvs1, geo, **kw), {}
    if name == "coef_updatable":
        c = spec["pvals"][0] if which == 0 else spec["pvals"][1]
        return Asm(kvs, geo, _field(dim, seed), c, **kw), {"f": _field(dim, spec["fseed2"]), "c": spec["pvals"][1]}
    if name == "functional_updatable":
        return Asm(kvs, geo, _field(dim, seed), **kw), {"f": _field(dim, spec["fseed2"])}
    if name == "vecfunctional":
        return Asm(kvs, geo, _field(dim, seed, shape=(2,)), **kw), {}
    if name == "convection":
        return Asm(kvs, geo, np.array(spec["pvals"][:dim]), **kw), {}
    raise ValueError(name)


SYMMETRIC = {"MassAssembler", "StiffnessAssembler", "DivDivAssembler", "coef_updatable"}


def check_config(spec, ctx):
    import pyiga
    from pyiga import assemble, mlmatrix
    name = spec["asm"]
    pyiga.set_max_threads(1)
    asm, upd = ctx.sut(make_asm, spec, what="assembler __init__")
    arity = asm.arity
    isvec = hasattr(asm, "num_components")
    base = ctx.sut(assemble.assemble_entries, asm, what="assemble_entries(base)")
    B = _dense(base)
    scale = float(np.max(np.abs(B))) + 1e-300
    cfg = spec["config"]
    differs = False
    if arity == 2:
        # ---- symmetric / format / layout
        for (sym, fmt, layout) in cfg["variants"]:
            if sym and name not in SYMMETRIC:
                continue
            if not isvec and (fmt == "mlb" or layout == "packed"):
                continue
            if fmt == "bsr" and isvec and layout == "blocked":
                pass
            got = ctx.sut(assemble.assemble_entries, asm, symmetric=sym, format=fmt, layout=layout,
                          what="assemble_entries(symmetric=%s, format=%s, layout=%s)" % (sym, fmt, layout))
            if fmt != "mlb":
                ctx.require("format", getattr(got, "format", None) == fmt, "requested format %s, got %s" % (fmt, getattr(got, "format", type(got))))
            G = _dense(got)
            if isvec and layout == "packed":
                nc_v, nc_u = asm.num_components()[::-1]
                nv, nu = B.shape[0] // nc_v, B.shape[1] // nc_u
                # packed index = i * nc + c ; blocked index = c * N + i
                pr = np.array([c * nv + i for i in range(nv) for c in range(nc_v)])
                pc_ = np.array([c * nu + j for j in range(nu) for c in range(nc_u)])
                ref = B[np.ix_(pr, pc_)]
            else:
                ref = B
            ctx.close("config_independent", G, ref, rtol=1e-13, atol=1e-13 * scale, scale=np.abs(ref),
                      what="symmetric=%s format=%s layout=%s" % (sym, fmt, layout))
            differs = True
            ctx.flag("symmetric" if sym else None, "fmt_" + fmt, "layout_" + layout if isvec else None)
        # ---- subsets: entry / multi_entries / multi_blocks with unsorted pairs, incl. pairs without common support
        if not isvec:
            n0, n1 = B.shape
            IJ = np.array([[i % n0, j % n1] for i, j in cfg["pairs"]], dtype=np.uintp)
            vals = np.asarray(ctx.sut(asm.multi_entries, IJ, what="multi_entries"))
            ctx.close("multi_entries", vals, B[IJ[:, 0], IJ[:, 1]], rtol=1e-13, atol=1e-13 * scale, scale=np.abs(B[IJ[:, 0], IJ[:, 1]]))
            vals2 = np.asarray(ctx.sut(asm.multi_entries, [tuple(int(x) for x in r) for r in IJ], what="multi_entries(list)"))
            ctx.close("multi_entries", vals2, vals, rtol=0, atol=0)
            for (i, j) in IJ[:3]:
                e = ctx.sut(asm.entry, int(i), int(j), what="entry")
                ctx.close("entry", e, B[i, j], rtol=1e-13, atol=1e-13 * scale, scale=abs(B[i, j]))
            ctx.flag("unsorted_subset")
            differs = True
        else:
            nc_v, nc_u = asm.num_components()[::-1]
            nv, nu = B.shape[0] // nc_v, B.shape[1] // nc_u
            IJ = np.array([[i % nv, j % nu] for i, j in cfg["pairs"]], dtype=np.uintp)
            blocks = np.asarray(ctx.sut(asm.multi_blocks, IJ, what="multi_blocks"))
            ctx.require("multi_blocks", blocks.shape == (len(IJ), nc_v, nc_u), "block array shape %r, expected %r" % (blocks.shape, (len(IJ), nc_v, nc_u)))
            ref = np.array([[[B[cv * nv + i, cu * nu + j] for cu in range(nc_u)] for cv in range(nc_v)] for (i, j) in IJ])
            ctx.close("multi_blocks", blocks, ref, rtol=1e-13, atol=1e-13 * scale, scale=np.abs(ref))
            ctx.flag("offdiag_component_blocks" if (nc_v > 1 or nc_u > 1) else None, "nonsquare_blocks" if nc_v != nc_u else None)
            differs = True
    else:
        # functionals: assemble_vector vs multi_entries on unsorted index subsets
        full = np.asarray(ctx.sut(asm.assemble_vector, what="assemble_vector"))
        if isvec:
            ctx.close("vector_layout", np.moveaxis(full, -1, 0), B, rtol=0, atol=0)
            packed = ctx.sut(assemble.assemble_entries, asm, layout="packed", what="assemble_entries(packed)")
            ctx.close("vector_layout", np.asarray(packed), full, rtol=0, atol=0)
            ctx.flag("layout_packed")
        else:
            n = full.size
            idx = np.array([i % n for i, _ in cfg["pairs"]], dtype=np.uintp)
            vals = np.asarray(ctx.sut(asm.multi_entries, idx, what="multi_entries1"))
            ctx.close("multi_entries", vals, full.ravel()[idx], rtol=1e-13, atol=1e-13 * scale, scale=np.abs(full.ravel()[idx]))
            ctx.flag("unsorted_subset")
        differs = True
    # ---- reuse: assembling twice with one object
    again = _dense(ctx.sut(assemble.assemble_entries, asm, what="assemble_entries(again)"))
    ctx.close("idempotent", again, B, rtol=1e-13, atol=1e-13 * scale, scale=np.abs(B), what="second assembly with the same object")
    # ---- update(f=g) / update_params versus a fresh assembler
    if upd:
        fresh, _ = make_asm(spec, which=1)
        want = _dense(assemble.assemble_entries(fresh))
        if "f" in upd:
            ctx.sut(asm.update, f=upd["f"], what="update")
        if "c" in upd:
            ctx.sut(asm.update_params, c=upd["c"], what="update_params")
        got = _dense(ctx.sut(assemble.assemble_entries, asm, what="assemble_entries(after update)"))
        ctx.close("update_equals_fresh", got, want, rtol=1e-13, atol=1e-13 * scale, scale=np.abs(want))
        ctx.flag("update")
        # back to the original data: same as the first result
        asm0, _ = make_asm(spec, which=0)
        B0 = _dense(assemble.assemble_entries(asm0))
        ctx.close("fresh_reproducible", B0, B, rtol=1e-13, atol=1e-13 * scale, scale=np.abs(B), what="a fresh assembler with the same data")
        asm = asm0
        B = B0
    # ---- thread counts: bitwise identical
    for nt in cfg["threads"]:
        pyiga.set_max_threads(int(nt))
        for rep in range(2):
            g = _dense(ctx.sut(assemble.assemble_entries, asm, symmetric=False, what="assemble_entries(threads=%d)" % nt))
            if not np.array_equal(g, B):
                raise Violation("thread_count_bitwise", "result with %d threads differs from 1 thread (max diff %.3g)"
                                % (nt, float(np.max(np.abs(g - B)))))
            if arity == 2 and name in SYMMETRIC:
                gs = _dense(ctx.sut(assemble.assemble_entries, asm, symmetric=True, what="assemble_entries(symmetric, threads)"))
                ctx.close("config_independent", gs, B, rtol=1e-13, atol=1e-13 * scale, scale=np.abs(B))
        ctx.flag("threads>1" if nt > 1 else None)
    pyiga.set_max_threads(1)
    ctx.flag(name, "dim%d" % spec["dim"], "vector" if isvec else "scalar")
    ctx.nontrivial = differs


def check_ondemand(spec, ctx):
    """on-demand assemblers: entries of functions supported inside the bounding box equal the full assembler's."""
    import pyiga
    from pyiga import assemble
    pyiga.set_max_threads(1)
    full, _ = ctx.sut(make_asm, spec, what="assembler __init__")
    B = _dense(assemble.assemble_entries(full))
    kvs = [gk.pyiga_kv(k) for k in spec["kvs"]]
    bbox = []
    for ax, kv in enumerate(kvs):
        n = kv.numspans
        lo = spec["bbox"][ax][0] % n
        hi = lo + 1 + spec["bbox"][ax][1] % (n - lo)
        bbox.append((lo, hi))
    od, _ = ctx.sut(make_asm, spec, on_demand=True, bbox=tuple(bbox), what="on-demand __init__")
    # functions whose support lies inside the box
    inside = []
    for ax, kv in enumerate(kvs):
        ms = kv.mesh_support_idx_all()
        inside.append([j for j in range(kv.numdofs) if bbox[ax][0] <= ms[j, 0] and ms[j, 1] <= bbox[ax][1]])
    if any(len(x) == 0 for x in inside):
        raise Skip("no basis function inside the box")
    nd = [kv.numdofs for kv in kvs]
    import itertools
    funcs = [int(np.ravel_multi_index(t, nd)) for t in itertools.product(*inside)]
    pairs = [(funcs[i % len(funcs)], funcs[j % len(funcs)]) for i, j in spec["config"]["pairs"]]
    IJ = np.array(pairs, dtype=np.uintp)
    vals = np.asarray(ctx.sut(od.multi_entries, IJ, what="on-demand multi_entries"))
    scale = float(np.max(np.abs(B))) + 1e-300
    ctx.close("ondemand_bbox", vals, B[IJ[:, 0], IJ[:, 1]], rtol=1e-13, atol=1e-13 * scale, scale=np.abs(B[IJ[:, 0], IJ[:, 1]]))
    strict = any(b != (0, kv.numspans) for b, kv in zip(bbox, kvs))
    ctx.flag(spec["asm"], "strict_bbox" if strict else "full_bbox", "bbox_offset" if any(b[0] > 0 for b in bbox) else None)
    ctx.nontrivial = strict


@st.composite
def strat_config(draw, names, ondemand=False):
    name = draw(st.sampled_from(names))
    st_form = name in ("HeatAssembler_ST", "WaveAssembler_ST")
    if name in JIT:
        dim = 2
    else:
        dim = draw(st.sampled_from([2, 2, 3]))
    pmin = 2 if name == "WaveAssembler_ST" else 1
    pm = 2 if dim == 3 else 3
    nmax = 2 if dim == 3 else 3
    kvs = [draw(gk.knotvec(pmin=pmin, pmax=pm, nmin=1 if not ondemand else 2, nmax=nmax if not ondemand else 4, decades=1, interval="unit"))
           for _ in range(dim)]
    spec = {"asm": name, "dim": dim, "kvs": kvs,
            "geo": draw(gg.geometry_map(dim - 1 if st_form else dim, pmax=2, nmax=2, nurbs=False if st_form else None)),
            "fseed": [draw(st.integers(-8, 8)) / 4.0 for _ in range(11)], "fseed2": [draw(st.integers(-8, 8)) / 4.0 for _ in range(11)],
            "pvals": [draw(st.integers(1, 12)) / 4.0 for _ in range(6)]}
    if name == "twospace":
        kvs1 = []
        for k in kvs:
            p1 = draw(st.integers(1, pm))
            kvs1.append({"p": p1, "breaks": k["breaks"], "mults": [min(m, p1) for m in k["mults"]]})
        spec["kvs1"] = kvs1
    variants = []
    for _ in range(draw(st.integers(1, 3))):
        variants.append([draw(st.booleans()), draw(st.sampled_from(["csr", "csc", "coo", "bsr", "mlb"])),
                         draw(st.sampled_from(["blocked", "packed"]))])
    spec["config"] = {"variants": variants,
                      "pairs": [[draw(st.integers(0, 10 ** 4)), draw(st.integers(0, 10 ** 4))] for _ in range(draw(st.integers(2, 12)))],
                      "threads": sorted(set(draw(st.integers(2, 16)) for _ in range(2)))}
    if ondemand:
        spec["bbox"] = [[draw(st.integers(0, 7)), draw(st.integers(0, 7))] for _ in range(dim)]
    return spec


# ---------------------------------------------------------------------------------------------
# histories on one assemble.Assembler object (the documented high-level interface for updatable fields): update(f=..),
# assemble(f=..), assemble() in any order, re-using field objects; after every assemble the result must equal the
# operator of an assembler constructed afresh with the fields that are current according to the history.

WRAP_PROBLEMS = {
    (2, 0): ("f * u * v * dx + g * inner(grad(u), grad(v)) * dx", ["u", "v"]),
    (1, 0): ("(f + g * g) * v * dx", ["v"]),
    # variant 1: each updatable field enters through its value AND its gradient (several per-node arrays per field)
    # (forms in which the same gradient occurs twice, e.g. inner(grad(f), grad(f)), are refused by the generator with
    # "only global array vars can be updated" and are not used)
    (2, 1): ("(f + g) * inner(grad(f), grad(g)) * u * v * dx + g * inner(grad(u), grad(v)) * dx", ["u", "v"]),
    (1, 1): ("(f * inner(grad(f), grad(g)) + g * g) * v * dx", ["v"]),
}


def setup_wrapper(tier):
    from pyiga import assemble, bspline, geometry
    base = os.environ.get("XDG_CACHE_HOME", "/tmp")
    os.makedirs(base, exist_ok=True)
    jobs = [(d, a, w) for d in (1, 2) for a in (1, 2) for w in (0, 1)]
    k = int(os.environ.get("VERIF_SHARD", "0")) % len(jobs)
    for dim, arity, var in jobs[k:] + jobs[:k]:
        with open(os.path.join(base, "c08-wrap-%d-%d-%d.lock" % (dim, arity, var)), "w") as lk:
            fcntl.flock(lk, fcntl.LOCK_EX)
            kvs = tuple(bspline.make_knots(1, 0.0, 1.0, 1) for _ in range(dim))
            text, bf = WRAP_PROBLEMS[(arity, var)]
            f = _field(dim, [1.0])
            assemble.Assembler(text, kvs, args={"geo": geometry.unit_cube(dim=dim), "f": f, "g": f}, bfuns=bf, updatable=["f", "g"])


def check_wrapper_history(spec, ctx):
    from pyiga import assemble
    dim = spec["dim"]
    kvs = tuple(gk.pyiga_kv(k) for k in spec["kvs"])
    geo = gg.build_geometry(spec["geo"])[0]
    pool = [_field(dim, sd, p=1 + (i % 2)) for i, sd in enumerate(spec["pool"])]
    text, bf = WRAP_PROBLEMS[(spec["arity"], spec.get("variant", 0))]
    cur = dict(spec["init"])
    args = {"geo": geo, "f": pool[cur["f"]], "g": pool[cur["g"]]}
    # (assemble_entries rejects symmetric=True in 1D with an explicit "not implemented in 1D")
    sym = bool(spec["symmetric"]) and spec["arity"] == 2 and dim >= 2
    A = ctx.sut(assemble.Assembler, text, kvs, args=dict(args), bfuns=list(bf), symmetric=sym, updatable=["f", "g"], what="Assembler")
    fresh_cache = {}

    def fresh():
        key = (cur["f"], cur["g"])
        if key not in fresh_cache:
            fresh_cache[key] = _dense(assemble.assemble(text, kvs, args={"geo": geo, "f": pool[cur["f"]], "g": pool[cur["g"]]},
                                                        bfuns=list(bf), symmetric=False))
        return fresh_cache[key]
    n_asm = 0
    explicit_before_assemble = False
    pending_explicit = False
    revert = False
    seen = [dict(cur)]
    for stp in spec["steps"]:
        fields = {k: int(v) for k, v in stp["fields"].items()}
        kw = {k: pool[v] for k, v in fields.items()}
        if stp["op"] == "update":
            if not kw:
                continue
            ctx.sut(A.update, what="Assembler.update", **kw)
            cur.update(fields)
            pending_explicit = True
        else:
            got = ctx.sut(A.assemble, format=stp["format"], layout="blocked", what="Assembler.assemble", **kw)
            cur.update(fields)
            want = fresh()
            got = _dense(got)
            if spec["arity"] == 1:
                got = got.reshape(want.shape)
            scale = float(np.max(np.abs(want))) + 1e-300
            ctx.close("history_equals_fresh", got, want, rtol=1e-12, atol=1e-13 * scale, scale=np.abs(want),
                      what="assemble after history (current fields f=%d g=%d)" % (cur["f"], cur["g"]))
            n_asm += 1
            explicit_before_assemble = explicit_before_assemble or pending_explicit
        if cur in seen[:-1]:
            revert = True
        seen.append(dict(cur))
    ctx.flag("dim%d" % dim, "arity%d" % spec["arity"], "symmetric" if sym else None, "field_value_and_gradient" if spec.get("variant") else None,
             "explicit_update_then_assemble" if explicit_before_assemble else None, "returns_to_earlier_fields" if revert else None)
    ctx.nontrivial = n_asm >= 2 and explicit_before_assemble


@st.composite
def strat_wrapper(draw):
    dim = draw(st.sampled_from([1, 2, 2]))
    arity = draw(st.sampled_from([1, 2, 2]))
    kvs = [draw(gk.knotvec(pmin=1, pmax=3, nmin=1, nmax=3, decades=1, interval="unit")) for _ in range(dim)]
    npool = draw(st.integers(2, 4))
    pool = [[draw(st.integers(-8, 8)) / 4.0 for _ in range(5)] for _ in range(npool)]
    idx = st.integers(0, npool - 1)
    steps = []
    for _ in range(draw(st.integers(2, 7))):
        op = draw(st.sampled_from(["update", "assemble", "assemble"]))
        names = draw(st.sampled_from([[], ["f"], ["g"], ["f", "g"], ["f"]])) if op == "assemble" else draw(st.sampled_from([["f"], ["g"], ["f", "g"]]))
        stp = {"op": op, "fields": {n: draw(idx) for n in names}}
        if op == "assemble":
            stp["format"] = draw(st.sampled_from(["csr", "csr", "csc", "coo"])) if arity == 2 else "csr"
        steps.append(stp)
    return {"dim": dim, "arity": arity, "kvs": kvs, "geo": draw(gg.geometry_map(dim, pmax=2, nmax=2)), "pool": pool,
            "init": {"f": draw(idx), "g": draw(idx)}, "symmetric": draw(st.booleans()), "steps": steps,
            "variant": draw(st.integers(0, 1))}


PREDEF = ["MassAssembler", "StiffnessAssembler", "HeatAssembler_ST", "WaveAssembler_ST", "DivDivAssembler", "L2FunctionalAssembler",
          "L2FunctionalAssemblerPhys"]

SUBCHECKS = [
    Sub("predefined", check_config, strategy=lambda tier: strat_config(PREDEF), quick=160, thorough=4000, isolate=True, floor=20,
        timeout_q=600, timeout_t=6000, max_shrink_calls=40,
        rule="the 14 shipped assembler classes: symmetric x format x layout, entry/multi_entries/multi_blocks subsets, reuse, "
             "thread counts (bitwise)"),
    Sub("jit", check_config, strategy=lambda tier: strat_config(JIT), quick=96, thorough=3000, shards=8, isolate=True, floor=20,
        timeout_q=900, timeout_t=6000, setup=setup_jit, max_shrink_calls=40,
        rule="JIT forms: non-square component blocks (2,1) and (2,3), two spaces, parameter + updatable field (update vs fresh), "
             "functionals, nonsymmetric scalar"),
    Sub("ondemand", check_ondemand, strategy=lambda tier: strat_config(ONDEMAND, ondemand=True), quick=64, thorough=2000, shards=8,
        isolate=True, floor=10, timeout_q=900, timeout_t=6000, setup=setup_jit, max_shrink_calls=40,
        rule="on-demand assemblers with generated bounding boxes vs the full assembler"),
    Sub("wrapper_history", check_wrapper_history, strategy=lambda tier: strat_wrapper(), quick=240, thorough=6000, shards=8, isolate=True,
        floor=20, timeout_q=600, timeout_t=6000, setup=setup_wrapper, max_shrink_calls=60,
        rule="histories of update(f=..)/assemble(f=..)/assemble() on one assemble.Assembler object with re-used field objects; after "
             "every assemble the operator equals that of a freshly constructed assembler with the current fields; non-trivial: "
             ">= 2 assembles and an explicit update() before an assemble"),
]
SHARED_CACHE = True
KNOWN = {}

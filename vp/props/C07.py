"""C07 - geometry maps evaluate consistently on every route and constructions are exact."""
import math
import numpy as np
from hypothesis import strategies as st

from ..core import Sub, Violation, Skip
from ..gen import knots as gk
from ..gen import geo as gg
from ..ref import bspl as rb
from ..ref import geo as rg

LEVEL = "exploration"
RULE = ("generated B-spline/NURBS functions (sdim 1-3, scalar/vector/matrix values, mixed degrees, repeated knots, "
        "weights in [0.375,3]) x grids/scattered points (on knots, ends, adjacent floats) x operations with generated "
        "arguments; non-trivial: sdim != 2, or scattered route, or NURBS Hessian, or boundary of composed/restricted "
        "function, or operation with broadcasting; distinct by SHA-1 of the spec")
ASSUMPTIONS = ["reference evaluation: own Cox-de Boor + quotient rule (vp/ref/geo.py) applied to the spec or to the "
               "object's own kvs/coeffs arrays"]
EPS = np.finfo(float).eps


def _tol(scale, fac=512):
    return fac * EPS * (np.asarray(scale) + 1e-300)


def _scales(ref, pts=None, grid=None, order=0):
    """Rounding scale for value / first / second derivatives of the raw spline part."""
    d = ref.d
    kw = dict(pts_xyz=pts) if pts is not None else dict(grid=grid)
    s0 = ref.abs_scale(der=[0] * d, **kw)
    out = [s0]
    if order >= 1:
        s1 = sum(ref.abs_scale(der=[1 if a == ax else 0 for a in range(d)], **kw) for ax in range(d))
        out.append(s1)
    if order >= 2:
        s2 = 0
        for a in range(d):
            for b in range(a, d):
                der = [0] * d
                der[a] += 1
                der[b] += 1
                s2 = s2 + ref.abs_scale(der=der, **kw)
        out.append(s2)
    return out


def _nurbs_scale(ref, sc, order):
    """Conservative scale for NURBS results from the raw scales: powers of (|N|+|W|)/min W."""
    return sc


def _cmp(ctx, name, got, refv, scale, fac=512, mask=None):
    got = np.asarray(got, dtype=float)
    refv = np.asarray(refv, dtype=float)
    if got.shape != refv.shape:
        raise Violation(name, "shape %r != expected %r" % (got.shape, refv.shape))
    sc = np.asarray(scale, dtype=float)
    # broadcast scale (which has the shape of the raw values) to the result
    while sc.ndim < refv.ndim:
        sc = sc[..., None]
    tol = fac * EPS * (np.abs(refv) + sc + 1e-300)
    if sc.shape != refv.shape:
        try:
            tol = np.broadcast_to(tol, refv.shape)
        except ValueError:
            tol = fac * EPS * (np.abs(refv) + float(np.max(sc)) + 1e-300)
    if mask is not None:
        m = np.asarray(mask, dtype=bool)
        got, refv, tol = got[m], refv[m], tol[m]
    ctx.close(name, got, refv, rtol=0, atol=tol)


def _raw_scale_for(ref, pts=None, grid=None, order=0):
    """Rounding scales shaped like the value (without the NURBS weight component).  For NURBS the scales follow the
    quotient rule with absolute values: v = |N|/W, d1 = |N'|/W + v |W'|/W, d2 = |N''|/W + 2 d1 |W'|/W + v |W''|/W."""
    sc = _scales(ref, pts=pts, grid=grid, order=order)
    if not ref.nurbs:
        return sc
    W = np.maximum(sc[0][..., -1:], 1e-300)       # sum |basis| |w_i| = W itself (weights are positive)
    sN = [s[..., :-1] for s in sc]
    sW = [s[..., -1:] for s in sc]
    out = []
    v = sN[0] / W
    out.append(v)
    if order >= 1:
        d1 = sN[1] / W + v * sW[1] / W
        out.append(d1)
    if order >= 2:
        d2 = sN[2] / W + 2 * d1 * sW[1] / W + v * sW[2] / W
        out.append(d2)
    if ref.scalar_nurbs:
        out = [s[..., 0] for s in out]
    return out


def check_routes(spec, ctx):
    fs = spec["func"]
    f, ref = ctx.sut(gg.build_func, fs, what="constructor")
    d = ref.d
    vs = tuple(fs["vshape"])
    grid = [np.array(g, dtype=float) for g in spec["grid"]]
    pts = np.array(spec["points"], dtype=float).reshape(-1, d)
    minp = min(k["p"] for k in fs["kvs"])
    order = min(2, minp)
    if len(vs) > 1:
        order = min(order, 1)
    # ---- grid routes
    R = ref.on_grid(grid, order)
    S = _raw_scale_for(ref, grid=grid, order=order)
    got = ctx.sut(f.grid_eval, grid, what="grid_eval")
    _cmp(ctx, "grid_eval", got, R[0], S[0])
    if order >= 1:
        m1 = gg.deriv_continuous_mask_grid(fs, grid, 1)
        J = ctx.sut(f.grid_jacobian, grid, what="grid_jacobian")
        _cmp(ctx, "grid_jacobian", J, R[1], S[1][..., None], mask=m1)
    if order >= 2:
        m2 = gg.deriv_continuous_mask_grid(fs, grid, 2)
        H = ctx.sut(f.grid_hessian, grid, what="grid_hessian")
        _cmp(ctx, "grid_hessian", H, rg.hess_linearized(R[2], d), S[2][..., None], fac=2048, mask=m2)
        if fs["nurbs"]:
            ctx.flag("nurbs_hessian")
    # ---- scattered routes (points in xyz order)
    P = ref.at_points(pts, min(order, 1))
    SP = _raw_scale_for(ref, pts=pts, order=min(order, 1))
    coords = tuple(pts[:, j].copy() for j in range(d))
    pe = ctx.sut(f.pointwise_eval, coords, what="pointwise_eval")
    _cmp(ctx, "pointwise_eval", pe, P[0], SP[0])
    # 2-D shaped coordinate arrays
    if len(pts) >= 2 and len(pts) % 2 == 0:
        c2 = tuple(c.reshape(2, -1) for c in coords)
        pe2 = ctx.sut(f.pointwise_eval, c2, what="pointwise_eval(2d arrays)")
        _cmp(ctx, "pointwise_eval", pe2, P[0].reshape((2, -1) + P[0].shape[1:]), SP[0].reshape((2, -1) + SP[0].shape[1:]))
        # the same points in other memory layouts (Fortran order, transposed views): element [i,j] of the result belongs to
        # the point (X[i,j], Y[i,j], ..) whatever the strides of the coordinate arrays are
        if c2[0].shape[1] >= 2:
            cF = tuple(np.asfortranarray(c) for c in c2)
            peF = ctx.sut(f.pointwise_eval, cF, what="pointwise_eval(Fortran-ordered arrays)")
            _cmp(ctx, "pointwise_eval_layout", peF, P[0].reshape((2, -1) + P[0].shape[1:]), SP[0].reshape((2, -1) + SP[0].shape[1:]))
            cT = tuple(np.ascontiguousarray(c.T).T for c in c2)        # (2, m) views of C-ordered (m, 2) arrays
            if order >= 1:
                pjT = ctx.sut(f.pointwise_jacobian, cT, what="pointwise_jacobian(transposed views)")
                mpT = gg.deriv_continuous_mask_points(fs, pts, 1).reshape(2, -1)
                _cmp(ctx, "pointwise_jacobian_layout", pjT, P[1].reshape((2, -1) + P[1].shape[1:]),
                     SP[1].reshape((2, -1) + SP[1].shape[1:])[..., None], mask=mpT)
            ctx.flag("non_c_contiguous_points")
    if order >= 1:
        mp = gg.deriv_continuous_mask_points(fs, pts, 1)
        pj = ctx.sut(f.pointwise_jacobian, coords, what="pointwise_jacobian")
        _cmp(ctx, "pointwise_jacobian", pj, P[1], SP[1][..., None], mask=mp)
    # ---- single point calls f(x, y, z)
    for i in range(min(2, len(pts))):
        v = ctx.sut(f, *[float(c) for c in pts[i]], what="__call__")
        _cmp(ctx, "call_single", np.asarray(v), P[0][i], SP[0][i])
    # call with array arguments (tensor grid semantics of eval: XYZ -> ZYX)
    args = [grid[d - 1 - j] for j in range(d)]
    v = ctx.sut(f, *args, what="__call__(arrays)")
    _cmp(ctx, "call_arrays", v, R[0], S[0])
    # ---- NURBS = numerator / weight (definition, via the object's own arrays)
    if fs["nurbs"]:
        own = rg.from_pyiga(f)
        O = own.on_grid(grid, 0)
        _cmp(ctx, "nurbs_quotient", got, O[0], S[0])
    ctx.flag("sdim%d" % d, "nurbs" if fs["nurbs"] else "bspline", "vshape%d" % len(vs), "order%d" % order)
    ctx.nontrivial = True   # scattered route is always exercised


@st.composite
def strat_routes(draw):
    fs = draw(gg.splinefunc())
    grid = draw(gg.grid_for(fs))
    if draw(st.integers(0, 2)) == 0:
        # grid axes need not be ascending: any 1D vectors describe a tensor grid
        grid = [list(draw(st.permutations(g))) for g in grid]
    pts = draw(gg.points_for(fs, 2, 4))
    return {"func": fs, "grid": grid, "points": pts}


# ---------------------------------------------------------------------------------------------
# operations

def _snapshot(f):
    return [np.array(f.coeffs, copy=True)] + [np.array(kv.kv, copy=True) for kv in f.kvs]


def _same(a, b):
    return len(a) == len(b) and all(x.shape == y.shape and np.array_equal(x, y) for x, y in zip(a, b))


def _eval_result(ctx, g, pts_xyz, order=0, scalar_hint=False):
    """Evaluate an operation's result by the reference evaluator on the result's OWN arrays.
    A scalar NURBS function keeps its single component as an explicit axis in several operations
    (the same map, returned as a 1-vector-valued function); with scalar_hint that axis is dropped."""
    own = rg.from_pyiga(g)
    res = own.at_points(pts_xyz, order)
    if scalar_hint and own.nurbs and not own.scalar_nurbs and own.co.shape[-1] == 2:
        res = [res[0][..., 0]] + [r[..., 0, :] for r in res[1:2]] + [r[..., 0, :, :] for r in res[2:3]]
    return res, own


def check_ops(spec, ctx):
    from pyiga import geometry, bspline
    op = spec["op"]
    fs = spec["func"]
    f, ref = ctx.sut(gg.build_func, fs, what="constructor")
    d = ref.d
    snap = _snapshot(f)
    pts = np.array(spec["points"], dtype=float).reshape(-1, d)
    V = ref.at_points(pts, 0)[0]
    sc = _raw_scale_for(ref, pts=pts, order=0)[0]
    arg = spec.get("arg")
    ctx.flag(op, "nurbs" if fs["nurbs"] else "bspline", "sdim%d" % d)
    nontriv = d != 2

    hint = [bool(ref.scalar_nurbs) and op != "as_vector"]

    def res_vals(g, p=pts):
        (vals,), own = _eval_result(ctx, g, p, scalar_hint=hint[0])
        return vals

    if op == "translate":
        o = np.array(arg, dtype=float) if isinstance(arg, list) else float(arg)
        g = ctx.sut(f.translate, o, what="translate")
        _cmp(ctx, "translate", res_vals(g), V + o, sc + np.max(np.abs(o)))
        nontriv = nontriv or np.ndim(o) == 0 and V.ndim > 1
    elif op == "scale":
        o = np.array(arg, dtype=float) if isinstance(arg, list) else float(arg)
        g = ctx.sut(f.scale, o, what="scale")
        _cmp(ctx, "scale", res_vals(g), V * o, sc * np.max(np.abs(o)))
        nontriv = nontriv or np.ndim(o) == 1
    elif op == "rotate_2d":
        a = float(arg)
        g = ctx.sut(f.rotate_2d, a, what="rotate_2d")
        Rm = np.array([[math.cos(a), -math.sin(a)], [math.sin(a), math.cos(a)]])
        _cmp(ctx, "rotate_2d", res_vals(g), V @ Rm.T, sc.max(axis=-1, keepdims=True) * 2)
    elif op == "apply_matrix":
        A = np.array(arg, dtype=float)
        g = ctx.sut(f.apply_matrix, A, what="apply_matrix")
        _cmp(ctx, "apply_matrix", res_vals(g), V @ A.T, sc.max(axis=-1, keepdims=True) * np.abs(A).sum() + 0 * (V @ A.T))
        nontriv = nontriv or A.shape[0] != A.shape[1]
    elif op == "getitem":
        # component selection follows Python/numpy indexing of the component axis: negative ints, open-ended and stepped
        # slices, index lists with negative entries
        I = slice(*arg["slice"]) if isinstance(arg, dict) else arg
        g = ctx.sut(f.__getitem__, I, what="__getitem__")
        _cmp(ctx, "getitem", res_vals(g), V[..., I], sc[..., I])
        nontriv = nontriv or isinstance(I, slice) or (np.min(I) < 0)
    elif op == "as_nurbs":
        g = ctx.sut(f.as_nurbs, what="as_nurbs")
        ctx.require("as_nurbs", type(g).__name__ == "NurbsFunc", "not a NurbsFunc")
        _cmp(ctx, "as_nurbs", res_vals(g), V, sc)
        v2 = ctx.sut(g.pointwise_eval, tuple(pts[:, j].copy() for j in range(d)), what="pointwise_eval")
        _cmp(ctx, "as_nurbs_eval", v2, V, sc)
    elif op == "as_vector":
        g = ctx.sut(f.as_vector, what="as_vector")
        ctx.require("as_vector", g.is_vector(), "result not vector valued")
        _cmp(ctx, "as_vector", res_vals(g), V if V.ndim > 1 else V[..., None], sc if V.ndim > 1 else sc[..., None])
    elif op == "copy":
        g = ctx.sut(f.copy, what="copy")
        _cmp(ctx, "copy", res_vals(g), V, sc)
        ctx.require("copy_independent", not np.shares_memory(np.asarray(g.coeffs), np.asarray(f.coeffs))
                    and all(not np.shares_memory(a.kv, b.kv) for a, b in zip(g.kvs, f.kvs)), "copy shares memory")
        g.coeffs[...] = 7.0
    elif op == "boundary":
        axis, side = arg
        bd = (axis, side)
        names = {(d - 1, 0): "left", (d - 1, 1): "right", (d - 2, 0): "bottom", (d - 2, 1): "top",
                 (d - 3, 0): "front", (d - 3, 1): "back"}
        use = names[bd] if spec.get("byname") and bd in names else bd
        g = ctx.sut(f.boundary, use, what="boundary")
        ctx.require("boundary_sdim", g.sdim == d - 1, "sdim %r" % g.sdim)
        k = fs["kvs"][axis]
        fixed = k["breaks"][0] if side == 0 else k["breaks"][-1]
        # points on the face: drop xyz coordinate j = d-1-axis
        j = d - 1 - axis
        full = pts.copy()
        full[:, j] = fixed
        Vf = ref.at_points(full, 1)
        face = np.delete(full, j, axis=1)
        (gv, gj), own = _eval_result(ctx, g, face, 1, scalar_hint=hint[0])
        scf = _raw_scale_for(ref, pts=full, order=1)
        _cmp(ctx, "boundary_value", gv, Vf[0], scf[0])
        mk = gg.deriv_continuous_mask_points(fs, full, 1)
        _cmp(ctx, "boundary_jacobian", gj, np.delete(Vf[1], j, axis=-1), scf[1][..., None], mask=mk)
        # pyiga evaluation of the boundary function on a grid
        gridf = [np.unique(face[:, (d - 1) - 1 - a]) for a in range(d - 1)]
        pv = np.asarray(ctx.sut(g.grid_eval, gridf, what="boundary.grid_eval"))
        if hint[0] and pv.ndim == d and pv.shape[-1] == 1:
            pv = pv[..., 0]
        fullgrid = list(gridf)
        fullgrid.insert(axis, np.array([fixed]))
        Rg = ref.on_grid(fullgrid, 0)[0]
        _cmp(ctx, "boundary_grid_eval", pv, np.squeeze(Rg, axis=axis), np.squeeze(_raw_scale_for(ref, grid=fullgrid)[0], axis=axis))
        nontriv = True
    elif op == "restrict_support":
        # reduced support: boundary() must then be the restriction to the face of the *reduced* box
        supp = []
        for ax, k in enumerate(fs["kvs"]):
            lo, hi = k["breaks"][0], k["breaks"][-1]
            a, b = arg[ax]
            supp.append((lo + a * (hi - lo), lo + b * (hi - lo)))
        f.support = tuple(supp)
        ctx.equal("support", tuple(tuple(s) for s in f.support), tuple(supp), "support override")
        axis, side = spec["bd"]
        g = ctx.sut(f.boundary, (axis, side), what="boundary(reduced support)")
        j = d - 1 - axis
        fixed = supp[axis][side]
        full = pts.copy()
        for jj in range(d):
            lo, hi = supp[d - 1 - jj]
            full[:, jj] = np.clip(full[:, jj], lo, hi)
        full[:, j] = fixed
        Vf = ref.at_points(full, 0)[0]
        face = np.delete(full, j, axis=1)
        for i in range(min(3, len(face))):
            v = ctx.sut(g, *[float(c) for c in face[i]], what="boundary(reduced).__call__")
            _cmp(ctx, "reduced_boundary_value", np.asarray(v), Vf[i], _raw_scale_for(ref, pts=full)[0][i])
        if d >= 2:
            gridf = [np.unique(face[:, (d - 1) - 1 - a]) for a in range(d - 1)]
            pv = ctx.sut(g.grid_eval, gridf, what="boundary(reduced).grid_eval")
            fullgrid = list(gridf)
            fullgrid.insert(axis, np.array([fixed]))
            _cmp(ctx, "reduced_boundary_grid", pv, np.squeeze(ref.on_grid(fullgrid, 0)[0], axis=axis),
                 np.squeeze(_raw_scale_for(ref, grid=fullgrid)[0], axis=axis))
        snap = _snapshot(f)
        nontriv = True
    elif op in ("tensor_product", "outer_sum", "outer_product", "cylinderize"):
        fs2 = spec["func2"]
        pts2 = np.array(spec["points2"], dtype=float)
        if op == "cylinderize":
            z0, z1 = arg["z0"], arg["z1"]
            sup = tuple(arg["support"])
            g = ctx.sut(f.cylinderize, z0, z1, support=sup, what="cylinderize")
            # result(x.., z) = (G(x..), z0 + (z - s0)/(s1-s0) * (z1-z0)), new axis is the FIRST tensor axis
            zs = np.array([sup[0] + t * (sup[1] - sup[0]) for t in arg["t"]][:len(pts)])
            zs = np.resize(zs, len(pts))
            full = np.concatenate([pts, zs[:, None]], axis=1)
            Vv = V if V.ndim > 1 else V[:, None]
            zval = z0 + (zs - sup[0]) / (sup[1] - sup[0]) * (z1 - z0)
            expect = np.concatenate([Vv, zval[:, None]], axis=1)
            scx = np.concatenate([sc if V.ndim > 1 else sc[:, None], np.full((len(pts), 1), abs(z0) + abs(z1))], axis=1)
            _cmp(ctx, "cylinderize", res_vals(g, full), expect, scx)
            nontriv = True
        else:
            f2, ref2 = ctx.sut(gg.build_func, fs2, what="constructor")
            # scalar (+) scalar where one operand is a scalar NURBS: result may carry a singleton axis
            hint[0] = (not fs["vshape"]) and (not fs2["vshape"]) and (fs["nurbs"] or fs2["nurbs"]) and op != "tensor_product"
            snap2 = _snapshot(f2)
            d2 = ref2.d
            pts2 = pts2.reshape(-1, d2)
            m = min(len(pts), len(pts2))
            pa, pb = pts[:m], pts2[:m]
            Va = ref.at_points(pa, 0)[0]
            Vb = ref2.at_points(pb, 0)[0]
            sa = _raw_scale_for(ref, pts=pa)[0]
            sb = _raw_scale_for(ref2, pts=pb)[0]
            fn = getattr(geometry, op)
            # G(x, y) with G1 = f (depends on y: the LAST coordinates), G2 = f2 (depends on x: the first)
            g = ctx.sut(fn, f, f2, what=op)
            ctx.require(op, g.sdim == d + d2, "sdim of result")
            full = np.concatenate([pb, pa], axis=1)     # xyz order: G2's coordinates first
            got = res_vals(g, full)
            if op == "tensor_product":
                A = Va if Va.ndim > 1 else Va[:, None]
                B = Vb if Vb.ndim > 1 else Vb[:, None]
                expect = np.concatenate([B, A], axis=1)
                scx = np.concatenate([sb if Vb.ndim > 1 else sb[:, None], sa if Va.ndim > 1 else sa[:, None]], axis=1)
            elif op == "outer_sum":
                A, B = _bc(Va, Vb)
                expect = A + B
                scx = _bc(sa, sb)[0] + _bc(sa, sb)[1]
            else:
                A, B = _bc(Va, Vb)
                expect = A * B
                s1, s2 = _bc(sa, sb)
                scx = s1 * s2 + np.abs(expect)
                scx = scx * 4
            _cmp(ctx, op, got, expect, scx, fac=2048)
            ctx.require("nonmutating", _same(snap2, _snapshot(f2)), "%s modified its second operand" % op)
            isn = fs["nurbs"] or fs2["nurbs"]
            ctx.require(op + "_type", (type(g).__name__ == "NurbsFunc") == isn, "result type %s" % type(g).__name__)
            nontriv = nontriv or (Va.ndim != Vb.ndim) or fs["nurbs"] != fs2["nurbs"]
            if Va.ndim != Vb.ndim:
                ctx.flag("broadcast")
    else:
        raise Skip("unknown op")
    ctx.require("nonmutating", _same(snap, _snapshot(f)), "%s modified its operand" % op)
    ctx.nontrivial = bool(nontriv)


def _bc(a, b):
    a = np.asarray(a)
    b = np.asarray(b)
    if a.ndim < b.ndim:
        a = a[..., None]
    if b.ndim < a.ndim:
        b = b[..., None]
    return np.broadcast_arrays(a, b)


@st.composite
def strat_ops(draw):
    op = draw(st.sampled_from(["translate", "scale", "rotate_2d", "apply_matrix", "getitem", "as_nurbs", "as_vector",
                               "copy", "boundary", "boundary", "restrict_support", "tensor_product", "tensor_product",
                               "outer_sum", "outer_product", "cylinderize"]))
    spec = {"op": op}
    vec_only = op in ("rotate_2d", "apply_matrix", "getitem")
    if op == "rotate_2d":
        fs = draw(gg.splinefunc(vshapes=((2,),)))
    elif op == "apply_matrix":
        fs = draw(gg.splinefunc(vshapes=((2,), (3,))))
    elif op == "getitem":
        fs = draw(gg.splinefunc(vshapes=((2,), (3,))))
    elif op == "as_nurbs":
        fs = draw(gg.splinefunc(vshapes=((), (2,), (3,))))
    elif op == "as_vector":
        fs = draw(gg.splinefunc(vshapes=((), (2,))))
    elif op in ("boundary", "restrict_support"):
        fs = draw(gg.splinefunc(sdim=draw(st.integers(2, 3)), vshapes=((), (2,), (3,))))
    elif op in ("tensor_product", "outer_sum", "outer_product", "cylinderize"):
        fs = draw(gg.splinefunc(sdim=draw(st.integers(1, 2)), vshapes=((), (2,)) if op != "cylinderize" else ((), (2,), (1,)),
                                nmax=2, nurbs=False if op == "cylinderize" else None))   # cylinderize: BSplineFunc only
    else:
        fs = draw(gg.splinefunc(vshapes=((), (2,), (3,))))
    spec["func"] = fs
    spec["points"] = draw(gg.points_for(fs, 2, 4))
    vs = fs["vshape"]
    q = st.integers(-12, 12).map(lambda i: i / 4.0)
    if op == "translate":
        spec["arg"] = draw(q) if (not vs or draw(st.booleans())) else [draw(q) for _ in range(vs[0])]
    elif op == "scale":
        spec["arg"] = draw(q) if (not vs or draw(st.booleans())) else [draw(q) for _ in range(vs[0])]
    elif op == "rotate_2d":
        spec["arg"] = draw(st.integers(-16, 16)) * math.pi / 8 + draw(st.sampled_from([0.0, 0.1]))
    elif op == "apply_matrix":
        rows = draw(st.integers(1, 3))
        spec["arg"] = [[draw(q) for _ in range(vs[0])] for _ in range(rows)]
    elif op == "getitem":
        n = vs[0]
        sl = st.sampled_from([[None, None, None], [1, None, None], [None, -1, None], [-2, None, None], [None, None, -1],
                              [None, None, 2], [0, n, None], [0, 1, None], [-1, None, None], [n - 1, None, -1]])
        spec["arg"] = draw(st.one_of(st.integers(-n, n - 1), st.lists(st.integers(-n, n - 1), min_size=1, max_size=3),
                                     sl.map(lambda t: {"slice": t})))
    elif op == "boundary":
        spec["arg"] = [draw(st.integers(0, len(fs["kvs"]) - 1)), draw(st.integers(0, 1))]
        spec["byname"] = draw(st.booleans())
    elif op == "restrict_support":
        spec["arg"] = [sorted([draw(st.integers(0, 3)) / 8.0, draw(st.integers(5, 8)) / 8.0]) for _ in fs["kvs"]]
        spec["bd"] = [draw(st.integers(0, len(fs["kvs"]) - 1)), draw(st.integers(0, 1))]
    elif op == "cylinderize":
        spec["arg"] = {"z0": draw(q), "z1": draw(q), "support": draw(st.sampled_from([[0.0, 1.0], [1.0, 3.0], [-0.5, 0.25]])),
                       "t": [draw(st.integers(0, 8)) / 8.0 for _ in range(4)]}
        spec["func2"] = None
        spec["points2"] = []
    if op in ("tensor_product", "outer_sum", "outer_product"):
        if op == "tensor_product":
            vsh = ((), (2,), (1,))
        else:
            vsh = ((), tuple(vs)) if vs else ((), (2,))
        nb = None
        fs2 = draw(gg.splinefunc(sdim=draw(st.integers(1, 3 - len(fs["kvs"]))), vshapes=vsh, nmax=2, nurbs=nb))
        spec["func2"] = fs2
        spec["points2"] = draw(gg.points_for(fs2, 2, 4))
    return spec


# ---------------------------------------------------------------------------------------------
# UserFunction / ComposedFunction / _BoundaryFunction

def _poly_user(coefs, d, dim):
    """Vector polynomial f_k(x..) = c0 + sum_j c_j x_j + c_{jj} x_j^2 + cross x_0 x_1 ; returns (f, jac)."""
    c = np.array(coefs, dtype=float).reshape(dim, -1)

    def f(*x):
        x = [np.asarray(t, dtype=float) for t in x]
        comps = []
        for k in range(dim):
            v = c[k, 0] + 0 * sum(x)
            for j in range(d):
                v = v + c[k, 1 + j] * x[j] + c[k, 1 + d + j] * x[j] ** 2
            if d >= 2:
                v = v + c[k, 1 + 2 * d] * x[0] * x[1]
            comps.append(v)
        if dim == 1 and False:
            return comps[0]
        return np.stack(np.broadcast_arrays(*comps), axis=-1)

    def jac(*x):
        x = [np.asarray(t, dtype=float) for t in x]
        rows = []
        for k in range(dim):
            cols = []
            for j in range(d):
                v = c[k, 1 + j] + 2 * c[k, 1 + d + j] * x[j] + 0 * sum(x)
                if d >= 2 and j == 0:
                    v = v + c[k, 1 + 2 * d] * x[1]
                if d >= 2 and j == 1:
                    v = v + c[k, 1 + 2 * d] * x[0]
                cols.append(v)
            rows.append(np.stack(np.broadcast_arrays(*cols), axis=-1))
        return np.stack(rows, axis=-2)
    return f, jac


def check_composed(spec, ctx):
    from pyiga import geometry
    fs = spec["func"]          # inner map geo1: sdim d -> dim d (vector valued, vshape [d])
    f1, ref1 = ctx.sut(gg.build_func, fs, what="constructor")
    d = ref1.d
    dim1 = fs["vshape"][0]
    kind = spec["outer"]["kind"]
    grid = [np.array(g, dtype=float) for g in spec["grid"]]
    R1 = ref1.on_grid(grid, 1 if min(k["p"] for k in fs["kvs"]) >= 1 else 0)
    XY = R1[0]                     # (grid, dim1) physical points
    flat = XY.reshape(-1, dim1)
    if kind == "user":
        dim2 = spec["outer"]["dim"]
        fu, ju = _poly_user(spec["outer"]["coefs"], dim1, dim2)
        supp = tuple((-100.0, 100.0) for _ in range(dim1))
        f2 = ctx.sut(geometry.UserFunction, fu, supp, jac=ju, what="UserFunction")
        ctx.require("user_dim", f2.sdim == dim1 and f2.dim == dim2, "UserFunction dims %r %r" % (f2.sdim, f2.dim))
        V2 = fu(*[flat[:, j] for j in range(dim1)])
        J2 = ju(*[flat[:, j] for j in range(dim1)])
        # UserFunction routes: grid_eval on a small tensor grid in its own coordinates
        ug = [np.array([0.0, 0.5, 1.5])[:2 + (a % 2)] for a in range(dim1)]
        mesh = np.meshgrid(*ug, indexing="ij")
        mesh_xyz = list(reversed(mesh))
        expect = fu(*mesh_xyz)
        gotu = ctx.sut(f2.grid_eval, ug, what="UserFunction.grid_eval")
        _cmp(ctx, "user_grid_eval", gotu, expect, np.abs(expect) + 1)
        gj = ctx.sut(f2.grid_jacobian, ug, what="UserFunction.grid_jacobian")
        _cmp(ctx, "user_grid_jacobian", gj, ju(*mesh_xyz), np.abs(ju(*mesh_xyz)) + 1)
        v = ctx.sut(f2, *[0.25] * dim1, what="UserFunction.__call__")
        _cmp(ctx, "user_call", v, fu(*[0.25] * dim1), np.abs(fu(*[0.25] * dim1)) + 1)
        sc2 = np.abs(V2) + 10
    else:
        fs2 = spec["outer"]["func"]
        f2, ref2 = ctx.sut(gg.build_func, fs2, what="constructor")
        dim2 = None
        # chain rule only where the outer function is C^1 (inner values are only known up to rounding,
        # so a derivative jump of the outer function at a knot would make the comparison ill-posed)
        o2 = 1 if all(k["p"] >= 2 and all(m <= k["p"] - 1 for m in k["mults"]) for k in fs2["kvs"]) else 0
        P2 = ref2.at_points(flat, o2)
        V2 = P2[0]
        J2 = P2[1] if o2 else None
        sc2 = _raw_scale_for(ref2, pts=flat)[0] + 1
        fu = lambda *x: ref2.at_points(np.stack([np.asarray(t, dtype=float).ravel() for t in x], axis=-1), 0)[0]
        if V2.ndim == 1:
            pass
    comp = ctx.sut(geometry.ComposedFunction, f2, f1, what="ComposedFunction")
    got = ctx.sut(comp.grid_eval, grid, what="Composed.grid_eval")
    _cmp(ctx, "composed_grid_eval", got, V2.reshape(XY.shape[:-1] + V2.shape[1:]), sc2.reshape(XY.shape[:-1] + V2.shape[1:]), fac=4096)
    if len(R1) > 1 and J2 is not None:
        m1 = gg.deriv_continuous_mask_grid(fs, grid, 1)
        J1 = R1[1]
        J2r = J2.reshape(XY.shape[:-1] + J2.shape[1:])
        if J2r.ndim == J1.ndim - 1:     # scalar outer function: gradient row vector
            Jc = np.einsum("...j,...jk->...k", J2r, J1)
        else:
            Jc = np.matmul(J2r, J1)
        gotj = ctx.sut(comp.grid_jacobian, grid, what="Composed.grid_jacobian")
        S1 = _raw_scale_for(ref1, grid=grid, order=1)[1]
        S1 = S1.max(axis=-1) if S1.ndim > len(grid) else S1        # rounding scale of the inner Jacobian
        scj = (np.max(np.abs(J2)) + 1) * S1
        scj = scj.reshape(scj.shape + (1,) * (Jc.ndim - scj.ndim))
        _cmp(ctx, "composed_grid_jacobian", gotj, Jc, np.abs(Jc) + scj, fac=1 << 14, mask=m1)
    # single point call
    x0 = [float(grid[d - 1 - j][0]) for j in range(d)]
    v = ctx.sut(comp, *x0, what="Composed.__call__")
    idx = tuple([0] * d)
    _cmp(ctx, "composed_call", np.asarray(v), V2.reshape(XY.shape[:-1] + V2.shape[1:])[idx], sc2.reshape(XY.shape[:-1] + V2.shape[1:])[idx], fac=4096)
    # boundary of the composed function = composition with the boundary of the inner map
    if d >= 2 and kind == "user":
        axis, side = spec["bd"]
        cb = ctx.sut(comp.boundary, (axis, side), what="Composed.boundary")
        k = fs["kvs"][axis]
        fixed = k["breaks"][0] if side == 0 else k["breaks"][-1]
        gridf = [g for a, g in enumerate(grid) if a != axis]
        fullgrid = list(grid)
        fullgrid[axis] = np.array([fixed])
        XYb = ref1.on_grid(fullgrid, 0)[0]
        fb = XYb.reshape(-1, dim1)
        Vb = fu(*[fb[:, j] for j in range(dim1)]).reshape(XYb.shape[:-1] + (dim2,))
        gotb = ctx.sut(cb.grid_eval, gridf, what="Composed.boundary.grid_eval")
        _cmp(ctx, "composed_boundary", gotb, np.squeeze(Vb, axis=axis), np.abs(np.squeeze(Vb, axis=axis)) + 10, fac=4096)
        ctx.flag("composed_boundary")
    # generic _BoundaryFunction of a UserFunction (sdim >= 2)
    if dim1 >= 2 and kind == "user":
        axis2, side2 = spec["bd2"]
        axis2 = axis2 % dim1
        supp2 = tuple((0.0, 2.0) if a % 2 == 0 else (-1.0, 1.0) for a in range(dim1))
        fU = geometry.UserFunction(fu, supp2, jac=ju)
        bU = ctx.sut(fU.boundary, (axis2, side2), what="UserFunction.boundary")
        fixed = supp2[axis2][side2]
        gridb = [np.array([supp2[a][0], 0.5 * (supp2[a][0] + supp2[a][1])]) for a in range(dim1) if a != axis2]
        fullg = list(gridb)
        fullg.insert(axis2, np.array([fixed]))
        mesh = list(reversed(np.meshgrid(*fullg, indexing="ij")))
        expect = np.squeeze(fu(*mesh), axis=axis2)
        gotU = ctx.sut(bU.grid_eval, gridb, what="_BoundaryFunction.grid_eval")
        _cmp(ctx, "boundaryfunction_grid_eval", gotU, expect, np.abs(expect) + 10)
        Jf = np.squeeze(ju(*mesh), axis=axis2)
        col = dim1 - 1 - axis2
        gotJ = ctx.sut(bU.grid_jacobian, gridb, what="_BoundaryFunction.grid_jacobian")
        _cmp(ctx, "boundaryfunction_grid_jacobian", gotJ, np.delete(Jf, col, axis=-1), np.abs(np.delete(Jf, col, axis=-1)) + 10)
        gotJn = ctx.sut(bU.grid_jacobian, gridb, keep_normal=True, what="_BoundaryFunction.grid_jacobian(keep_normal)")
        _cmp(ctx, "boundaryfunction_grid_jacobian", gotJn, Jf, np.abs(Jf) + 10)
        xs = [float(g[0]) for g in reversed(gridb)]
        vv = ctx.sut(bU, *xs, what="_BoundaryFunction.__call__")
        _cmp(ctx, "boundaryfunction_call", np.asarray(vv), expect[tuple([0] * (dim1 - 1))], np.abs(expect[tuple([0] * (dim1 - 1))]) + 10)
        ctx.flag("boundary_of_userfunction")
    ctx.flag("sdim%d" % d, "nurbs" if fs["nurbs"] else "bspline")
    ctx.nontrivial = True


@st.composite
def strat_composed(draw):
    d = draw(st.integers(1, 3))
    fs = draw(gg.splinefunc(sdim=d, vshapes=((d,),), pmin=1))
    grid = draw(gg.grid_for(fs, 1, 3))
    dim2 = draw(st.integers(1, 3))
    ncoef = 2 + 2 * d
    coefs = [draw(st.integers(-8, 8)) / 4.0 for _ in range(dim2 * ncoef)]
    if draw(st.booleans()):
        fs["unit"] = True
        fs2 = draw(gg.splinefunc(sdim=d, vshapes=((), (2,), (3,)), interval="unit", nmax=2, pmin=1))   # continuous outer
        return {"func": fs, "grid": grid, "outer": {"kind": "spline", "func": fs2}, "bd": [0, 0], "bd2": [0, 0]}
    return {"func": fs, "grid": grid, "outer": {"kind": "user", "dim": dim2, "coefs": coefs},
            "bd": [draw(st.integers(0, d - 1)), draw(st.integers(0, 1))],
            "bd2": [draw(st.integers(0, 2)), draw(st.integers(0, 1))]}


# ---------------------------------------------------------------------------------------------
# named constructors: arcs, circles, disks, annuli, segments, cubes

def check_named(spec, ctx):
    from pyiga import geometry
    kind = spec["kind"]
    ts = np.array(spec["t"], dtype=float)
    ctx.flag(kind)
    if kind in ("circular_arc", "circular_arc_3pt", "circular_arc_5pt", "circular_arc_7pt", "semicircle", "circle"):
        r = spec["r"]
        alpha = spec["alpha"]
        if kind == "semicircle":
            g = ctx.sut(geometry.semicircle, r, what=kind)
            alpha = math.pi
        elif kind == "circle":
            g = ctx.sut(geometry.circle, r, what=kind)
            alpha = 2 * math.pi
        else:
            g = ctx.sut(getattr(geometry, kind), alpha, r, what=kind)
        ctx.require("arc_dims", g.sdim == 1 and g.dim == 2, "sdim/dim")
        own = rg.from_pyiga(g)
        lo, hi = g.support[0]
        x = lo + ts * (hi - lo)
        V = own.at_points(x[:, None], 0)[0]
        rad = np.sqrt(np.sum(V ** 2, axis=-1))
        ctx.close("arc_radius", rad, np.full_like(rad, r), rtol=0, atol=16 * EPS * r)
        gv = np.asarray(ctx.sut(g.grid_eval, [x], what="grid_eval"))
        ctx.close("arc_eval", gv, V, rtol=0, atol=64 * EPS * r)
        P0 = own.at_points(np.array([[lo]]), 0)[0][0]
        P1 = own.at_points(np.array([[hi]]), 0)[0][0]
        ctx.close("arc_start", P0, [r, 0.0], rtol=0, atol=8 * EPS * r)
        ctx.close("arc_end", P1, [r * math.cos(alpha), r * math.sin(alpha)], rtol=0, atol=16 * EPS * r)
        # counterclockwise and monotone in angle: total angle swept equals alpha
        xx = np.linspace(lo, hi, 65)
        VV = own.at_points(xx[:, None], 0)[0]
        ang = np.unwrap(np.arctan2(VV[:, 1], VV[:, 0]))
        ctx.require("arc_ccw", np.all(np.diff(ang) > 0), "arc does not travel counterclockwise monotonically")
        ctx.close("arc_angle", ang[-1] - ang[0], alpha, rtol=0, atol=1e-12)
    elif kind in ("quarter_annulus", "bspline_quarter_annulus"):
        r1, r2 = spec["r1"], spec["r2"]
        g = ctx.sut(getattr(geometry, kind), r1, r2, what=kind)
        own = rg.from_pyiga(g)
        # documented: 'bottom' and 'top' boundaries lie on the x and y axis
        for t in ts:
            pb = own.at_points(np.array([[t, 0.0]]), 0)[0][0]
            pt = own.at_points(np.array([[t, 1.0]]), 0)[0][0]
            ctx.close("annulus_bottom_on_x_axis", pb[1], 0.0, rtol=0, atol=8 * EPS * r2)
            ctx.close("annulus_top_on_y_axis", pt[0], 0.0, rtol=0, atol=8 * EPS * r2)
            ctx.close("annulus_radial", [pb[0], pt[1]], [r1 + t * (r2 - r1)] * 2, rtol=0, atol=16 * EPS * r2)
            if kind == "quarter_annulus":
                for s in ts:
                    q = own.at_points(np.array([[t, s]]), 0)[0][0]
                    ctx.close("annulus_on_circle", math.hypot(q[0], q[1]), r1 + t * (r2 - r1), rtol=0, atol=16 * EPS * r2)
            # both end arcs start/end on the axes for the B-spline approximation too
        for (bd, rr) in (("left", r1), ("right", r2)):
            b = ctx.sut(g.boundary, bd, what="boundary")
            ob = rg.from_pyiga(b)
            Vb = ob.at_points(ts[:, None], 0)[0]
            if kind == "quarter_annulus":
                ctx.close("annulus_boundary_circle", np.sqrt(np.sum(Vb ** 2, -1)), np.full(len(ts), rr), rtol=0, atol=16 * EPS * r2)
    elif kind == "disk":
        r = spec["r"]
        g = ctx.sut(geometry.disk, r, what="disk")
        own = rg.from_pyiga(g)
        for bd in ("left", "right", "bottom", "top"):
            b = ctx.sut(g.boundary, bd, what="boundary")
            ob = rg.from_pyiga(b)
            Vb = ob.at_points(ts[:, None], 0)[0]
            ctx.close("disk_boundary_circle", np.sqrt(np.sum(Vb ** 2, -1)), np.full(len(ts), r), rtol=0, atol=32 * EPS * r)
        # interior points lie inside the disk, centre maps to the origin
        c = own.at_points(np.array([[0.5, 0.5]]), 0)[0][0]
        ctx.close("disk_centre", c, [0.0, 0.0], rtol=0, atol=16 * EPS * r)
        T = np.array([[a, b] for a in ts for b in ts])
        Vi = own.at_points(T, 0)[0]
        ctx.require("disk_inside", np.all(np.sqrt(np.sum(Vi ** 2, -1)) <= r * (1 + 1e-12)), "interior point outside the disk")
    elif kind == "line_segment":
        x0, x1 = spec["x0"], spec["x1"]
        sup = spec["support"]
        n = spec["intervals"]
        g = ctx.sut(geometry.line_segment, x0 if len(x0) > 1 else x0[0], x1 if len(x1) > 1 else x1[0],
                    support=tuple(sup), intervals=n, what="line_segment")
        own = rg.from_pyiga(g)
        x = sup[0] + ts * (sup[1] - sup[0])
        V = own.at_points(x[:, None], 0)[0]
        expect = np.array([[a + t * (b - a) for a, b in zip(x0, x1)] for t in ts])
        ctx.close("line_segment", V.reshape(expect.shape), expect, rtol=0, atol=16 * EPS * (np.max(np.abs(expect)) + 1))
        ctx.equal("line_segment_support", tuple(float(v) for v in g.support[0]), (float(sup[0]), float(sup[1])), "support")
        ctx.equal("line_segment_spans", int(g.kvs[0].numspans), n, "intervals")
    elif kind in ("unit_cube", "identity"):
        dim = spec["dim"]
        if kind == "unit_cube":
            g = ctx.sut(geometry.unit_cube, dim, spec["intervals"], what="unit_cube")
            ext = [(0.0, 1.0)] * dim
            ctx.require("unit_cube_spans", all(int(kv.numspans) == spec["intervals"] for kv in g.kvs), "num_intervals")
        else:
            ext = [tuple(e) for e in spec["extents"]]
            g = ctx.sut(geometry.identity, ext, what="identity")
        own = rg.from_pyiga(g)
        ctx.require("identity_dims", g.sdim == dim and g.dim == dim, "dims")
        # points in xyz order; extents given in tensor-axis (zyx) order
        T = np.array([[ext[dim - 1 - j][0] + ts[(i + j) % len(ts)] * (ext[dim - 1 - j][1] - ext[dim - 1 - j][0])
                       for j in range(dim)] for i in range(len(ts))])
        V = own.at_points(T, 1)
        ctx.close("identity_value", V[0], T, rtol=0, atol=16 * EPS * (np.max(np.abs(T)) + 1))
        ctx.close("identity_jacobian", V[1], np.broadcast_to(np.eye(dim), V[1].shape), rtol=0, atol=1e-12)
        pv = ctx.sut(g.pointwise_eval, tuple(T[:, j].copy() for j in range(dim)), what="pointwise_eval")
        ctx.close("identity_pointwise", pv, T, rtol=0, atol=16 * EPS * (np.max(np.abs(T)) + 1))
    ctx.nontrivial = True


@st.composite
def strat_named(draw):
    kind = draw(st.sampled_from(["circular_arc", "circular_arc", "circular_arc_3pt", "circular_arc_5pt", "circular_arc_7pt",
                                 "semicircle", "circle", "quarter_annulus", "bspline_quarter_annulus", "disk",
                                 "line_segment", "unit_cube", "identity"]))
    ts = sorted(set([0.0, 1.0] + [draw(st.integers(0, 64)) / 64.0 for _ in range(4)]))
    spec = {"kind": kind, "t": ts}
    r = draw(st.sampled_from([1.0, 0.5, 2.0, 3.75, 1e-3, 1e3, 0.1]))
    spec["r"] = r
    if kind == "circular_arc":
        spec["alpha"] = draw(st.one_of(st.integers(1, 128).map(lambda i: i * 2 * math.pi / 128),
                                       st.sampled_from([math.pi, 2 * math.pi, math.pi / 2, 1e-3, 3.0])))
    elif kind == "circular_arc_3pt":
        spec["alpha"] = draw(st.integers(1, 63)) * math.pi / 64
    elif kind == "circular_arc_5pt":
        spec["alpha"] = draw(st.integers(1, 127)) * 2 * math.pi / 128 * 0.999
    elif kind == "circular_arc_7pt":
        spec["alpha"] = draw(st.integers(1, 128)) * 2 * math.pi / 128
    else:
        spec["alpha"] = 0.0
    spec["r1"] = draw(st.sampled_from([1.0, 0.5, 0.0625, 2.0]))
    spec["r2"] = spec["r1"] + draw(st.sampled_from([1.0, 0.25, 3.0]))
    dim = draw(st.integers(1, 3))
    spec["dim"] = dim
    spec["intervals"] = draw(st.integers(1, 4))
    q = st.integers(-8, 8).map(lambda i: i / 4.0)
    vd = draw(st.integers(1, 3))
    spec["x0"] = [draw(q) for _ in range(vd)]
    spec["x1"] = [draw(q) for _ in range(vd)]
    a = draw(q)
    spec["support"] = [a, a + draw(st.sampled_from([1.0, 0.5, 2.0]))]
    spec["extents"] = []
    for _ in range(dim):
        lo = draw(q)
        spec["extents"].append([lo, lo + draw(st.sampled_from([1.0, 0.5, 3.0]))])
    return spec


SUBCHECKS = [
    Sub("routes", check_routes, strategy=lambda tier: strat_routes(), quick=1200, thorough=25000, floor=50,
        rule="grid_eval/jacobian/hessian, pointwise_eval/jacobian (xyz order), f(x,y,z) scalar and array calls vs reference"),
    Sub("operations", check_ops, strategy=lambda tier: strat_ops(), quick=1500, thorough=30000, floor=50,
        rule="translate/scale/rotate/apply_matrix/getitem/as_nurbs/as_vector/copy/boundary/reduced support/tensor_product/"
             "outer_sum/outer_product/cylinderize: documented formula on reference values; operands bit-identical afterwards"),
    Sub("composed", check_composed, strategy=lambda tier: strat_composed(), quick=500, thorough=8000, floor=30,
        rule="UserFunction, ComposedFunction (values, chain-rule Jacobians, boundary), _BoundaryFunction"),
    Sub("named", check_named, strategy=lambda tier: strat_named(), quick=500, thorough=8000, floor=30,
        rule="circular arcs/circle/semicircle/disk/annuli on exact circles, line_segment, unit_cube, identity"),
]
KNOWN = {}

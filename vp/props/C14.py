"""C14 - multipatch gluing is the equivalence closure of the joins, in any order."""
import itertools
import math

import numpy as np
from hypothesis import strategies as st

from ..core import Sub, Violation, Skip
from ..ref import bspl as rb
from ..ref import c14_glue as G

LEVEL = "exploration"
RULE = ("patch complexes (grids, rings around a vertex, random label-free patch sets, conforming decompositions "
        "of one spline patch) with generated join sequences; non-trivial: a dof shared by >= 3 patches whose "
        "joins are not in lexicographic (detect_interfaces) order, or a flipped interface, or 3D, or a repeated / "
        "missing join; distinct by SHA-1 of the case spec")
ASSUMPTIONS = ["numpy/scipy dense linear algebra", "reference B-spline evaluator vp/ref/bspl.py (Cox-de Boor)",
               "single-patch assembly of pyiga is the reference for the *decomposition* relation only "
               "(the property states a relation between two pyiga assemblies); all index oracles are own code"]


# =============================================================================================
# shared judge: index maps and transfer matrices against the union-find classes

def _kv(n):
    from pyiga import bspline
    return bspline.KnotVector(np.concatenate(([0.0], np.linspace(0.0, 1.0, n), [1.0])), 1)


def judge_gluing(ctx, MP, shapes, uf, dense_limit=4000):
    """Checks numdofs / patch_to_global_idx / patch_to_global / global_to_patch of a finalized Multipatch
    against the classes of `uf`.  Returns (list of index arrays, list of class-id arrays, nclasses)."""
    import scipy.sparse
    cls, ncls = G.class_ids(uf, shapes)
    nd = ctx.sut(lambda: MP.numdofs, what="numdofs")
    try:
        nd_int = int(nd)
    except Exception:
        raise Violation("numdofs_type", "numdofs is %r" % (nd,))
    if nd_int != ncls:
        raise Violation("numdofs_eq_classes", "numdofs = %d but the joins define %d classes" % (nd_int, ncls),
                        numdofs=nd_int, classes=ncls)
    idxs = []
    for p, shp in enumerate(shapes):
        n = int(np.prod(shp))
        I = np.asarray(ctx.sut(MP.patch_to_global_idx, p, what="patch_to_global_idx"))
        if I.shape != (n,) or I.dtype.kind not in "iu":
            raise Violation("idx_shape", "patch_to_global_idx(%d): shape %r dtype %s, expected (%d,) ints"
                            % (p, I.shape, I.dtype, n))
        if n and (I.min() < 0 or I.max() >= nd_int):
            raise Violation("idx_range", "patch_to_global_idx(%d) has values outside range(numdofs=%d): min %d max %d"
                            % (p, nd_int, I.min(), I.max()))
        idxs.append(I.astype(int))
    # same global index <=> same class
    c2i, i2c = {}, {}
    for p in range(len(shapes)):
        for j, (c, i) in enumerate(zip(cls[p].tolist(), idxs[p].tolist())):
            if c2i.setdefault(c, i) != i:
                raise Violation("connected_implies_equal", "local dofs of one class got different global indices "
                                "%d and %d (patch %d dof %d)" % (c2i[c], i, p, j))
            if i2c.setdefault(i, c) != c:
                raise Violation("equal_implies_connected", "global index %d is used by two unconnected classes "
                                "(patch %d dof %d)" % (i, p, j))
    if sorted(i2c) != list(range(nd_int)):
        raise Violation("gap_free", "global indices in use are not range(%d)" % nd_int)
    # transfer matrices
    Ntot = sum(int(np.prod(s)) for s in shapes)
    ofs = 0
    for p, shp in enumerate(shapes):
        n = int(np.prod(shp))
        X = ctx.sut(MP.patch_to_global, p, what="patch_to_global")
        if not scipy.sparse.issparse(X) or X.shape != (nd_int, n):
            raise Violation("p2g_shape", "patch_to_global(%d) has shape %r, expected %r"
                            % (p, getattr(X, "shape", None), (nd_int, n)))
        ref = scipy.sparse.coo_matrix((np.ones(n), (idxs[p], np.arange(n))), shape=(nd_int, n)).tocsr()
        Xc = X.tocsr().copy()
        Xc.sum_duplicates()
        Xc.eliminate_zeros()
        if (Xc != ref).nnz != 0:
            raise Violation("p2g_binary", "patch_to_global(%d) is not the 0/1 matrix with one entry (idx[j], j) per "
                            "local dof" % p)
        injective = len(set(idxs[p].tolist())) == n
        if injective:
            XtX = (X.T @ X).tocsr()
            if (XtX != scipy.sparse.identity(n, format="csr")).nnz != 0:
                raise Violation("p2g_left_inverse", "X^T X != I for patch %d" % p)
        else:
            ctx.flag("self_identified_patch")
        Gp = ctx.sut(MP.global_to_patch, p, what="global_to_patch")
        if Gp.shape != (n, nd_int) or (Gp.tocsr() != X.T.tocsr()).nnz != 0:
            raise Violation("g2p_transpose", "global_to_patch(%d) is not the transpose of patch_to_global" % p)
        if nd_int * Ntot <= dense_limit * 50:
            Xg = ctx.sut(MP.patch_to_global, p, j_global=True, what="patch_to_global(j_global)")
            refg = scipy.sparse.coo_matrix((np.ones(n), (idxs[p], ofs + np.arange(n))),
                                           shape=(nd_int, Ntot)).tocsr()
            if Xg.shape != (nd_int, Ntot) or (Xg.tocsr() != refg).nnz != 0:
                raise Violation("p2g_j_global", "patch_to_global(%d, j_global=True) wrong" % p)
        ofs += n
    return idxs, cls, ncls


# =============================================================================================
# 1. join orders on label complexes

def build_complex(cx):
    kind = cx["kind"]
    if kind == "grid":
        canon, _ = G.grid_labels(cx["sizes"])
    elif kind == "ring":
        canon = G.ring_labels(cx["m"])
    else:
        raise ValueError(kind)
    d = canon[0].ndim
    labels = []
    for L, (pi, fb) in zip(canon, cx["rep"]):
        perm = G.PERMS[d][(cx.get("gperm", 0) if d == 3 else pi) % len(G.PERMS[d])]
        labels.append(G.reparam(L, perm, fb))
    return labels


def _bd(face, d, named):
    return G.bd_name(d, face) if named else (int(face[0]), int(face[1]))


def run_joins(ctx, labels, ifaces, seq, style, stages=()):
    """Build Multipatch, apply the join sequence, return (MP, shapes, uf).
    `stages`: positions in the join sequence at which the structure is finalized and fully queried (judge_gluing against the
    identifications declared so far) before further joins are declared and it is finalized again.  Declaring joins after a
    finalize() may be refused with an exception (then the case is skipped); if it is accepted, the numbering after the next
    finalize() must be the closure of ALL joins declared on the object."""
    from pyiga import assemble
    shapes = [L.shape for L in labels]
    d = len(shapes[0])
    patches = [(tuple(_kv(n) for n in shp), None) for shp in shapes]
    MP = ctx.sut(assemble.Multipatch, patches, what="Multipatch")
    uf = G.UF()
    for p, shp in enumerate(shapes):
        for i in range(int(np.prod(shp))):
            uf.add((p, i))
    named = bool(style & 1)
    flipnone = bool(style & 2)
    staged = False
    refuse = ()
    for pos, (k, swap) in enumerate(seq):
        if pos in stages and pos > 0:
            ctx.sut(MP.finalize, what="finalize", accept=refuse)
            judge_gluing(ctx, MP, shapes, uf)
            staged = True
            refuse = (RuntimeError, ValueError, NotImplementedError)   # an explicit refusal of late joins is not a violation
            ctx.flag("joins_after_finalize")
        p1, f1, p2, f2, flip = ifaces[k % len(ifaces)]
        if swap:
            p1, f1, p2, f2 = p2, f2, p1, f1
        if flipnone and not any(flip):
            ctx.sut(MP.join_boundaries, p1, _bd(f1, d, named), p2, _bd(f2, d, named), what="join_boundaries", accept=refuse)
        else:
            ctx.sut(MP.join_boundaries, p1, _bd(f1, d, named), p2, _bd(f2, d, named), flip=tuple(flip),
                    what="join_boundaries", accept=refuse)
        for a, b in G.join_pairs(shapes[p1], f1, shapes[p2], f2, flip):
            uf.union((p1, a), (p2, b))
    ctx.sut(MP.finalize, what="finalize", accept=refuse)
    return MP, shapes, uf


def _detect_order(ifaces):
    """Order in which detect_interfaces would report the interfaces (pairs p1<p2 lexicographic)."""
    return sorted(range(len(ifaces)), key=lambda k: (ifaces[k][0], ifaces[k][2]))


def _classify_seq(ctx, labels, ifaces, seq):
    ks = [k % len(ifaces) for k, _ in seq]
    d = labels[0].ndim
    if d == 3:
        ctx.flag("3d")
    if any(any(ifaces[k][4]) for k in ks):
        ctx.flag("flipped_interface")
    if len(set(ks)) < len(ks):
        ctx.flag("repeated_join")
    if len(set(ks)) < len(ifaces):
        ctx.flag("missing_join")
    joined = set()
    for k in ks:
        joined.add(ifaces[k][0])
        joined.add(ifaces[k][2])
    if len(joined) < len(labels):
        ctx.flag("patch_without_join")
    if any(s for _, s in seq):
        ctx.flag("swapped_direction")
    cnt = {}
    for L in labels:
        for v in set(L.ravel().tolist()):
            cnt[v] = cnt.get(v, 0) + 1
    cross = max(cnt.values()) >= 3
    if cross:
        ctx.flag("cross_point")
    det = _detect_order(ifaces)
    not_detect_order = ks != det
    if cross and not_detect_order:
        ctx.flag("cross_point_nonstandard_order")
    # does the sequence join two already existing classes (the order-dependent situation)?
    seen = [set() for _ in labels]
    merging = False
    uf = G.UF()
    for k in ks:
        p1, f1, p2, f2, flip = ifaces[k]
        for a, b in G.join_pairs(labels[p1].shape, f1, labels[p2].shape, f2, flip):
            if a in seen[p1] and b in seen[p2] and uf.find((p1, a)) != uf.find((p2, b)):
                merging = True
            seen[p1].add(a)
            seen[p2].add(b)
            uf.union((p1, a), (p2, b))
    if merging:
        ctx.flag("joins_two_existing_classes")
    return (cross and not_detect_order) or any(any(ifaces[k][4]) for k in ks) or d == 3 \
        or len(set(ks)) != len(ks) or len(set(ks)) < len(ifaces)


def check_joins(spec, ctx):
    cx = spec["cx"]
    try:
        labels = build_complex(cx)
        ifaces = G.find_interfaces(labels)
    except ValueError as e:
        raise Skip("unrepresentable complex: %s" % e)
    if not ifaces:
        raise Skip("no interfaces")
    seq = spec["seq"]
    MP, shapes, uf = run_joins(ctx, labels, ifaces, seq, spec.get("style", 0), stages=tuple(spec.get("stages", ())))
    idxs, cls, ncls = judge_gluing(ctx, MP, shapes, uf)
    ks = set(k % len(ifaces) for k, _ in seq)
    if len(ks) == len(ifaces):
        # all interfaces joined: the classes must be the label classes of the complex (harness self-check
        # of the interface construction + a second, label-based statement of the oracle)
        nlab = len(set(v for L in labels for v in L.ravel().tolist()))
        if ncls != nlab:
            raise RuntimeError("harness: union-find classes (%d) != label classes (%d)" % (ncls, nlab))
        lab2i = {}
        for p, L in enumerate(labels):
            for v, i in zip(L.ravel().tolist(), idxs[p].tolist()):
                if lab2i.setdefault(v, i) != i:
                    raise Violation("label_classes", "geometrically identical dof has two global indices")
        ctx.flag("complete_gluing")
    ctx.flag("kind=" + cx["kind"], "patches=%d" % len(labels))
    ctx.nontrivial = _classify_seq(ctx, labels, ifaces, seq)


def _rep_pattern(npatch, d, variant):
    """Deterministic family of re-parametrisations (variant 0 = identity everywhere)."""
    reps = []
    for p in range(npatch):
        if variant == 0:
            reps.append([0, 0])
        else:
            h = (p * 2654435761 + variant * 40503 + 12345) & 0xffffffff
            h ^= h >> 13
            reps.append([h % len(G.PERMS[d]), (h >> 5) % (1 << d)])
    return reps


def _n_ifaces(cx):
    return len(G.find_interfaces(build_complex(cx)))


def enum_joins(tier):
    out = []
    quick = tier == "quick"

    def add_orders(cx, orders, style=3):
        for od in orders:
            out.append({"cx": cx, "seq": [[k, 0] for k in od], "style": style})

    # 2x1: every re-parametrisation pair, one join, also repeated and in swapped direction
    for r0 in itertools.product(range(2), range(4)):
        for r1 in itertools.product(range(2), range(4)):
            cx = {"kind": "grid", "sizes": [[2], [3, 2]], "rep": [list(r0), list(r1)]}
            for seq in ([[0, 0]], [[0, 1]], [[0, 0], [0, 0]], [[0, 0], [0, 1]], [[0, 1], [0, 0], [0, 1]]):
                out.append({"cx": cx, "seq": seq, "style": (r0[1] + r1[1]) % 4})
    # 2x2: all 24 orders x re-parametrisation variants; all sequences (with repetition / omission) up to len L
    nvar = 12 if quick else 200
    for v in range(nvar):
        cx = {"kind": "grid", "sizes": [[2, 3], [3, 2]] if v % 2 else [[2, 2], [2, 2]], "rep": _rep_pattern(4, 2, v)}
        add_orders(cx, itertools.permutations(range(4)), style=v % 4)
    # 2x2 histories: every order x every position (and pair of positions) at which the structure is finalized and queried
    # before the remaining interfaces are declared
    for v in range(2 if quick else 12):
        cx = {"kind": "grid", "sizes": [[2, 3], [3, 2]] if v % 2 else [[2, 2], [2, 2]], "rep": _rep_pattern(4, 2, v)}
        for od in itertools.permutations(range(4)):
            for stg in ([1], [2], [3], [1, 3], [1, 2, 3]):
                out.append({"cx": cx, "seq": [[k, 0] for k in od], "style": v % 4, "stages": stg})
    for v in (0, 5):
        cx = {"kind": "grid", "sizes": [[2, 2], [2, 2]], "rep": _rep_pattern(4, 2, v)}
        for L in range(0, 6 if quick else 7):
            for sq in itertools.product(range(4), repeat=L):
                if L == 4 and len(set(sq)) == 4:
                    continue        # permutations are covered above
                out.append({"cx": cx, "seq": [[k, (i + k) % 2] for i, k in enumerate(sq)], "style": 3})
    # rings of k patches around a vertex
    for k in (3, 4, 5, 6):
        nv = (3 if k < 6 else 2) if quick else (12 if k < 6 else 6)
        for v in range(nv):
            m = [2 + ((j + v) % 2) for j in range(k)] if v else [2] * k
            cx = {"kind": "ring", "m": m, "rep": _rep_pattern(k, 2, v)}
            add_orders(cx, itertools.permutations(range(k)), style=v % 4)
    cx = {"kind": "ring", "m": [2, 2, 2], "rep": _rep_pattern(3, 2, 1)}
    for L in range(0, 6):
        for sq in itertools.product(range(3), repeat=L):
            out.append({"cx": cx, "seq": [[k, (i + k) % 2] for i, k in enumerate(sq)], "style": 1})
    # 2x2x2: 12 interfaces, orders sampled by a fixed-seed generator (deterministic, independent of VERIF_SEED;
    # the Hypothesis-driven subcheck join_orders_random samples further orders per seed)
    import random
    rnd = random.Random(20240914)
    for v in range(3 if quick else 12):
        cx = {"kind": "grid", "sizes": [[2, 2], [2, 2], [2, 2]] if v % 3 else [[2, 3], [2, 2], [3, 2]],
              "gperm": v % 6, "rep": [[0, r[1]] for r in _rep_pattern(8, 3, v)]}
        if _n_ifaces(cx) != 12:
            raise RuntimeError("harness: 2x2x2 complex must have 12 interfaces")
        for _ in range(100 if quick else 1700):
            od = list(range(12))
            rnd.shuffle(od)
            out.append({"cx": cx, "seq": [[k, rnd.randrange(2)] for k in od], "style": v % 4})
    # 3x2: 7 interfaces, all 5040 orders
    for v in range(2 if quick else 6):
        cx = {"kind": "grid", "sizes": [[2, 2], [2, 2, 2]] if v != 1 else [[2, 3], [2, 3, 2]],
              "rep": _rep_pattern(6, 2, v)}
        if _n_ifaces(cx) != 7:
            raise RuntimeError("harness: 3x2 complex must have 7 interfaces")
        add_orders(cx, itertools.permutations(range(7)), style=v % 4)
    return out


@st.composite
def strat_joins(draw, tier):
    kind = draw(st.sampled_from(["grid2", "grid2", "grid3", "grid3", "ring"]))
    if kind == "ring":
        k = draw(st.integers(3, 8))
        m = [draw(st.integers(2, 3)) for _ in range(k)]
        cx = {"kind": "ring", "m": m, "rep": [[draw(st.integers(0, 1)), draw(st.integers(0, 3))] for _ in range(k)]}
        npatch, d = k, 2
    elif kind == "grid2":
        nc = draw(st.sampled_from([(2, 2), (3, 2), (2, 3), (3, 3), (4, 2), (1, 3), (4, 3)]))
        sizes = [[draw(st.integers(2, 3)) for _ in range(n)] for n in nc]
        npatch, d = nc[0] * nc[1], 2
        cx = {"kind": "grid", "sizes": sizes,
              "rep": [[draw(st.integers(0, 1)), draw(st.integers(0, 3))] for _ in range(npatch)]}
    else:
        nc = draw(st.sampled_from([(2, 2, 2), (2, 2, 2), (2, 2, 1), (3, 2, 2), (2, 1, 2), (2, 2, 3)]))
        sizes = [[draw(st.integers(2, 3)) for _ in range(n)] for n in nc]
        npatch, d = nc[0] * nc[1] * nc[2], 3
        cx = {"kind": "grid", "sizes": sizes, "gperm": draw(st.integers(0, 5)),
              "rep": [[0, draw(st.integers(0, 7))] for _ in range(npatch)]}
    ni = _n_ifaces(cx)
    order = draw(st.permutations(list(range(ni))))
    mode = draw(st.sampled_from(["perm", "perm", "perm", "repeat", "drop", "both"]))
    seq = list(order)
    if mode in ("drop", "both"):
        ndrop = draw(st.integers(1, max(1, ni // 2)))
        seq = seq[:max(0, len(seq) - ndrop)]
    if mode in ("repeat", "both"):
        nrep = draw(st.integers(1, 4))
        for _ in range(nrep):
            pos = draw(st.integers(0, len(seq)))
            seq.insert(pos, draw(st.integers(0, ni - 1)))
    swaps = draw(st.lists(st.integers(0, 1), min_size=len(seq), max_size=len(seq)))
    spec = {"cx": cx, "seq": [[int(k), int(s)] for k, s in zip(seq, swaps)], "style": draw(st.integers(0, 3))}
    if len(seq) >= 2 and draw(st.integers(0, 2)) == 0:
        # history: joins - finalize - queries - further joins - finalize - queries
        spec["stages"] = sorted(set(draw(st.lists(st.integers(1, len(seq) - 1), min_size=1, max_size=2))))
    return spec


# =============================================================================================
# 2. arbitrary join sequences (not tied to a geometric complex), join_boundaries and join_dofs

def check_wild(spec, ctx):
    from pyiga import assemble
    shapes = [tuple(s) for s in spec["shapes"]]
    d = len(shapes[0])
    patches = [(tuple(_kv(n) for n in shp), None) for shp in shapes]
    MP = ctx.sut(assemble.Multipatch, patches, what="Multipatch")
    uf = G.UF()
    for p, shp in enumerate(shapes):
        for i in range(int(np.prod(shp))):
            uf.add((p, i))
    nb = ndj = 0
    for op in spec["ops"]:
        if op[0] == "b":
            _, p1, f1, p2, f2, flipbits, named = op
            p1 %= len(shapes)
            p2 %= len(shapes)
            if p1 == p2:
                continue
            f1 = G.all_faces(d)[f1 % (2 * d)]
            f2 = G.all_faces(d)[f2 % (2 * d)]
            flip = tuple(bool((flipbits >> a) & 1) for a in range(d - 1))
            try:
                pairs = G.join_pairs(shapes[p1], f1, shapes[p2], f2, flip)
            except ValueError:
                continue            # faces of different size: not a valid join
            r1 = [shapes[p1][a] for a in range(d) if a != f1[0]]
            r2 = [shapes[p2][a] for a in range(d) if a != f2[0]]
            if r1 != r2:
                continue            # same number of dofs but different face shapes: not conforming
            ctx.sut(MP.join_boundaries, p1, _bd(f1, d, named), p2, _bd(f2, d, named), flip=flip,
                    what="join_boundaries")
            nb += 1
        else:
            _, p1, p2, raw = op
            p1 %= len(shapes)
            p2 %= len(shapes)
            if p1 == p2:
                continue
            n1, n2 = int(np.prod(shapes[p1])), int(np.prod(shapes[p2]))
            pairs = [(a % n1, b % n2) for a, b in raw]
            if not pairs:
                continue
            I1 = np.array([a for a, _ in pairs])
            I2 = np.array([b for _, b in pairs])
            ctx.sut(MP.join_dofs, p1, I1, p2, I2, what="join_dofs")
            ndj += 1
        for a, b in pairs:
            uf.union((p1, a), (p2, b))
    ctx.sut(MP.finalize, what="finalize")
    judge_gluing(ctx, MP, shapes, uf)
    if d == 3:
        ctx.flag("3d")
    if nb:
        ctx.flag("join_boundaries")
    if ndj:
        ctx.flag("join_dofs")
    if nb + ndj == 0:
        ctx.flag("no_join_at_all")
    ctx.nontrivial = nb + ndj >= 2


@st.composite
def strat_wild(draw, tier):
    d = draw(st.sampled_from([1, 2, 2, 2, 3]))
    npatch = draw(st.integers(1, 6))
    pal = draw(st.sampled_from([[2], [2, 3], [3], [2, 2, 3]]))
    shapes = [[draw(st.sampled_from(pal)) for _ in range(d)] for _ in range(npatch)]
    nops = draw(st.integers(0 if npatch == 1 else 1, 10)) if npatch > 1 else 0
    ops = []
    faces = G.all_faces(d)

    def fshape(p, fi):
        return [shapes[p][a] for a in range(d) if a != faces[fi][0]]
    for _ in range(nops):
        if draw(st.integers(0, 3)) > 0:
            p1 = draw(st.integers(0, npatch - 1))
            f1 = draw(st.integers(0, 2 * d - 1))
            cands = [(p2, f2) for p2 in range(npatch) if p2 != p1 for f2 in range(2 * d)
                     if fshape(p2, f2) == fshape(p1, f1)]
            if not cands:
                continue
            p2, f2 = draw(st.sampled_from(cands))
            ops.append(["b", p1, f1, p2, f2, draw(st.integers(0, 3)), draw(st.integers(0, 1))])
        else:
            p1 = draw(st.integers(0, npatch - 1))
            p2 = draw(st.integers(0, npatch - 2))
            p2 += p2 >= p1
            raw = draw(st.lists(st.tuples(st.integers(0, 30), st.integers(0, 30)), min_size=1, max_size=5))
            ops.append(["d", p1, p2, [list(x) for x in raw]])
    return {"shapes": shapes, "ops": ops}


# =============================================================================================
# 3. conforming decomposition of one spline patch: interfaces, gluing, system, Dirichlet data

def _fun(idx):
    def f0(*X):
        return 1.0 + 0.0 * X[0]

    def f1(*X):
        return sum((k + 1.0) * x for k, x in enumerate(X)) - 0.5

    def f2(*X):
        r = X[0] * X[1]
        for x in X[2:]:
            r = r + 0.5 * x * x
        return r + X[0]

    def f3(*X):
        return np.sin(2.0 * X[0]) + np.exp(0.3 * X[1]) + (0.0 if len(X) < 3 else np.cos(X[2]))
    return [f0, f1, f2, f3][idx % 4]


def _rot(c, s):
    return [[c, -s], [s, c]]


AFF2 = [[[1.0, 0.0], [0.0, 1.0]], _rot(math.cos(0.5), math.sin(0.5)), [[2.0, 0.0], [0.0, 0.5]],
        [[1.0, 0.5], [0.0, 1.0]], [[-1.0, 0.0], [0.0, 1.0]], [[0.0, 1.0], [1.0, 0.0]],
        [[1.5, -0.5], [0.75, 1.25]]]
AFF3 = [[[1.0, 0, 0], [0, 1.0, 0], [0, 0, 1.0]],
        [[math.cos(0.5), -math.sin(0.5), 0], [math.sin(0.5), math.cos(0.5), 0], [0, 0, 1.0]],
        [[1.0, 0, 0], [0, 2.0, 0], [0, 0, 0.5]], [[1.0, 0.5, 0], [0, 1.0, 0.25], [0, 0, 1.0]],
        [[0, 0, 1.0], [1.0, 0, 0], [0, 1.0, 0]], [[1.0, 0, 0], [0, -1.0, 0], [0.3, 0, 1.0]],
        [[0, 0, 1.0], [0, 1.0, 0], [1.0, 0, 0]]]


def build_decomp(spec):
    """Everything the harness knows about the case (no pyiga objects)."""
    d = spec["dim"]
    dirs = spec["dirs"]
    ps = [ds["p"] for ds in dirs]
    full = [G.dir_knots(ds) for ds in dirs]
    cdir = [G.dir_cells(ds) for ds in dirs]
    sizes = [[c[3] for c in cd] for cd in cdir]
    canon, tot = G.grid_labels(sizes)
    if tuple(tot) != tuple(len(k) - p - 1 for k, p in zip(full, ps)):
        raise RuntimeError("harness: dof count of the decomposition does not match the single patch")
    g = spec["geo"]
    gkvs = []
    for j, ds in enumerate(dirs):
        q = g["q"][j]
        br = ds["breaks"]
        inner = [x for x, on in zip(br[1:-1], g["gk"][j]) if on]
        gkvs.append((np.array([br[0]] * (q + 1) + inner + [br[-1]] * (q + 1), dtype=float), q))
    ncoef = int(np.prod([len(t) - q - 1 for t, q in gkvs])) * d
    raw = g["delta"]
    delta = np.array([raw[i % len(raw)] for i in range(ncoef)], dtype=float) / 8.0
    A = (AFF2 if d == 2 else AFF3)[g["aff"] % (len(AFF2) if d == 2 else len(AFF3))]
    coeffs = G.geo_coeffs(gkvs, delta, g["eps"], A, g["shift"])
    mode = spec["mode"]
    cells = list(itertools.product(*[range(len(cd)) for cd in cdir]))
    patches = []
    for pos in spec["order"]:
        cell = cells[pos]
        box = [(cdir[j][c][0], cdir[j][c][1]) for j, c in enumerate(cell)]
        ckn = [cdir[j][c][2] for j, c in enumerate(cell)]
        if mode == "override":
            perm, fb = tuple(range(d)), 0
            pk = [(ckn[j], ps[j]) for j in range(d)]
            pg = None
        else:
            pi, fb = spec["rep"][pos]
            perm = G.PERMS[d][(spec.get("gperm", 0) if d == 3 else pi) % len(G.PERMS[d])]
            fb = fb % (1 << d)
            unit = mode == "unit"
            sub, sc = G.restrict_geo(gkvs, coeffs, box)
            pk, gk_ = [], []
            for a in range(d):
                j = perm[a]
                fl = bool((fb >> a) & 1)
                pk.append((G.map_knots(ckn[j], ps[j], box[j][0], box[j][1], unit, fl), ps[j]))
                gk_.append((G.map_knots(sub[j][0], sub[j][1], box[j][0], box[j][1], unit, fl), sub[j][1]))
            pg = (gk_, np.ascontiguousarray(G.reparam(sc, perm, fb)))
        patches.append({"cell": cell, "box": box, "perm": perm, "fb": fb, "kvs": pk, "geo": pg,
                        "labels": G.reparam(canon[pos], perm, fb)})
    return {"d": d, "ps": ps, "full": full, "gkvs": gkvs, "coeffs": coeffs, "patches": patches, "tot": tuple(tot),
            "ncells": len(cells)}


def check_decomp(spec, ctx):
    from pyiga import assemble, bspline, assemblers
    if spec["problem"] == "heat":
        # space-time heat form (not symmetric): time derivatives stay parametric and a space-time cylinder is
        # assumed by the form, so: no re-parametrisation, geometry (x.., t) = (u_{d-1}, .., u_0) + shift
        spec = dict(spec)
        spec["mode"] = "override" if spec["mode"] == "override" else "keep"
        spec["rep"] = [[0, 0] for _ in spec["rep"]]
        spec["gperm"] = 0
        spec["sym"] = 0
        spec["geo"] = dict(spec["geo"], eps=0.0, aff=5 if spec["dim"] == 2 else 6)
    B = build_decomp(spec)
    d = B["d"]
    mode = spec["mode"]
    kvs1 = tuple(bspline.KnotVector(k, p) for k, p in zip(B["full"], B["ps"]))
    gkv1 = tuple(bspline.KnotVector(t, q) for t, q in B["gkvs"])
    geo1 = ctx.sut(bspline.BSplineFunc, gkv1, B["coeffs"], what="BSplineFunc")
    patches = []
    for P in B["patches"]:
        kvs = tuple(bspline.KnotVector(k, p) for k, p in P["kvs"])
        if mode == "override":
            geo = ctx.sut(bspline.BSplineFunc, gkv1, B["coeffs"].copy(), what="BSplineFunc")

            def setsupp(g=geo, box=P["box"]):
                g.support = tuple((float(lo), float(hi)) for lo, hi in box)
            ctx.sut(setsupp, what="support.setter")
        else:
            gk_, gc = P["geo"]
            geo = ctx.sut(bspline.BSplineFunc, tuple(bspline.KnotVector(t, q) for t, q in gk_), gc,
                          what="BSplineFunc")
        patches.append((kvs, geo))
    labels = [P["labels"] for P in B["patches"]]
    shapes = [L.shape for L in labels]
    expected = G.find_interfaces(labels)

    # --- (a) automatic interface detection
    connected, found = ctx.sut(assemble.detect_interfaces, patches, what="detect_interfaces")
    try:
        fset = [(int(p1), (int(b1[0]), int(b1[1])), int(p2), (int(b2[0]), int(b2[1])), tuple(bool(x) for x in fl))
                for (p1, b1, p2, b2, fl) in found]
    except Exception:
        raise Violation("detect_format", "detect_interfaces returned %r" % (found,))
    eset = [(p1, (int(f1[0]), int(f1[1])), p2, (int(f2[0]), int(f2[1])), tuple(bool(x) for x in fl))
            for (p1, f1, p2, f2, fl) in expected]
    if len(set(fset)) != len(fset):
        raise Violation("detect_duplicates", "an interface is reported twice: %r" % (fset,))
    if set(fset) != set(eset):
        miss = sorted(set(eset) - set(fset))
        extra = sorted(set(fset) - set(eset))
        raise Violation("detect_interfaces", "missing %r, unexpected %r" % (miss[:3], extra[:3]),
                        missing=len(miss), extra=len(extra))
    ctx.require("detect_connected", bool(connected) is True, "a connected decomposition is reported as disconnected")

    # --- (b) gluing, automatic or manual in a generated order
    uf = G.UF()
    for p, shp in enumerate(shapes):
        for i in range(int(np.prod(shp))):
            uf.add((p, i))
    if spec["manual"] is None:
        MP = ctx.sut(assemble.Multipatch, patches, automatch=True, what="Multipatch(automatch)")
        for (p1, f1, p2, f2, fl) in expected:
            for a, b in G.join_pairs(shapes[p1], f1, shapes[p2], f2, fl):
                uf.union((p1, a), (p2, b))
        ctx.flag("automatch")
    else:
        MP = ctx.sut(assemble.Multipatch, patches, what="Multipatch")
        seq = [[k % len(expected), s] for k, s in spec["manual"]] if expected else []
        seq += [[k, 0] for k in range(len(expected)) if k not in set(x for x, _ in seq)]   # complete
        for (k, swap) in seq:
            p1, f1, p2, f2, fl = expected[k]
            if swap:
                p1, f1, p2, f2 = p2, f2, p1, f1
            ctx.sut(MP.join_boundaries, p1, f1, p2, f2, flip=tuple(fl), what="join_boundaries")
            for a, b in G.join_pairs(shapes[p1], f1, shapes[p2], f2, fl):
                uf.union((p1, a), (p2, b))
        ctx.sut(MP.finalize, what="finalize")
        ctx.flag("manual_order")
    idxs, cls, ncls = judge_gluing(ctx, MP, shapes, uf)
    n1 = int(np.prod(B["tot"]))
    if ncls != n1:
        raise RuntimeError("harness: %d classes but the single patch has %d dofs" % (ncls, n1))
    pi = np.full(n1, -1, dtype=int)         # multipatch global index -> single-patch dof
    for p, L in enumerate(labels):
        lab = L.ravel()
        old = pi[idxs[p]]
        if np.any((old != -1) & (old != lab)):
            raise RuntimeError("harness: classes are not the fibres of the label map")
        pi[idxs[p]] = lab
    if sorted(pi.tolist()) != list(range(n1)):
        raise RuntimeError("harness: renumbering is not a permutation")

    # --- (c) assembled system vs. the undivided patch
    f = _fun(spec["f"])
    if spec["problem"] == "mass":
        Asm = assemblers.MassAssembler2D if d == 2 else assemblers.MassAssembler3D
        A1 = ctx.sut(assemble.mass, kvs1, geo1, what="mass(single)")
    elif spec["problem"] == "stiffness":
        Asm = assemblers.StiffnessAssembler2D if d == 2 else assemblers.StiffnessAssembler3D
        A1 = ctx.sut(assemble.stiffness, kvs1, geo1, what="stiffness(single)")
    else:
        Asm = assemblers.HeatAssembler_ST2D if d == 2 else assemblers.HeatAssembler_ST3D
        A1 = ctx.sut(assemble.assemble, Asm, kvs1, geo=geo1, what="heat_st(single)")
    Rhs = assemblers.L2FunctionalAssemblerPhys2D if d == 2 else assemblers.L2FunctionalAssemblerPhys3D
    b1 = np.asarray(ctx.sut(assemble.assemble, Rhs, kvs1, geo=geo1, f=f, what="rhs(single)")).ravel()
    if spec["fkw"]:
        A, b = ctx.sut(MP.assemble_system, Asm, Rhs, f=f, symmetric=bool(spec["sym"]), format=spec["fmt"],
                       what="assemble_system")
    else:
        A, b = ctx.sut(MP.assemble_system, Asm, Rhs, args={"f": f}, symmetric=bool(spec["sym"]),
                       format=spec["fmt"], what="assemble_system")
    A1d = A1.toarray()
    if getattr(A, "format", None) != spec["fmt"]:
        raise Violation("system_format", "matrix format %r, requested %r" % (getattr(A, "format", None), spec["fmt"]))
    ctx.close("system_matrix", A, A1d[pi][:, pi], rtol=1e-10, what=spec["problem"])
    ctx.close("system_rhs", np.asarray(b), b1[pi], rtol=1e-10, atol=1e-300)

    # --- (d) Dirichlet data
    used_faces = set()
    for (p1, f1, p2, f2, fl) in expected:
        used_faces.add((p1, tuple(f1)))
        used_faces.add((p2, tuple(f2)))
    outer = [(p, fc) for p in range(len(patches)) for fc in G.all_faces(d) if (p, fc) not in used_faces]
    bdconds, cand = [], {}
    facecache = {}
    for (k, gi, named) in spec["bc"]:
        p, fc = outer[k % len(outer)]
        P = B["patches"][p]
        j = P["perm"][fc[0]]                                    # direction of the undivided patch
        side = fc[1] ^ ((P["fb"] >> fc[0]) & 1)
        const = gi % 5 == 4
        gfun = (lambda *X: 1.5 + 0.0 * X[0]) if const else _fun(gi)
        key = (j, side, gi % 5)
        if key not in facecache:
            fk = [(B["full"][a], B["ps"][a]) for a in range(d) if a != j]
            fixed = B["full"][j][0] if side == 0 else B["full"][j][-1]

            def geo_eval(grid, j=j, fixed=fixed):
                gl = list(grid)
                gl.insert(j, np.array([fixed]))
                return np.squeeze(rb.tp_eval(B["gkvs"], B["coeffs"], gl), axis=j)
            facecache[key] = G.interpolate_face(fk, gfun, geo_eval)
        coef = facecache[key]
        fd = G.face_dofs(shapes[p], fc[0], fc[1])
        lab = labels[p].ravel()[fd]
        mi = np.unravel_index(lab, B["tot"])
        onface = mi[j] == (0 if side == 0 else B["tot"][j] - 1)
        if not np.all(onface):
            raise RuntimeError("harness: outer face dofs are not on the boundary of the undivided patch")
        rest = tuple(mi[a] for a in range(d) if a != j)
        vals = coef[rest] if rest else np.full(len(fd), float(coef))
        for gidx, v in zip(idxs[p][fd].tolist(), np.atleast_1d(vals).tolist()):
            cand.setdefault(gidx, []).append(v)
        bdconds.append((p, _bd(fc, d, bool(named)), 1.5 if const else gfun))
    if bdconds:
        bi, bv = ctx.sut(MP.compute_dirichlet_bcs, bdconds, what="Multipatch.compute_dirichlet_bcs")
        bi = np.asarray(bi)
        bv = np.asarray(bv, dtype=float)
        if bi.ndim != 1 or bi.shape != bv.shape or bi.dtype.kind not in "iu":
            raise Violation("bc_shape", "indices %r %s values %r" % (bi.shape, bi.dtype, bv.shape))
        ctx.equal("bc_indices", bi.tolist(), sorted(cand), "Dirichlet indices (glued numbering)")
        gmax = max(1.0, max(abs(v) for vs in cand.values() for v in vs))
        err = 0.0
        for i_, v in zip(bi.tolist(), bv.tolist()):
            e = min(abs(v - c) for c in cand[i_])
            err = max(err, e if e == e else float("inf"))
        tol = 1e-9 * gmax
        ctx.ratio("bc_values", err / tol)
        if not err <= tol:
            raise Violation("bc_values", "Dirichlet value off by %.3g (tol %.3g)" % (err, tol))
        ctx.flag("dirichlet")
        if any(len(v) > 1 for v in cand.values()):
            ctx.flag("dirichlet_dof_in_two_conditions")

    # --- classes
    ctx.flag("dim=%d" % d, "mode=" + mode, "problem=" + spec["problem"],
             "cells=%s" % ("1" if B["ncells"] == 1 else "2-3" if B["ncells"] <= 3 else "4-6" if B["ncells"] <= 6
                           else ">6"))
    flipped = any(any(fl) for (_, _, _, _, fl) in expected)
    if flipped:
        ctx.flag("flipped_interface")
    cnt = np.zeros(n1, dtype=int)
    for L in labels:
        cnt[L.ravel()] += 1
    if cnt.max() >= 3:
        ctx.flag("cross_point")
    if spec["order"] != sorted(spec["order"]):
        ctx.flag("patch_list_permuted")
    if g_curved(spec):
        ctx.flag("curved_geometry")
    ctx.nontrivial = B["ncells"] >= 2 and (flipped or d == 3 or cnt.max() >= 3)


def g_curved(spec):
    return spec["geo"]["eps"] > 0 and any(spec["geo"]["delta"])


@st.composite
def strat_decomp(draw, tier):
    d = draw(st.sampled_from([2, 2, 2, 3]))
    dirs = []
    ncell_budget = 9 if d == 2 else 8
    for j in range(d):
        p = draw(st.integers(1, 3 if d == 2 else 2))
        n = draw(st.integers(1, 5 if d == 2 else 3))
        a, b = draw(st.sampled_from([(0.0, 1.0), (0.0, 1.0), (0.0, 2.0), (-1.0, 1.0), (0.5, 1.5), (1.0, 3.0),
                                     (0.0, 0.5)]))
        lengths = [draw(st.integers(1, 4)) for _ in range(n)]
        tot = sum(lengths)
        acc, br = 0, [a]
        for L in lengths[:-1]:
            acc += L
            br.append(a + (b - a) * acc / tot)
        br.append(b)
        mults = [draw(st.integers(1, p)) for _ in range(n - 1)]
        cuts = [draw(st.integers(0, 2)) > 0 for _ in range(n - 1)]
        # limit the number of cells
        while (sum(cuts) + 1) > max(1, ncell_budget // max(1, int(np.prod([sum(x["cuts"]) + 1 for x in dirs])))):
            cuts[cuts.index(True)] = False
        dirs.append({"p": p, "breaks": br, "mults": mults, "cuts": [bool(c) for c in cuts]})
    ncells = int(np.prod([sum(x["cuts"]) + 1 for x in dirs]))
    geo = {"q": [draw(st.integers(1, 2)) for _ in range(d)],
           "gk": [[draw(st.integers(0, 3)) == 0 for _ in ds["mults"]] for ds in dirs],
           "delta": [draw(st.integers(-8, 8)) for _ in range(23)],
           "eps": draw(st.sampled_from([0.0, 0.1, 0.2] if d == 2 else [0.0, 0.1, 0.1])),
           "aff": draw(st.integers(0, 6)),
           "shift": [draw(st.sampled_from([0.0, 1.0, -2.5, 7.0])) for _ in range(d)]}
    mode = draw(st.sampled_from(["keep", "unit", "unit", "override", "override"]))
    rep = [[draw(st.integers(0, 1)), draw(st.integers(0, (1 << d) - 1))] for _ in range(ncells)]
    order = list(draw(st.permutations(list(range(ncells)))))
    manual = None
    if draw(st.integers(0, 2)) == 0:
        manual = [[draw(st.integers(0, 40)), draw(st.integers(0, 1))] for _ in range(draw(st.integers(0, 14)))]
    nbc = draw(st.integers(0, 4))
    bc = [[draw(st.integers(0, 50)), draw(st.integers(0, 4)), draw(st.integers(0, 1))] for _ in range(nbc)]
    return {"dim": d, "dirs": dirs, "geo": geo, "mode": mode, "rep": rep, "gperm": draw(st.integers(0, 5)),
            "order": order, "manual": manual, "problem": draw(st.sampled_from(["mass", "stiffness", "stiffness", "heat"])),
            "sym": draw(st.integers(0, 1)), "fmt": draw(st.sampled_from(["csr", "csr", "csc"])),
            "fkw": draw(st.integers(0, 1)), "f": draw(st.integers(0, 3)), "bc": bc}



# =============================================================================================
# 4. k bilinear patches around a vertex with real geometry: detection, automatch, accumulation, area

def build_ring(spec):
    k, p = spec["k"], spec["p"]
    O = np.array(spec["center"], dtype=float)
    th = [2.0 * math.pi * (j + 0.15 * spec["jit"][j]) / k for j in range(k)]
    r = [1.0 + 0.25 * spec["rad"][j] for j in range(k)]
    Apt = [O + r[j] * np.array([math.cos(th[j]), math.sin(th[j])]) for j in range(k)]
    m = [p + spec["spans"][j] for j in range(k)]
    canon = G.ring_labels(m)
    patches = []
    area = 0.0
    for pos in spec["order"]:
        i, j = pos, (pos + 1) % k
        tj = th[j] if j > i else th[j] + 2.0 * math.pi
        mid = 0.5 * (th[i] + tj)
        Bp = O + 1.5 * max(r[i], r[j]) * np.array([math.cos(mid), math.sin(mid)])
        C = np.empty((2, 2, 2))
        C[0, 0], C[1, 0], C[0, 1], C[1, 1] = O, Apt[i], Apt[j], Bp
        quad = [O, Apt[i], Bp, Apt[j]]
        a2 = 0.0
        for c in range(4):
            u, v, w = quad[c - 1], quad[c], quad[(c + 1) % 4]
            cr = (v[0] - u[0]) * (w[1] - v[1]) - (v[1] - u[1]) * (w[0] - v[0])
            if cr <= 1e-3:
                raise Skip("non-convex quadrilateral")
            a2 += v[0] * w[1] - w[0] * v[1]
        area += 0.5 * a2
        pi, fb = spec["rep"][pos]
        perm = G.PERMS[2][pi % 2]
        fb %= 4
        kn = [np.concatenate(([0.0] * p, np.linspace(0.0, 1.0, spec["spans"][jj] + 1), [1.0] * p)) for jj in (i, j)]
        g1 = np.array([0.0, 0.0, 1.0, 1.0])
        pk = [(G.map_knots(kn[perm[a]], p, 0.0, 1.0, False, bool((fb >> a) & 1)), p) for a in range(2)]
        patches.append({"kvs": pk, "geo": ([(g1, 1), (g1, 1)], np.ascontiguousarray(G.reparam(C, perm, fb))),
                        "labels": G.reparam(canon[pos], perm, fb)})
    return patches, area


def check_ring_geo(spec, ctx):
    B, area = build_ring(spec)
    _check_geo_complex(spec, ctx, B, area, spec["k"])
    ctx.flag("k=%d" % spec["k"])


def _check_geo_complex(spec, ctx, B, area, n_interfaces):
    import scipy.sparse
    from pyiga import assemble, bspline, assemblers
    patches = []
    for P in B:
        kvs = tuple(bspline.KnotVector(t, p) for t, p in P["kvs"])
        gk_, gc = P["geo"]
        patches.append((kvs, ctx.sut(bspline.BSplineFunc, tuple(bspline.KnotVector(t, q) for t, q in gk_), gc,
                                     what="BSplineFunc")))
    labels = [P["labels"] for P in B]
    shapes = [L.shape for L in labels]
    expected = G.find_interfaces(labels)
    if len(expected) != n_interfaces:
        raise RuntimeError("harness: complex of %d patches has %d interfaces, expected %d" % (len(B), len(expected), n_interfaces))
    connected, found = ctx.sut(assemble.detect_interfaces, patches, what="detect_interfaces")
    fset = [(int(p1), (int(b1[0]), int(b1[1])), int(p2), (int(b2[0]), int(b2[1])), tuple(bool(x) for x in fl))
            for (p1, b1, p2, b2, fl) in found]
    eset = [(p1, (int(f1[0]), int(f1[1])), p2, (int(f2[0]), int(f2[1])), tuple(bool(x) for x in fl))
            for (p1, f1, p2, f2, fl) in expected]
    if len(set(fset)) != len(fset) or set(fset) != set(eset):
        raise Violation("detect_interfaces", "missing %r, unexpected %r"
                        % (sorted(set(eset) - set(fset))[:3], sorted(set(fset) - set(eset))[:3]))
    ctx.require("detect_connected", bool(connected) is True, "ring reported as disconnected")
    MP = ctx.sut(assemble.Multipatch, patches, automatch=True, what="Multipatch(automatch)")
    uf = G.UF()
    for (p1, f1, p2, f2, fl) in expected:
        for a, b in G.join_pairs(shapes[p1], f1, shapes[p2], f2, fl):
            uf.union((p1, a), (p2, b))
    idxs, cls, ncls = judge_gluing(ctx, MP, shapes, uf)
    # accumulation: own scatter of the per-patch matrices, and the area of the polygon
    f = _fun(spec["f"])
    # inputs by keyword, through the `args` dict, or through an `args` dict that already carries a 'geo' entry (a dict that
    # was used for a single-patch assemble(..., args=args, geo=G) before: assemble() stores its keywords in it); the patch
    # geometries must be used in every case
    style = spec.get("argstyle", "kw")
    if style == "kw":
        A, b = ctx.sut(MP.assemble_system, assemblers.MassAssembler2D, assemblers.L2FunctionalAssemblerPhys2D, f=f,
                       what="assemble_system")
    else:
        adict = {"f": f}
        if style == "dict_geo":
            ctx.sut(assemble.assemble, assemblers.MassAssembler2D, patches[0][0], args=adict, geo=patches[0][1],
                    what="assemble(args=dict, geo=...)")
            # (whether assemble() writes its keywords into the caller's dict is not part of any property: if it does, the
            # dict now carries the geometry of patch 0, which assemble_system must not use for the other patches)
            ctx.flag("args_dict_carries_geo" if "geo" in adict else "args_dict_untouched")
        A, b = ctx.sut(MP.assemble_system, assemblers.MassAssembler2D, assemblers.L2FunctionalAssemblerPhys2D, args=adict,
                       what="assemble_system(args=dict)")
    ctx.flag("inputs_" + style)
    Aref = np.zeros((ncls, ncls))
    bref = np.zeros(ncls)
    for p, (kvs, geo) in enumerate(patches):
        Ap = ctx.sut(assemble.mass, kvs, geo, what="mass(patch)").toarray()
        bp = np.asarray(ctx.sut(assemble.assemble, assemblers.L2FunctionalAssemblerPhys2D, kvs, geo=geo, f=f,
                                what="rhs(patch)")).ravel()
        I = idxs[p]
        np.add.at(Aref, (I[:, None], I[None, :]), Ap)
        np.add.at(bref, I, bp)
    ctx.close("accumulated_matrix", A, Aref, rtol=1e-12)
    ctx.close("accumulated_rhs", np.asarray(b), bref, rtol=1e-12, atol=1e-300)
    ctx.close("area_from_mass", float(np.sum(A.toarray())), area, rtol=1e-11)
    if spec["f"] % 4 == 0:
        ctx.close("area_from_rhs", float(np.sum(b)), area, rtol=1e-11)
    # Dirichlet data on outer faces: reference = interpolation on the face of that patch
    used = set()
    for (p1, f1, p2, f2, fl) in expected:
        used.add((p1, tuple(f1)))
        used.add((p2, tuple(f2)))
    outer = [(p, fc) for p in range(len(patches)) for fc in G.all_faces(2) if (p, fc) not in used]
    bdconds, cand = [], {}
    for (kk, gi, named) in spec["bc"]:
        p, fc = outer[kk % len(outer)]
        const = gi % 5 == 4
        gfun = (lambda *X: 1.5 + 0.0 * X[0]) if const else _fun(gi)
        P = B[p]
        fixed = 0.0 if fc[1] == 0 else 1.0

        def geo_eval(grid, P=P, ax=fc[0], fixed=fixed):
            gl = list(grid)
            gl.insert(ax, np.array([fixed]))
            return np.squeeze(rb.tp_eval(P["geo"][0], P["geo"][1], gl), axis=ax)
        coef = G.interpolate_face([P["kvs"][1 - fc[0]]], gfun, geo_eval)
        fd = G.face_dofs(shapes[p], fc[0], fc[1])
        for gidx, v in zip(idxs[p][fd].tolist(), coef.tolist()):
            cand.setdefault(gidx, []).append(v)
        bdconds.append((p, _bd(fc, 2, bool(named)), 1.5 if const else gfun))
    if bdconds:
        bi, bv = ctx.sut(MP.compute_dirichlet_bcs, bdconds, what="Multipatch.compute_dirichlet_bcs")
        bi, bv = np.asarray(bi), np.asarray(bv, dtype=float)
        ctx.equal("bc_indices", bi.tolist(), sorted(cand), "Dirichlet indices (glued numbering)")
        gmax = max(1.0, max(abs(v) for vs in cand.values() for v in vs))
        err = max(min(abs(v - c) for c in cand[i_]) for i_, v in zip(bi.tolist(), bv.tolist()))
        ctx.ratio("bc_values", err / (1e-9 * gmax))
        if not err <= 1e-9 * gmax:
            raise Violation("bc_values", "Dirichlet value off by %.3g" % err)
        ctx.flag("dirichlet")
    if any(any(fl) for (_, _, _, _, fl) in expected):
        ctx.flag("flipped_interface")
    if spec["order"] != sorted(spec["order"]):
        ctx.flag("patch_list_permuted")
    # would the detection order join two existing classes of the centre dof?
    uf2, seen = G.UF(), set()
    for k_ in _detect_order(expected):
        p1, _, p2, _, _ = expected[k_]
        if p1 in seen and p2 in seen and uf2.find(p1) != uf2.find(p2):
            ctx.flag("automatch_order_merges_classes")
        seen.update((p1, p2))
        uf2.union(p1, p2)
    ctx.nontrivial = True


# =============================================================================================
# 5. polygonal annulus (no common vertex) cut into g >= 2 patches of several sectors each: for g = 2 the two patches share TWO
#    faces (a C-shaped patch closed by a second one); piecewise bilinear geometry (degree 1, one span per sector)

def build_annulus(spec):
    k, p = spec["k"], spec["p"]
    parts = spec["parts"]
    assert sum(parts) == k and len(parts) >= 2
    O = np.array(spec["center"], dtype=float)
    th = [2.0 * math.pi * (j + 0.15 * spec["jit"][j]) / k for j in range(k)]
    rin = [1.0 + 0.125 * spec["rad"][j] for j in range(k)]
    rout = [2.5 + 0.25 * spec["rad"][(j + 1) % k] for j in range(k)]
    I = [O + rin[j] * np.array([math.cos(th[j]), math.sin(th[j])]) for j in range(k)]
    Q = [O + rout[j] * np.array([math.cos(th[j]), math.sin(th[j])]) for j in range(k)]

    def poly_area(P):
        return 0.5 * sum(P[c - 1][0] * P[c][1] - P[c][0] * P[c - 1][1] for c in range(len(P)))
    for j in range(k):
        quad = [I[j], Q[j], Q[(j + 1) % k], I[(j + 1) % k]]
        for c in range(4):
            u, v, w = quad[c - 1], quad[c], quad[(c + 1) % 4]
            # (I, Q, Q', I') is traversed counter-clockwise for increasing angle: all turns must be left turns
            cr = (v[0] - u[0]) * (w[1] - v[1]) - (v[1] - u[1]) * (w[0] - v[0])
            if cr <= 1e-3:
                raise Skip("non-convex sector")
    area = poly_area(Q) - poly_area(I)
    sub, nr = spec["sub"], spec["nr"]
    kn_r = np.concatenate(([0.0] * p, np.linspace(0.0, 1.0, nr + 1), [1.0] * p))
    NR = len(kn_r) - p - 1
    nas = [len(np.concatenate(([0.0] * p, np.linspace(0.0, 1.0, c * sub + 1), [1.0] * p))) - p - 1 for c in parts]
    T = sum(n - 1 for n in nas)
    canon, geos, kns = [], [], []
    s0, off = 0, 0
    for t, c in enumerate(parts):
        kn_a = np.concatenate(([0.0] * p, np.linspace(0.0, 1.0, c * sub + 1), [1.0] * p))
        na = nas[t]
        L = np.empty((na, NR), dtype=int)
        for a in range(na):
            L[a, :] = ((off + a) % T) * NR + np.arange(NR)
        C = np.empty((c + 1, 2, 2))
        for jj in range(c + 1):
            C[jj, 0], C[jj, 1] = I[(s0 + jj) % k], Q[(s0 + jj) % k]
        gkn_a = np.concatenate(([0.0], np.linspace(0.0, 1.0, c + 1), [1.0]))
        canon.append(L)
        geos.append(([(gkn_a, 1), (np.array([0.0, 0.0, 1.0, 1.0]), 1)], C))
        kns.append([kn_a, kn_r])
        s0 += c
        off += na - 1
    patches = []
    for pos in spec["order"]:
        pi, fb = spec["rep"][pos]
        perm = G.PERMS[2][pi % 2]
        fb %= 4
        pk = [(G.map_knots(kns[pos][perm[a]], p, 0.0, 1.0, False, bool((fb >> a) & 1)), p) for a in range(2)]
        gkv, C = geos[pos]
        # the geometry knots are uniform, hence invariant under the flip
        patches.append({"kvs": pk, "geo": ([gkv[perm[a]] for a in range(2)], np.ascontiguousarray(G.reparam(C, perm, fb))),
                        "labels": G.reparam(canon[pos], perm, fb)})
    return patches, area


def check_annulus(spec, ctx):
    B, area = build_annulus(spec)
    g = len(spec["parts"])
    _check_geo_complex(spec, ctx, B, area, g)
    ctx.flag("patches=%d" % g, "pair_shares_two_faces" if g == 2 else None)


@st.composite
def strat_annulus(draw, tier):
    k = draw(st.integers(3, 7))
    g = draw(st.sampled_from([2, 2, 3, 4]))
    g = min(g, k)
    # composition of k into g positive parts
    cuts = sorted(draw(st.permutations(list(range(1, k))))[:g - 1])
    parts = [b - a for a, b in zip([0] + cuts, cuts + [k])]
    return {"k": k, "parts": parts, "p": draw(st.integers(1, 3)), "sub": draw(st.integers(1, 2)), "nr": draw(st.integers(1, 3)),
            "rad": [draw(st.integers(0, 2)) for _ in range(k)], "jit": [draw(st.integers(-1, 1)) for _ in range(k)],
            "center": [draw(st.sampled_from([0.0, 1.0, -3.0])), draw(st.sampled_from([0.0, 2.0]))],
            "rep": [[draw(st.integers(0, 1)), draw(st.integers(0, 3))] for _ in range(g)],
            "order": list(draw(st.permutations(list(range(g))))), "f": draw(st.integers(0, 3)),
            "argstyle": draw(st.sampled_from(["kw", "dict", "dict_geo"])),
            "bc": [[draw(st.integers(0, 40)), draw(st.integers(0, 4)), draw(st.integers(0, 1))]
                   for _ in range(draw(st.integers(0, 3)))]}


@st.composite
def strat_ring_geo(draw, tier):
    k = draw(st.integers(3, 8))
    return {"k": k, "p": draw(st.integers(1, 3)), "spans": [draw(st.integers(1, 3)) for _ in range(k)],
            "rad": [draw(st.integers(0, 2)) for _ in range(k)], "jit": [draw(st.integers(-1, 1)) for _ in range(k)],
            "center": [draw(st.sampled_from([0.0, 1.0, -3.0])), draw(st.sampled_from([0.0, 2.0]))],
            "rep": [[draw(st.integers(0, 1)), draw(st.integers(0, 3))] for _ in range(k)],
            "order": list(draw(st.permutations(list(range(k))))), "f": draw(st.integers(0, 3)),
            "argstyle": draw(st.sampled_from(["kw", "kw", "dict", "dict_geo"])),
            "bc": [[draw(st.integers(0, 40)), draw(st.integers(0, 4)), draw(st.integers(0, 1))]
                   for _ in range(draw(st.integers(0, 3)))]}


SUBCHECKS = [
    Sub("join_orders_enum", check_joins, enum=enum_joins, quick=0, thorough=0, floor=200,
        rule="exhaustive: 2x1 (all 64 re-parametrisation pairs), 2x2 (24 orders x variants; all sequences with "
             "repetition/omission up to length 5/6), rings k=3..6 (k! orders), 3x2 (5040 orders), 2x2x2 (300 / 20400 fixed-seed sampled orders)",
        timeout_q=400, timeout_t=3000),
    Sub("join_orders_random", check_joins, strategy=lambda tier: strat_joins(tier), quick=1200, thorough=20000, shards=4,
        floor=100, rule="random grids up to 4x3 / 3x2x2 (2x2x2: 12 interfaces, sampled orders), rings k<=8, "
                        "random re-parametrisation, orders with repeated / dropped joins"),
    Sub("wild_joins", check_wild, strategy=lambda tier: strat_wild(tier), quick=1200, thorough=20000, floor=100, shards=4,
        rule="arbitrary patches and arbitrary join_boundaries / join_dofs sequences (any faces of equal shape, "
             "any flips, arbitrary index pairs); oracle = union-find over the declared pairs"),
]

SUBCHECKS.append(
    Sub("decomposition", check_decomp, strategy=lambda tier: strat_decomp(tier), quick=420, thorough=6000, floor=50,
        rule="one 2D/3D spline patch (p<=3, curved B-spline geometry) split along knots of multiplicity p into <= 9 "
             "cells, cells re-parametrised (flip/swap/unit interval) or given by support override, patch list "
             "permuted; automatch or manual joins in generated order; mass/stiffness + L2 functional; Dirichlet data"))
SUBCHECKS.append(
    Sub("ring_geometry", check_ring_geo, strategy=lambda tier: strat_ring_geo(tier), quick=240, thorough=3000, shards=8,
        floor=50, rule="k=3..8 bilinear patches around a vertex (non-grid topology), re-parametrised, patch list "
                       "permuted: detect_interfaces, automatch, own scatter of patch matrices, polygon area"))
SUBCHECKS.append(
    Sub("annulus", check_annulus, strategy=lambda tier: strat_annulus(tier), quick=240, thorough=3000, shards=8, floor=40,
        rule="polygonal annulus cut into 2..4 multi-sector patches (piecewise bilinear geometry), re-parametrised, patch list "
             "permuted; with 2 patches the pair shares TWO faces: detect_interfaces finds exactly the coinciding faces, automatch "
             "glues both, own scatter of patch matrices, polygon area, Dirichlet data on the inner/outer boundary"))

KNOWN = {}

"""C01 - compiled assemblers compute exactly the integrand the variational form denotes."""
import numpy as np
from hypothesis import strategies as st

from ..core import Sub, Violation, Skip
from ..gen import forms as gf
from ..ref import forms as rf

LEVEL = "exploration"
RULE = ("batches of programs from the typed vform grammar, each compiled with Cython+gcc (compile_vforms batches, a share "
        "through compile_vform and the string front-end) and assembled on a generated space/geometry/data; non-trivial: the "
        "form was accepted, compiled, and the reference matrix/vector has >= 2 different non-zero entries; distinct by SHA-1 "
        "of the single-form spec")
ASSUMPTIONS = ["reference assembly: own AST interpreter (vp/ref/forms.py) summed over own Gauss-Legendre nodes (max degree + 1 "
               "per span); tolerance 1e-10 * (sum of |quadrature terms| of the entry + 1e-3 * its maximum over the matrix)",
               "forms that use the boundary normal are generated with orientation-preserving geometries (documented "
               "precondition of the boundary Jacobian restriction)"]

REJECT = (TypeError, ValueError, NotImplementedError, RuntimeError, AssertionError, ZeroDivisionError)


# ---------------------------------------------------------------------------------------------
# string front-end: pretty-printer of the AST

def inline_lets(node, lets):
    """The string front-end has no user-defined variables: substitute their definitions (same value by definition)."""
    if not isinstance(node, list):
        return node
    if node and node[0] == "var":
        return inline_lets(lets[node[1]], lets)
    return [inline_lets(x, lets) for x in node]


def to_string(node):
    op = node[0]
    s = to_string
    if op == "const":
        # parenthesised: "-1.0 ** 2" would be parsed as -(1.0 ** 2)
        return "(%r)" % float(node[1])
    if op == "vec":
        return "as_vector((" + ", ".join(s(x) for x in node[1:]) + ",))"
    if op == "mat":
        return "as_matrix((" + ", ".join("(" + ", ".join(s(x) for x in row) + ",)" for row in node[1:]) + ",))"
    if op in ("u", "v", "x", "n", "jac", "gw"):
        return op
    if op in ("param", "input"):
        return node[1]
    if op in ("+", "-", "*", "/"):
        return "(%s %s %s)" % (s(node[1]), op, s(node[2]))
    if op == "neg":
        return "(-%s)" % s(node[1])
    if op == "pow":
        return "(%s ** %d)" % (s(node[1]), int(node[2]))
    if op == "fn":
        return "%s(%s)" % (node[1], s(node[2]))
    if op == "dx":
        return "Dx(%s, %d, parametric=%s)" % (s(node[1]), int(node[2]), bool(node[3]))
    if op in ("grad", "hess", "div"):
        return "%s(%s, parametric=%s)" % (op, s(node[1]), bool(node[2]))
    if op == "curl":
        return "curl(%s)" % s(node[1])
    if op == "idx":
        return "%s[%s]" % (s(node[1]), ", ".join(str(int(i)) for i in node[2:]))
    if op in ("inner", "dot", "outer", "cross"):
        return "%s(%s, %s)" % (op, s(node[1]), s(node[2]))
    if op in ("tr", "det", "inv", "norm"):
        return "%s(%s)" % (op, s(node[1]))
    if op == "T":
        return "(%s).T" % s(node[1])
    if op == "dxm":
        return "dx"
    if op == "dsm":
        return "ds"
    raise ValueError(op)


def string_ok(spec):
    """The string interface chooses the measure from the words used; the 'gw' kind and two terms are fine."""
    return True


# ---------------------------------------------------------------------------------------------

def _instantiate(Asm, spec, built):
    from pyiga import assemble
    args = dict(built["args"])
    kvs = built["kvs"]
    used = {}
    if spec["kind"] == "boundary":
        bd = tuple(spec["bd"])
        used["boundary"] = bd
        args["Jac_to_boundary"] = assemble._Jac_to_boundary_matrix(bd, spec["dim"])
    names = list(Asm.inputs().keys()) + list(Asm.parameters().keys())
    for nme in names:
        if nme not in args:
            raise Violation("assembler_inputs", "assembler requires input %r which the form never declared" % nme)
        used[nme] = args[nme]
    if len(kvs) == 2:
        return Asm(kvs[0], kvs[1], **used)
    return Asm(kvs[0], **used)


def reference(spec, built):
    interp = rf.Interp(built["env"], spec, built["data"])
    A, sabs = interp.assemble()
    return interp, A, sabs


def compare(ctx, spec, got, A, sabs, oracle="assembled_entries"):
    import scipy.sparse
    if scipy.sparse.issparse(got):
        got = got.toarray()
    got = np.asarray(got, dtype=float)
    if spec["arity"] == 1:
        got = got.reshape(-1)
    if got.shape != A.shape:
        raise Violation(oracle, "result shape %r != expected %r" % (got.shape, A.shape))
    scale = sabs + 1e-3 * (float(np.max(sabs)) if sabs.size else 0.0) + 1e-300
    ctx.close(oracle, got, A, rtol=1e-10, atol=0.0, scale=scale)


def check_one(ctx, spec, Asm, built, A, sabs, frontend):
    from pyiga import assemble
    asm = ctx.sut(_instantiate, Asm, spec, built, what="assembler __init__")
    got = ctx.sut(assemble.assemble_entries, asm, what="assemble_entries")
    compare(ctx, spec, got, A, sabs)
    # single entries through the public entry() driver (a few, incl. a pair without common support)
    if spec["arity"] == 2 and not spec.get("comps"):
        n0, n1 = A.shape
        picks = [(0, 0), (n0 - 1, n1 - 1), (0, n1 - 1), (n0 // 2, n1 // 2)]
        for (i, j) in picks:
            e = ctx.sut(asm.entry, i, j, what="entry")
            tol = 1e-10 * (sabs[i, j] + 1e-3 * float(np.max(sabs)) + 1e-300)
            if abs(e - A[i, j]) > tol:
                raise Violation("entry", "entry(%d,%d) = %r, expected %r" % (i, j, e, A[i, j]))
    nz = np.unique(np.round(A[np.abs(A) > 1e-14 * (np.max(np.abs(A)) + 1e-300)], 12))
    ops = set()
    for t in spec["terms"]:
        gf.ast_ops(t, ops)
    for v in spec.get("lets", []):
        gf.ast_ops(v["expr"], ops)
    ctx.flag("user_let" if spec.get("lets") else None)
    ctx.flag("dim%d" % spec["dim"], "arity%d" % spec["arity"], spec["kind"], "frontend_" + frontend,
             "vector_bfuns" if spec.get("comps") else None, "two_space" if spec.get("spaces") else None,
             "nonsquare_components" if spec.get("comps") and len(set(spec["comps"])) > 1 else None,
             "nurbs_geo" if spec["geo"].get("nurbs") else None, "spacetime" if spec.get("spacetime") else None,
             "time_derivative" if "dt" in ops else None,
             "physical_second_derivs" if ("hess" in ops and "physical" in ops) else None,
             *("fn_" + o[3:] for o in ops if o.startswith("fn:")))
    return len(nz) >= 2


def check_batch(spec, ctx):
    from pyiga import compile as pcompile, assemble
    forms = spec["forms"]
    prepared = []
    for fs in forms:
        built = gf.build_data(fs)
        try:
            interp, A, sabs = reference(fs, built)
        except rf.FormError:
            continue
        if not (np.all(np.isfinite(A)) and np.all(np.isfinite(sabs))):
            continue
        try:
            vf = gf.build_vform(fs)
            src = pcompile.generate(vf)        # accepted by the compiler iff source text is produced
        except REJECT as e:
            ctx.flag("rejected:" + type(e).__name__)
            continue
        prepared.append((fs, built, A, sabs))
    if not prepared:
        raise Skip("no accepted form in the batch")
    mode = spec.get("mode", "batch")
    classes = []
    if mode == "batch" and len(prepared) > 1:
        vfs = [gf.build_vform(p[0]) for p in prepared]
        try:
            classes = list(pcompile.compile_vforms(vfs))
            front = ["batch"] * len(prepared)
        except Exception as e:
            classes = []
            ctx.flag("batch_compile_failed")
    if not classes:
        front = []
        for p in prepared:
            vf = gf.build_vform(p[0])
            Asm = ctx.sut(pcompile.compile_vform, vf, what="compile_vform (accepted form must build and load)")
            classes.append(Asm)
            front.append("single")
    nontrivial = False
    for (fs, built, A, sabs), Asm, fr in zip(prepared, classes, front):
        try:
            nt = check_one(ctx, fs, Asm, built, A, sabs, fr)
        except Violation as v:
            v.detail["replay_spec"] = {"forms": [fs], "mode": "single", "string": False}
            raise
        nontrivial = nontrivial or nt
        # the same form object-wise through the high-level entry point assemble(VForm, kvs, args, boundary=...): this goes
        # through instantiate_assembler (argument selection, boundary specification) and hits the in-process cache
        if spec.get("via_assemble", True):
            kvs_arg = built["kvs"][0] if len(built["kvs"]) == 1 else tuple(built["kvs"])
            kw = {"boundary": tuple(fs["bd"])} if fs["kind"] == "boundary" else {}
            got2 = ctx.sut(assemble.assemble, gf.build_vform(fs), kvs_arg, args=dict(built["args"]),
                           what="assemble(VForm, kvs, args)", **kw)
            try:
                compare(ctx, fs, got2, A, sabs, oracle="assemble_entry_point")
            except Violation as v:
                v.detail["replay_spec"] = {"forms": [fs], "mode": "single", "string": False}
                raise
            ctx.flag("via_assemble")
        ctx.count("forms_compiled_and_compared")
        if nt:
            ctx.count("forms_nontrivial")
    # string front-end for the first form of the batch (separately compiled: costs one more compile)
    if spec.get("string") and prepared and not prepared[0][0].get("spacetime"):
        fs, built, A, sabs = prepared[0]
        lets = {v["name"]: v["expr"] for v in fs.get("lets", [])}
        text = " + ".join(to_string(inline_lets(t, lets)) for t in fs["terms"])
        comps = fs.get("comps")
        spaces = fs.get("spaces") or [0, 0]
        if fs["arity"] == 2:
            bf = [("u", (comps[0] if comps else 1), spaces[0]), ("v", (comps[1] if comps else 1), spaces[1])]
        else:
            bf = [("v", (comps[0] if comps else 1), spaces[0])]
        kvs = built["kvs"][0] if len(built["kvs"]) == 1 else tuple(built["kvs"])
        args = dict(built["args"])
        kw = {}
        if fs["kind"] == "boundary":
            kw["boundary"] = tuple(fs["bd"])
        if not (comps and all(c == 1 for c in comps)) and fs["kind"] != "gw_only":
            got = ctx.sut(assemble.assemble, text, kvs, args=args, bfuns=bf, what="assemble(string)", **kw)
            compare(ctx, fs, got, A, sabs, oracle="string_frontend")
            ctx.flag("frontend_string")
    ctx.nontrivial = nontrivial


@st.composite
def strat_batch(draw, nforms=5):
    # one form in six is a space-time form (VForm(spacetime=True) on a space-time cylinder)
    forms = [draw(gf.st_form(depth=2, max_terms=2)) if draw(st.integers(0, 5)) == 0 else draw(gf.form(depth=2, max_terms=2))
             for _ in range(nforms)]
    return {"forms": forms, "mode": draw(st.sampled_from(["batch", "batch", "batch", "single"])) if nforms > 1 else "single",
            "string": draw(st.integers(0, 3)) == 0}


def _single_form_strategy(tier):
    return strat_batch(nforms=1)


SUBCHECKS = [
    Sub("compiled", check_batch, strategy=lambda tier: strat_batch(5), quick=32, thorough=320, isolate=True, floor=8,
        timeout_q=900, timeout_t=7000, max_shrink_calls=6,
        rule="batches of 5 generated forms: generate -> Cython -> gcc -> import -> instantiate -> assemble_entries / entry vs "
             "reference Gauss sums (all entries)"),
]
KNOWN = {}

"""C12 - time integrators realise consistent RK / Rosenbrock schemes of their stated order.

Subchecks
  tableaux        exhaustive: rooted-tree order conditions (exact rationals) for the 12 shipped tableaux
  step            dirk_step / rosenbrock_step  vs. dense text-book stage equations (shipped + user tableaux)
  driver_const    constant-step drivers: time grid, one state per time, every step = reference step
  driver_adaptive adaptive drivers: increasing times reaching t_end, error test, step factors (trial log)
  newton          newton() returns only points meeting its tolerance, otherwise raises NoConvergenceError
"""
import math
import warnings
from fractions import Fraction

import numpy as np
from hypothesis import strategies as st

from ..core import Sub, Violation, Skip
from ..gen import c12_problems as gp
from ..ref import c12_rk as rk

LEVEL = "exploration"
RULE = ("exhaustive order conditions for the 12 shipped tableaux; generated (scheme, mass matrix, F, x, tau) cases "
        "and driver runs; non-trivial: method other than the four run by test_ode (crank_nicolson, sdirk3, ros3p, "
        "esdirk34), or M != I, or stiff spectrum (tau|L| >= 10 lam_min(M)), or nonlinear F, or a rejected step "
        "occurred in the adaptive driver; distinct by SHA-1 of the case spec")
ASSUMPTIONS = ["numpy dense linear algebra (solve, svd, eigvalsh) and Python fractions are correct",
               "documented orders: comments in solvers.py for the DIRK tableaux (sdirk3_b 4; sdirk21 2/1; dirk34 3/2; "
               "esdirk23 2/3; esdirk34 3/4), err_order = order of the embedded weights, the names Crank-Nicolson "
               "(trapezoidal rule, 2) / SDIRK3 (Alexander, 3) and, for the Rosenbrock tableaux, the orders stated in "
               "the paper cited in the source (ROS3P, ROS3Pw, ROWDAIND2, ROSI2P1: 3(2); RODASP: 4(3))",
               "F, J handed to pyiga are the harness' own deterministic functions (J is the exact Jacobian)"]
EPS = np.finfo(float).eps

# documented orders (main, embedded); see ASSUMPTIONS
METHODS = {
    "crank_nicolson": ("dirk", 2, None),
    "sdirk3": ("dirk", 3, None),
    "sdirk3_b": ("dirk", 4, None),
    "sdirk21": ("dirk", 2, 1),
    "dirk34": ("dirk", 3, 2),
    "esdirk23": ("dirk", 2, 3),
    "esdirk34": ("dirk", 3, 4),
    "ros3p": ("row", 3, 2),
    "ros3pw": ("row", 3, 2),
    "rowdaind2": ("row", 3, 2),
    "rodasp": ("row", 4, 3),
    "rosi2p1": ("row", 3, 2),
}
ALL_METHODS = list(METHODS)
ADAPTIVE = [m for m in ALL_METHODS if METHODS[m][2] is not None]
CONSTANT_ONLY = [m for m in ALL_METHODS if METHODS[m][2] is None]
SUITE_METHODS = {"crank_nicolson", "sdirk3", "ros3p", "esdirk34"}
# tolerance of the order conditions = precision to which the source states the coefficients:
# ROS3P carries 10 digits, the two SDIRK3 tableaux 12 digits (gamma, xi), all others full double precision
# (worst residual observed: 1.5e-10, 3.2e-13 and 1.0e-15 respectively)
ORDER_TOL = {"ros3p": 1e-9, "sdirk3": 1e-11, "sdirk3_b": 1e-11}
ORDER_TOL_DEFAULT = 1e-13
K_ROUND = 64.0            # safety factor on the a-priori rounding bound of the reference
K_NEWTON = 4.0            # safety factor on the a-priori bound derived from Newton's stopping rule
TRAPEZOIDAL = [[0.0, 0.0], [0.5, 0.5], [0.5, 0.5]]


def _solvers():
    from pyiga import solvers
    return solvers


def _closure_tableau(f):
    """Tableau baked into a driver created by solvers.dirk_method (closure introspection)."""
    try:
        for c in f.__closure__ or ():
            v = c.cell_contents
            if callable(v) and getattr(v, "__closure__", None):
                for c2 in v.__closure__:
                    if isinstance(c2.cell_contents, np.ndarray):
                        return c2.cell_contents
    except Exception:
        pass
    return None


def shipped_scheme(name, introspect=False):
    """The scheme pyiga ships under `name`, in the reference's format."""
    S = _solvers()
    kind = METHODS[name][0]
    if kind == "dirk":
        if name == "crank_nicolson":
            T = _closure_tableau(S.crank_nicolson) if introspect else None
            if T is None:
                T = np.array(TRAPEZOIDAL)
            return {"kind": "dirk", "T": np.array(T, dtype=float), "err_order": None}
        out = getattr(S, "coeffs_" + name)()
        eo = None
        if isinstance(out, tuple):
            out, eo = out
        return {"kind": "dirk", "T": np.array(out, dtype=float), "err_order": eo}
    A, G, b, bh, eo = getattr(S, "coeffs_" + name)()
    return {"kind": "row", "A": np.array(A, dtype=float), "G": np.array(G, dtype=float),
            "b": np.array(b, dtype=float), "bh": None if bh is None else np.array(bh, dtype=float), "err_order": eo}


def user_scheme(u):
    if u["kind"] == "dirk":
        return {"kind": "dirk", "T": np.array(u["T"], dtype=float), "err_order": None}
    return {"kind": "row", "A": np.array(u["A"], dtype=float), "G": np.array(u["G"], dtype=float),
            "b": np.array(u["b"], dtype=float), "bh": None if u["bh"] is None else np.array(u["bh"], dtype=float),
            "err_order": None}


def amax_of(sch):
    if sch["kind"] == "dirk":
        s = sch["T"].shape[1]
        return float(np.max(np.diag(sch["T"][:s])))
    return float(sch["G"][0, 0])


# =============================================================================================
# (a) order conditions of the shipped tableaux

def check_tableau(spec, ctx):
    name = spec["method"]
    kind, p_main, p_emb = METHODS[name]
    sch = ctx.sut(shipped_scheme, name, True, what="coeffs_" + name)
    if kind == "dirk":
        T = sch["T"]
        s = T.shape[1]
        ctx.require("tableau_shape", T.ndim == 2 and T.shape[0] in (s + 1, s + 2), "shape %r" % (T.shape,))
        A, b = T[:s], T[s]
        bh = T[s + 1] if T.shape[0] == s + 2 else None
        G = None
        ctx.require("tableau_structure", np.all(np.triu(A, 1) == 0), "A is not lower triangular")
        d = np.diag(A)
        ctx.require("tableau_structure", np.all(d[1:] > 0) and d[0] >= 0, "diagonal %r" % d.tolist())
        if d[0] == 0:
            ctx.require("tableau_structure", np.all(A[0] == 0), "explicit first stage with non-zero row")
    else:
        A, G, b, bh = sch["A"], sch["G"], sch["b"], sch["bh"]
        s = len(b)
        ctx.require("tableau_shape", A.shape == (s, s) and G.shape == (s, s) and (bh is None or len(bh) == s),
                    "shapes %r %r" % (A.shape, G.shape))
        ctx.require("tableau_structure", np.all(np.triu(A, 0) == 0), "A is not strictly lower triangular")
        ctx.require("tableau_structure", np.all(np.triu(G, 1) == 0), "Gamma is not lower triangular")
        ctx.require("tableau_structure", np.all(np.diag(G) == G[0, 0]) and G[0, 0] > 0,
                    "Gamma diagonal not constant positive (rosenbrock_step uses Gamma[0,0] for all stages)")
    ctx.require("embedded_present", (bh is not None) == (p_emb is not None), "embedded weights present: %s" % (bh is not None))
    if p_emb is not None:
        ctx.equal("err_order", sch["err_order"], p_emb, "err_order of %s (documented order of the embedded rule)" % name)
    failures = {}
    worst = 0.0
    otol = ORDER_TOL.get(name, ORDER_TOL_DEFAULT)
    for label, w, p in (("main", b, p_main), ("emb", bh, p_emb)):
        if w is None:
            continue
        res = rk.order_residuals(A, w, p, G)
        for t, v in res.items():
            worst = max(worst, abs(v))
            if not abs(v) <= otol:
                failures["%s:%s" % (label, rk.tree_name(t))] = v
        att = rk.attained_order(A, w, G, otol, maxorder=5)
        ctx.flag("%s_%s_attains_%d" % (name, label, att))
    ctx.ratio("order_conditions", worst / otol if not failures else 0.0)
    ctx.flag("stages_%d" % s, kind)
    ctx.nontrivial = True
    if failures:
        msg = "%s (documented order %s/%s): " % (name, p_main, p_emb) + ", ".join(
            "%s off by %.3e" % (k, v) for k, v in sorted(failures.items()))
        raise Violation("order_conditions", msg, residuals=failures)


def enum_tableaux(tier):
    return [{"method": m} for m in ALL_METHODS]


# =============================================================================================
# (b) one step vs. the stage equations

def _tolerances(ref, linear):
    """(tol_new, tol_est, tol_F, regime) for a DIRK reference step."""
    br, bn = ref["bound_rounding"], ref["bound_newton"]
    if linear and ref["tight_ok"]:
        f = lambda k: K_ROUND * br[k] if k in br else None
        regime = "tight"
    else:
        f = lambda k: (K_NEWTON * bn[k] + K_ROUND * br[k]) if k in br else None
        regime = "newton_bound"
    return f("x_new"), f("x_est"), f("F_new"), regime


def _compare_dirk(ctx, sch, P, x, tau, out, prefix=""):
    """Judge the tuple returned by dirk_step against the reference.  Returns (ref, regime)."""
    T = sch["T"]
    s = T.shape[1]
    embedded = T.shape[0] == s + 2
    ctx.require(prefix + "return_arity", isinstance(out, tuple) and len(out) == (3 if embedded else 2),
                "dirk_step returned %s" % type(out).__name__)
    ref = rk.DirkReference(T).step(P, x, tau)
    tol_new, tol_est, tol_F, regime = _tolerances(ref, P.linear)
    floor = 1e-300
    sfx = "" if regime == "tight" else "[newton_bound]"
    ctx.close(prefix + "stage_equations_x_new" + sfx, out[0], ref["x_new"], rtol=0, atol=tol_new + floor)
    if embedded:
        ctx.close(prefix + "stage_equations_x_est" + sfx, out[1], ref["x_est"], rtol=0, atol=tol_est + floor)
    Fn = out[-1]
    if Fn is not None:
        # the value handed on as F(x_new) (first-same-as-last) must be F at the returned point
        ctx.close(prefix + "fsal_value" + sfx, Fn, P.F(np.asarray(out[0], dtype=float)), rtol=0,
                  atol=(tol_F + K_ROUND * EPS * (P.lipschitz() * np.linalg.norm(ref["x_new"]) + np.linalg.norm(P.g)))
                  + floor)
    return ref, regime


def _compare_row(ctx, sch, P, x, tau, out, prefix=""):
    embedded = sch["bh"] is not None
    ctx.require(prefix + "return_arity", isinstance(out, tuple) and len(out) == (3 if embedded else 2),
                "rosenbrock_step returned %s" % type(out).__name__)
    ref = rk.RowReference(sch["A"], sch["G"], sch["b"], sch["bh"]).step(P, x, tau)
    br = ref["bound_rounding"]
    ctx.close(prefix + "stage_equations_x_new", out[0], ref["x_new"], rtol=0, atol=K_ROUND * br["x_new"] + 1e-300)
    if embedded:
        ctx.close(prefix + "stage_equations_x_est", out[1], ref["x_est"], rtol=0, atol=K_ROUND * br["x_est"] + 1e-300)
    if out[-1] is not None:
        ctx.close(prefix + "fsal_value", out[-1], P.F(np.asarray(out[0], dtype=float)), rtol=1e-9, atol=1e-300)
    return ref, "tight"


def _row_mass(prob, M):
    import scipy.sparse as sp
    if prob["mkind"] == "none":        # rosenbrock_step documents no M=None; use the identity it stands for
        return sp.identity(prob["n"], format="csr")
    return gp.mass_for_pyiga(prob, M)


def _flags(ctx, spec_scheme, sch, prob, P, tau):
    name = spec_scheme.get("shipped")
    ctx.flag("method_" + (name or "user_" + sch["kind"]), "M_" + prob["mkind"], "L_" + prob["lkind"],
             "J_" + prob["jfmt"], "n_%d" % prob["n"])
    lam_min = float(np.linalg.eigvalsh(P.M)[0])
    stiff = tau * np.linalg.norm(P.L, 2) >= 10 * lam_min
    if stiff:
        ctx.flag("stiff")
    if not P.linear:
        ctx.flag("nonlinear")
    nontrivial = (name not in SUITE_METHODS) or prob["mkind"] not in ("none", "identity_dense") or stiff or not P.linear
    return nontrivial


def check_step(spec, ctx):
    S = _solvers()
    ss = spec["scheme"]
    if "shipped" in ss:
        sch = ctx.sut(shipped_scheme, ss["shipped"], what="coeffs")
        consistent = True
    else:
        sch = user_scheme(ss["user"])
        consistent = ss["user"]["consistent"]
    prob, tau = spec["prob"], spec["tau"]
    P, x = gp.build_problem(prob, amax_of(sch), tau)
    rec = gp.Recorder(P, prob["jfmt"])
    x_in = x.copy()
    Fx = P.F(x) if spec.get("fx") else None
    with warnings.catch_warnings():
        warnings.simplefilter("ignore")
        if sch["kind"] == "dirk":
            Mpy = gp.mass_for_pyiga(prob, P.M)
            out = ctx.sut(S.dirk_step, sch["T"].copy(), Mpy, rec.F, rec.J, x_in, tau, None, Fx, what="dirk_step")
            ref, regime = _compare_dirk(ctx, sch, P, x, tau, out)
            if sch["T"][0, 0] == 0:
                ctx.flag("explicit_first_stage")
            if ref["stiffly_accurate"]:
                ctx.flag("stiffly_accurate")
        else:
            Mpy = _row_mass(prob, P.M)
            out = ctx.sut(S.rosenbrock_step, sch["A"].copy(), sch["G"].copy(), sch["b"].copy(),
                          None if sch["bh"] is None else sch["bh"].copy(), Mpy, rec.F, rec.J, x_in, tau, {},
                          what="rosenbrock_step")
            ref, regime = _compare_row(ctx, sch, P, x, tau, out)
    ctx.equal("state_not_modified", x_in, x, "input state x changed by the step function")
    ctx.flag("regime_" + regime, "embedded" if len(out) == 3 else "not_embedded", "Fx_given" if Fx is not None else "")
    ctx.nontrivial = _flags(ctx, ss, sch, prob, P, tau)
    # y' = const is integrated exactly by every consistent tableau: closed form, independent of the tableau
    if prob["lkind"] == "zero" and P.linear:
        ctx.flag("const_rhs")
        if consistent:
            exact = x + tau * np.linalg.solve(P.M, P.g)
            if sch["kind"] == "dirk":
                tn, te, _, _ = _tolerances(ref, True)
            else:
                tn = K_ROUND * ref["bound_rounding"]["x_new"]
                te = K_ROUND * ref["bound_rounding"].get("x_est", 0.0)
            incr = tau * np.linalg.solve(P.M, P.g)
            for label, got, tol in (("x_new", out[0], tn),) + ((("x_est", out[1], te),) if len(out) == 3 else ()):
                got = np.asarray(got, dtype=float)
                err = float(np.max(np.abs(got - exact))) if got.shape == exact.shape else float("inf")
                if err <= tol:
                    ctx.ratio("const_rhs_exact", err / (tol + 1e-300))
                else:
                    wsum = float(np.dot(got - x, incr) / np.dot(incr, incr)) if got.shape == exact.shape else float("nan")
                    raise Violation("const_rhs_exact",
                                    "y'=c: %s = x + %.12g * tau*M^-1 c instead of x + tau*M^-1 c (err %.3g, tol %.3g)"
                                    % (label, wsum, err, tol), weight_sum=wsum, which=label)


@st.composite
def strat_scheme(draw, user_fraction=3):
    k = draw(st.integers(0, 9))
    if k < user_fraction:
        u = draw(gp.user_dirk() if draw(st.booleans()) else gp.user_row())
        return {"user": u}
    return {"shipped": draw(st.sampled_from(ALL_METHODS))}


@st.composite
def strat_tau(draw):
    return float(10.0 ** (draw(st.integers(-24, 0)) / 8.0))


@st.composite
def strat_step(draw):
    return {"scheme": draw(strat_scheme()), "prob": draw(gp.problem_spec()), "tau": draw(strat_tau()),
            "fx": draw(st.booleans())}


def enum_step(tier):
    """y' = c (n = 1 and 2, M = None / dense) for every shipped method: deterministic part."""
    out = []
    for m in ALL_METHODS:
        for n, mk in ((1, "none"), (2, "dense")):
            out.append({"scheme": {"shipped": m}, "tau": 0.5, "fx": False, "prob": {
                "n": n, "mkind": mk, "mscale": 1.0, "MB": [[1, 2][:n], [0, 1][:n]][:n], "jfmt": "dense",
                "lkind": "zero", "LB": [[0] * n] * n, "Le": [0.0] * n, "LS": [[0] * n] * n, "sigma": 0.0,
                "g": [1, 2][:n], "x": [1.0, -1.0][:n], "s_target": 1.0, "rho": 0.0}})
    return out


# =============================================================================================
# (c) drivers

def _driver(name):
    return getattr(_solvers(), name)


def _step_reference(ctx, sch, P, xk, tau, xnext, prefix):
    """Compare one driver step with the reference step from the driver's own previous state."""
    if sch["kind"] == "dirk":
        ref = rk.DirkReference(sch["T"]).step(P, xk, tau)
        tol_new, _, _, regime = _tolerances(ref, P.linear)
    else:
        ref = rk.RowReference(sch["A"], sch["G"], sch["b"], sch["bh"]).step(P, xk, tau)
        tol_new, regime = K_ROUND * ref["bound_rounding"]["x_new"], "tight"
    ctx.close(prefix + "step_is_reference_step" + ("" if regime == "tight" else "[newton_bound]"), xnext, ref["x_new"],
              rtol=0, atol=tol_new + 1e-300)
    return regime


def _driver_problem(spec, sch, tau, tau_mono):
    prob = spec["prob"]
    P, x = gp.build_problem(prob, amax_of(sch), tau, tau_mono=tau_mono)
    M = gp.mass_for_pyiga(prob, P.M) if sch["kind"] == "dirk" else _row_mass(prob, P.M)
    return P, x, M, gp.Recorder(P, prob["jfmt"])


def check_driver_const(spec, ctx):
    name = spec["method"]
    sch = ctx.sut(shipped_scheme, name, what="coeffs")
    tau, t0, t_end = spec["tau"], spec["t0"], spec["t_end"]
    P, x, M, rec = _driver_problem(spec, sch, tau, tau)
    x_in = x.copy()
    drv = _driver(name)
    with warnings.catch_warnings():
        warnings.simplefilter("ignore")
        if name in ADAPTIVE:
            kw = {} if spec["t0_default"] else {"t0": t0}
            res = ctx.sut(drv, M, rec.F, rec.J, x_in, tau, t_end, None, what=name, **kw)
        else:
            kw = {} if spec["t0_default"] else {"t0": t0}
            res = ctx.sut(drv, M, rec.F, rec.J, x_in, tau, t_end, what=name, **kw)
    ctx.require("driver_result", isinstance(res, tuple) and len(res) == 2, "driver returned %r" % type(res).__name__)
    times, sols = res
    ctx.require("one_state_per_time", len(times) == len(sols) and len(times) >= 1,
                "%d times, %d states" % (len(times), len(sols)))
    N = len(times) - 1
    # grid  t0 + k tau
    for k, t in enumerate(times):
        expect = t0 + k * tau
        ctx.close("time_grid", float(t), expect, rtol=0, atol=4 * EPS * max(abs(t0), abs(k * tau), abs(expect)) + 1e-300)
    # number of steps: the grid reaches t_end and does not pass it by a whole step
    Tq, tq = Fraction(t_end) - Fraction(t0), Fraction(tau)
    slack = Fraction(1, 10 ** 12)
    if Tq <= 0:
        ctx.require("step_count", N == 0, "t_end <= t0 but %d steps were taken" % N)
    else:
        ctx.require("step_count", N * tq >= Tq * (1 - slack), "grid stops at t0+%d*tau < t_end (tau=%r, t_end-t0=%r)"
                    % (N, tau, float(Tq)))
        ctx.require("step_count", (N - 1) * tq < Tq * (1 + slack), "grid has %d steps, passes t_end by >= tau" % N)
    ctx.close("initial_state", sols[0], x, rtol=0, atol=0.0 + 1e-300)
    ctx.equal("state_not_modified", x_in, x, "initial state modified by the driver")
    regimes = set()
    for k in range(N):
        regimes.add(_step_reference(ctx, sch, P, np.asarray(sols[k], dtype=float), tau, sols[k + 1], ""))
    ctx.flag("steps_%s" % ("0" if N == 0 else "1" if N == 1 else "2-5" if N <= 5 else ">5"),
             "t0_default" if spec["t0_default"] else "t0_given", *["regime_" + r for r in regimes])
    ctx.flag("via_tol_None" if name in ADAPTIVE else "constant_only")
    r = (t_end - t0) / tau
    if N > 0 and r == round(r):
        ctx.flag("t_end_on_grid")
    ctx.nontrivial = _flags(ctx, {"shipped": name}, sch, spec["prob"], P, tau) and N >= 1


@st.composite
def strat_driver_const(draw):
    name = draw(st.sampled_from(ALL_METHODS))
    tau = draw(strat_tau())
    t0_default = draw(st.integers(0, 3)) == 0
    t0 = 0.0 if t0_default else draw(st.sampled_from([0.0, 1.0, -1.0, 0.1, 2.5, -0.3, 10.0, 1e-3]))
    kk = draw(st.integers(0, 11))
    if kk <= 5:
        K = float(draw(st.integers(1, 8)))               # t_end on the grid (in exact arithmetic)
    elif kk <= 9:
        K = draw(st.integers(1, 64)) / 8.0
    elif kk == 10:
        K = 0.0
    else:
        K = -1.0
    t_end = t0 + K * tau
    return {"method": name, "prob": draw(gp.problem_spec(nmax=4)), "tau": tau, "t0": t0, "t_end": t_end,
            "t0_default": t0_default}


MAX_TRIALS = 3000      # work budget per run (not a correctness criterion: exceeding it discards the case)


class _TrialLog:
    """Recording wrapper around the step function used by the drivers (module attribute looked up at call
    time by the stepper closures): logs (x, tau, outcome) of every trial step."""

    def __init__(self, S, attr, pos_x, pos_tau):
        self.S, self.attr = S, attr
        self.orig = getattr(S, attr)
        self.pos_x, self.pos_tau = pos_x, pos_tau
        self.trials = []

    def __call__(self, *args, **kwargs):
        if len(self.trials) >= MAX_TRIALS:
            raise Skip("work budget: more than %d trial steps" % MAX_TRIALS)
        x = args[self.pos_x] if len(args) > self.pos_x else kwargs.get("x")
        tau = args[self.pos_tau] if len(args) > self.pos_tau else kwargs.get("tau")
        if self.trials and self.trials[-1]["x"] is x and self.trials[-1]["tau"] == tau:
            # the step functions are deterministic: repeating the identical trial repeats its outcome for ever
            raise Violation("adaptive_reaches_t_end", "the identical trial step (same state, tau=%r) is repeated: "
                            "the driver cannot reach t_end" % tau)
        if not (tau > 0 and math.isfinite(tau)):
            raise Violation("adaptive_reaches_t_end", "trial step size %r" % tau)
        entry = {"x": x, "tau": tau, "out": None, "exc": None}
        self.trials.append(entry)
        try:
            out = self.orig(*args, **kwargs)
        except Exception as e:
            entry["exc"] = type(e).__name__
            raise
        entry["out"] = out
        return out

    def __enter__(self):
        setattr(self.S, self.attr, self)
        return self

    def __exit__(self, *a):
        setattr(self.S, self.attr, self.orig)


def check_driver_adaptive(spec, ctx):
    S = _solvers()
    name = spec["method"]
    sch = ctx.sut(shipped_scheme, name, what="coeffs")
    tau0, t0, t_end, tol, sf = spec["tau0"], spec["t0"], spec["t_end"], spec["tol"], spec["step_factor"]
    span = max(t_end - t0, tau0)
    P, x, M, rec = _driver_problem(spec, sch, tau0, 5.0 * span)
    wild = bool(spec["prob"].get("wild"))
    x_in = x.copy()
    drv = _driver(name)
    kw = {}
    if not spec["t0_default"]:
        kw["t0"] = t0
    if sf is not None:
        kw["step_factor"] = sf
    else:
        sf = 0.9
    log = _TrialLog(S, "dirk_step", 4, 5) if sch["kind"] == "dirk" else _TrialLog(S, "rosenbrock_step", 7, 8)
    with warnings.catch_warnings():
        warnings.simplefilter("ignore")
        with log:
            res = ctx.sut(drv, M, rec.F, rec.J, x_in, tau0, t_end, tol, what=name, **kw)
    ctx.require("driver_result", isinstance(res, tuple) and len(res) == 2, "driver returned %r" % type(res).__name__)
    times, sols = res
    ctx.require("one_state_per_time", len(times) == len(sols) and len(times) >= 1,
                "%d times, %d states" % (len(times), len(sols)))
    ctx.require("times_start", float(times[0]) == t0, "times[0]=%r, t0=%r" % (times[0], t0))
    ctx.close("initial_state", sols[0], x, rtol=0, atol=1e-300)
    ctx.equal("state_not_modified", x_in, x, "initial state modified by the driver")
    tt = np.array([float(t) for t in times])
    ctx.require("times_strictly_increasing", bool(np.all(np.diff(tt) > 0)), "times not strictly increasing: %r" % tt[:8].tolist())
    if t_end > t0:
        ctx.require("reaches_t_end", tt[-1] >= t_end, "last time %r < t_end %r" % (tt[-1], t_end))
        if len(tt) >= 2:
            ctx.require("no_step_after_t_end", tt[-2] <= t_end, "a step was started at %r > t_end %r" % (tt[-2], t_end))
    else:
        ctx.require("reaches_t_end", len(tt) == 1, "t_end <= t0 but steps were taken")
    # ---- trial log: error test and step-size factors
    trials = log.trials
    n = len(x)
    if not trials and len(sols) > 1:
        # the drivers did not go through the module-level step function (hook ineffective): black-box checks only
        ctx.flag("no_trial_log")
        taus = np.diff(tt)
        for k in range(len(sols) - 1):
            if not wild:
                _step_reference(ctx, sch, P, np.asarray(sols[k], dtype=float), float(taus[k]), sols[k + 1], "accepted_")
            if k > 0:
                ctx.require("step_factor_bounds", taus[k] / taus[k - 1] <= 5.0 * (1 + 1e-9),
                            "accepted step sizes grow by %r" % (taus[k] / taus[k - 1]))
        ctx.nontrivial = True
        return
    k = 0
    rejected = newton_rejects = clip_lo = clip_hi = 0
    regimes = set()
    if trials:
        ctx.close("first_trial_step", trials[0]["tau"], tau0, rtol=0, atol=0.0 + 1e-300)
    for i, tr in enumerate(trials):
        ctx.require("trial_starts_at_current_state", np.array_equal(np.asarray(tr["x"]), np.asarray(sols[k])),
                    "trial %d does not start from the last accepted state" % i)
        if i + 1 < len(trials):
            fac = trials[i + 1]["tau"] / tr["tau"]
            ctx.require("step_factor_bounds", 0.2 * (1 - 1e-12) <= fac <= 5.0 * (1 + 1e-12),
                        "step size changed by factor %r (tau %r -> %r)" % (fac, tr["tau"], trials[i + 1]["tau"]))
            if fac <= 0.2 * (1 + 1e-9):
                clip_lo += 1
            if fac >= 5.0 * (1 - 1e-9):
                clip_hi += 1
        if tr["exc"] is not None:
            ctx.require("trial_exception", tr["exc"] == "NoConvergenceError", "step function raised %s" % tr["exc"])
            newton_rejects += 1
            continue
        out = tr["out"]
        xnew, xhat = np.asarray(out[0], dtype=float), np.asarray(out[1], dtype=float)
        xcur = np.asarray(tr["x"], dtype=float)
        d = tol + tol * np.abs(xcur)
        r = float(np.linalg.norm((xhat - xnew) / d) / math.sqrt(n))
        accepted = k + 1 < len(sols) and sols[k + 1] is out[0]
        if not accepted and k + 1 < len(sols) and np.array_equal(np.asarray(sols[k + 1]), xnew) \
                and abs(float(times[k + 1]) - (float(times[k]) + tr["tau"])) <= 4 * EPS * abs(float(times[k + 1])):
            accepted = True
        if accepted:
            ctx.require("accepted_step_passes_error_test", r <= 1.0 + 1e-12,
                        "accepted step %d has scaled error r=%r > 1 (tol=%r)" % (k, r, tol))
            ctx.close("accepted_time_increment", float(times[k + 1]), float(times[k]) + tr["tau"], rtol=0,
                      atol=4 * EPS * max(abs(float(times[k + 1])), abs(t0)) + 1e-300)
            if not wild:
                regimes.add(_step_reference(ctx, sch, P, xcur, tr["tau"], sols[k + 1], "accepted_"))
            k += 1
        else:
            rejected += 1
            if r <= 1.0:
                ctx.flag("rejected_although_r<=1")
    ctx.require("every_state_from_a_trial", k == len(sols) - 1,
                "%d returned states but only %d accepted trial steps were observed" % (len(sols) - 1, k))
    if k >= 1:
        ctx.require("last_trial_accepted", trials[-1]["exc"] is None and sols[-1] is trials[-1]["out"][0]
                    or np.array_equal(np.asarray(sols[-1]), np.asarray(trials[-1]["out"][0])),
                    "driver continued after reaching t_end")
    ctx.flag("accepted_%s" % ("0" if k == 0 else "1-3" if k <= 3 else "4-20" if k <= 20 else ">20"),
             "rejected_steps" if rejected else "no_rejection", "clip_low_0.2" if clip_lo else "",
             "clip_high_5" if clip_hi else "", "newton_reject" if newton_rejects else "",
             "t0_default" if spec["t0_default"] else "t0_given", "wild_nonlinear" if wild else "",
             *["regime_" + r for r in regimes])
    ctx.notes["trials"] = len(trials)
    ctx.ratio("trial_count_over_cap", len(trials) / float(MAX_TRIALS))
    ctx.nontrivial = (_flags(ctx, {"shipped": name}, sch, spec["prob"], P, tau0) or rejected > 0) and k >= 1


@st.composite
def strat_driver_adaptive(draw):
    name = draw(st.sampled_from(ADAPTIVE))
    tau0 = draw(strat_tau())
    t0_default = draw(st.integers(0, 3)) == 0
    t0 = 0.0 if t0_default else draw(st.sampled_from([0.0, 1.0, -1.0, 0.1, 2.5, -0.3, 10.0]))
    kk = draw(st.integers(0, 29))
    K = 0.0 if kk == 0 else -1.0 if kk == 1 else draw(st.integers(1, 320)) / 8.0
    t_end = t0 + K * tau0
    tol = float(10.0 ** (draw(st.integers(-16, -2)) / 4.0))
    sf = draw(st.sampled_from([None, 0.9, 0.8, 0.5, 0.95]))
    wild = METHODS[name][0] == "dirk" and draw(st.integers(0, 3)) == 0
    prob = draw(gp.problem_spec(nmax=4, smin=-1.0, smax=1.0, wild=wild,
                                lkinds=("dissipative", "dissipative", "general", "zero")))
    return {"method": name, "prob": prob, "tau0": tau0, "t0": t0,
            "t_end": t_end, "tol": tol, "step_factor": sf, "t0_default": t0_default}


# =============================================================================================
# (d) newton

def _rotation(n, angles):
    Q = np.eye(n)
    idx = 0
    for i in range(n):
        for j in range(i + 1, n):
            a = angles[idx % len(angles)] if angles else 0.0
            idx += 1
            G = np.eye(n)
            c, s_ = math.cos(a), math.sin(a)
            G[i, i], G[j, j], G[i, j], G[j, i] = c, c, -s_, s_
            Q = Q @ G
    return Q


def _comp(kind, a, c):
    """Scalar component functions (f, f')."""
    if kind == "lin":
        return (lambda u: a * u - c), (lambda u: a + 0.0 * u)
    if kind == "sinmono":
        return (lambda u: a * u + 0.5 * a * np.sin(u) - c), (lambda u: a + 0.5 * a * np.cos(u))
    if kind == "atan":
        return (lambda u: a * np.arctan(u)), (lambda u: a / (1.0 + u * u))
    if kind == "cycle":
        return (lambda u: a * (u ** 3 - 2.0 * u + 2.0)), (lambda u: a * (3.0 * u * u - 2.0))
    if kind == "noroot":
        return (lambda u: a * (u * u + 1.0)), (lambda u: 2.0 * a * u)
    raise ValueError(kind)


def check_newton(spec, ctx):
    S = _solvers()
    import scipy.sparse as sp
    n = spec["n"]
    Q = _rotation(n, spec["angles"])
    comps = [_comp(k, a, c) for (k, a, c) in spec["comps"]]
    shift = np.array(spec["shift"], dtype=float)
    calls = {"F": 0, "J": 0}

    def F(xv):
        calls["F"] += 1
        u = Q.T @ (np.asarray(xv, dtype=float) - shift)
        with np.errstate(all="ignore"):
            return Q @ np.array([f(ui) for (f, _), ui in zip(comps, u)])

    def J(xv):
        calls["J"] += 1
        u = Q.T @ (np.asarray(xv, dtype=float) - shift)
        with np.errstate(all="ignore"):
            Jd = Q @ np.diag([float(df(ui)) for (_, df), ui in zip(comps, u)]) @ Q.T
        return sp.csr_matrix(Jd) if spec["jfmt"] == "csr" else Jd

    u0 = np.array(spec["u0"], dtype=float)
    x0 = Q @ u0 + shift
    x0_arg = x0.copy() if spec["x0_as"] == "array" else [float(v) for v in x0]
    kw = {}
    for key in ("atol", "rtol", "maxiter", "freeze_jac"):
        if spec[key] is not None:
            kw[key] = spec[key]
    atol = kw.get("atol", 1e-6)
    rtol = kw.get("rtol", 1e-6)
    maxiter = kw.get("maxiter", 100)
    with np.errstate(all="ignore"):
        res0 = float(np.linalg.norm(F(x0)))
    target = max(atol, rtol * res0)

    def call():
        try:
            return "returned", S.newton(F, J, x0_arg, **kw)
        except S.NoConvergenceError as e:
            return "raised", e

    with warnings.catch_warnings():
        warnings.simplefilter("ignore")
        with np.errstate(all="ignore"):
            status, val = ctx.sut(call, what="newton")
    kinds = sorted(set(k for (k, _, _) in spec["comps"]))
    ctx.flag(status, "freeze_jac_%s" % spec["freeze_jac"], "J_" + spec["jfmt"], *["comp_" + k for k in kinds])
    if spec["x0_as"] == "array":
        ctx.equal("x0_not_modified", x0_arg, x0, "newton modified its initial guess in place")
    if status == "returned":
        xr = np.asarray(val, dtype=float)
        ctx.require("newton_result_shape", xr.shape == (n,), "shape %r" % (xr.shape,))
        with np.errstate(all="ignore"):
            rn = float(np.linalg.norm(F(xr)))
        ctx.require("returned_point_meets_tolerance", rn <= target * (1 + 1e-12),
                    "newton returned x with |F(x)| = %r, tolerance max(atol, rtol*|F(x0)|) = %r" % (rn, target))
    else:
        # a linear, well conditioned system is solved by one Newton step: raising is a failure to converge
        # that the documented method cannot have (needs >= 2 loop passes: one update, one convergence test)
        if all(k == "lin" for k in kinds) and maxiter >= 3 and atol >= 1e-9:
            raise Violation("linear_problem_converges", "NoConvergenceError on a well-conditioned linear system "
                            "(|a| in [0.5,2], maxiter=%d, atol=%r)" % (maxiter, atol))
        if res0 < target:
            if maxiter >= 1:
                raise Violation("initial_guess_converged", "x0 already meets the tolerance but newton raised")
    ctx.nontrivial = n > 1 or kinds != ["lin"]


@st.composite
def strat_newton(draw):
    n = draw(st.integers(1, 4))
    mode = draw(st.sampled_from(["linear", "monotone", "mixed", "mixed", "hard"]))
    comps, u0 = [], []
    hard = False
    for i in range(n):
        if mode == "linear":
            kind = "lin"
        elif mode == "monotone":
            kind = draw(st.sampled_from(["lin", "sinmono"]))
        elif mode == "mixed":
            kind = draw(st.sampled_from(["lin", "sinmono", "atan", "cycle"]))
        else:
            kind = draw(st.sampled_from(["atan", "cycle", "noroot"]))
        a = draw(st.sampled_from([0.5, 1.0, 2.0, -1.0, -0.5, 1.5]))
        c = draw(st.integers(-8, 8)) / 4.0
        if kind == "atan":
            u = draw(st.sampled_from([0.3, -0.9, 1.2, 1.39, 1.4, -1.5, 2.0, 5.0, -20.0]))
            hard = hard or abs(u) > 1.39
        elif kind == "cycle":
            u = draw(st.sampled_from([0.0, 1.0, 0.01, -0.01, 0.99, -1.8, -2.5, 3.0, 0.1]))
            hard = True
        elif kind == "noroot":
            u = draw(st.sampled_from([0.3, -0.7, 1.0, 2.0, -3.0, 0.5773]))
            hard = True
        else:
            u = draw(st.integers(-16, 16)) / 4.0
        comps.append([kind, a, c])
        u0.append(u)
    nang = n * (n - 1) // 2
    angles = [draw(st.integers(-12, 12)) / 4.0 for _ in range(nang)] if draw(st.booleans()) else [0.0] * nang
    # sparse Jacobians only where the iteration cannot run into an exactly singular matrix (SuperLU raises)
    jfmt = "dense" if hard or mode in ("mixed", "hard") else draw(st.sampled_from(["dense", "csr"]))
    return {"n": n, "comps": comps, "u0": u0, "angles": angles,
            "shift": [draw(st.integers(-8, 8)) / 4.0 for _ in range(n)],
            "atol": draw(st.sampled_from([None, 1e-6, 1e-4, 1e-8, 1e-2, 1e-10, 0.5])),
            "rtol": draw(st.sampled_from([None, 1e-6, 1e-3, 0.1, 1e-12, 0.5])),
            "maxiter": draw(st.sampled_from([None, 3, 5, 10, 20, 50, 4, 7])),
            "freeze_jac": draw(st.sampled_from([None, 1, 2, 3, 5])),
            "jfmt": jfmt, "x0_as": draw(st.sampled_from(["array", "array", "list"]))}


# =============================================================================================

SUBCHECKS = [
    Sub("tableaux", check_tableau, enum=enum_tableaux, quick=0, thorough=0, shards=4,
        rule="all 12 shipped tableaux x all rooted trees up to the documented order (main and embedded weights), "
             "exact rational arithmetic, tolerance = stated precision of the coefficients (1e-9 / 1e-11 / 1e-13)", floor=11),
    Sub("step", check_step, strategy=lambda tier: strat_step(), enum=enum_step, quick=6000, thorough=100000,
        rule="12 shipped + random user DIRK/ROW tableaux x M (None/identity/dense/csr/csc/diagonal) x linear "
             "(dissipative stiff..non-stiff, general, constant) and nonlinear F x tau in [1e-3,1] with tau|F(x)| in [0.1,10]",
        floor=200),
    Sub("driver_const", check_driver_const, strategy=lambda tier: strat_driver_const(), quick=480, thorough=6000,
        rule="all 12 drivers in constant-step mode (adaptive ones via tol=None), t_end on / off the grid, t0", floor=30),
    Sub("driver_adaptive", check_driver_adaptive, strategy=lambda tier: strat_driver_adaptive(), quick=640,
        thorough=8000, rule="9 adaptive drivers x tol in [1e-4,0.3] x step_factor x tau0 x t_end", floor=40),
    Sub("newton", check_newton, strategy=lambda tier: strat_newton(), quick=1600, thorough=20000,
        rule="rotated systems of scalar components: linear, monotone, arctan (divergent for |u0|>1.39), "
             "u^3-2u+2 (2-cycle 0<->1), u^2+1 (no root) x atol/rtol/maxiter/freeze_jac", floor=50),
]


def _dirk34_orders(spec, v):
    exp = KNOWN_DIRK34_RESIDUALS
    got = v.detail.get("residuals") or {}
    return (spec.get("method") == "dirk34" and v.oracle == "order_conditions" and set(got) == set(exp)
            and all(abs(got[k] - exp[k]) <= 1e-13 for k in exp))


def _dirk34_const(spec, v):
    return (spec.get("scheme", {}).get("shipped") == "dirk34" and v.oracle == "const_rhs_exact"
            and v.detail.get("which") == "x_new"
            and abs(v.detail.get("weight_sum", 0.0) - KNOWN_DIRK34_WEIGHT_SUM) <= 1e-10)


KNOWN_DIRK34_WEIGHT_SUM = 0.7685298292769537 + 0.09666483609791597 + 0.1558983899988677
KNOWN_DIRK34_RESIDUALS = {"main:.": 0.02109305537373736, "main:[.]": -0.004523274429530213,
                          "main:[.,.]": 0.0005903440757095256, "main:[[.]]": -0.004671073965546042,
                          "emb:[.]": -0.009703844194376197}

KNOWN = {
    "dirk34_tableau_inconsistent": lambda spec, v: _dirk34_orders(spec, v) or _dirk34_const(spec, v),
}

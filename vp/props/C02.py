"""C02 - B-spline basis evaluation is exact, local, non-negative and sums to one."""
import numpy as np
from hypothesis import strategies as st

from ..core import Sub, Violation
from ..gen import knots as gk
from ..ref import bspl as rb

LEVEL = "exploration"
RULE = ("knot vectors (p 0..12, spans over up to 6 decades (a quarter of the cases: up to 14 decades), interior multiplicities 1..p) x points (interior, on "
        "knots, ends, adjacent floats) x derivative orders 0..p+2; non-trivial: a point on a knot/end/adjacent float, "
        "or a multiple knot in the vector, or derivative order >= 2, or p >= 7; distinct by SHA-1 of the spec")
ASSUMPTIONS = ["reference: Cox-de Boor recursion in exact rational arithmetic (vp/ref/bspl.py), right-continuous, "
               "left-continuous at the right end; tolerance 16(p+1)*eps*S_k with S_k the exact sum of absolute terms"]
EPS = np.finfo(float).eps


def _exact_table(kn, p, x, nder):
    first, D, S = rb.exact_derivs(kn.tolist(), p, x, nder)
    Df = np.array([[float(v) for v in row] for row in D])
    Sf = np.array([[float(v) for v in row] for row in S])
    return first, D, Df, Sf


def check_active(spec, ctx):
    from pyiga import bspline
    kvs = spec["kv"]
    kn, p = gk.build_knots(kvs)
    kv = gk.pyiga_kv(kvs)
    nder = spec["nder"]
    xs = [x for _, x in spec["points"]]
    arr = np.array(xs, dtype=float)
    res_arr = np.asarray(ctx.sut(bspline.active_deriv, kv, arr, nder, what="active_deriv(array)"))
    ctx.require("shape", res_arr.shape == (nder + 1, p + 1, len(xs)), "active_deriv shape %r" % (res_arr.shape,))
    ev_arr = np.asarray(ctx.sut(bspline.active_ev, kv, arr, what="active_ev(array)"))
    ctx.require("shape", ev_arr.shape == (p + 1, len(xs)), "active_ev shape %r" % (ev_arr.shape,))
    cls = set()
    kept = []       # (what, live result object, copy taken when it was returned): results must not change afterwards
    for m, x in enumerate(xs):
        first, D, Df, Sf = _exact_table(kn, p, x, nder)
        got_first = int(ctx.sut(kv.first_active_at, x, what="first_active_at"))
        ctx.equal("first_active", got_first, first, "first active index at %r" % x)
        res = np.asarray(ctx.sut(bspline.active_deriv, kv, x, nder, what="active_deriv(scalar)"))
        ctx.require("shape", res.shape == (nder + 1, p + 1), "scalar active_deriv shape %r" % (res.shape,))
        kept.append(("active_deriv(kv, %r, %d)" % (x, nder), res, res.copy()))
        for k in range(nder + 1):
            Sk = float(np.max(Sf[k])) if k <= p else 0.0
            tol = 16 * (p + 1) * EPS * Sk
            if k > p:
                ctx.require("order_above_degree_zero", np.all(res[k] == 0) and np.all(res_arr[k, :, m] == 0),
                            "derivative order %d > p=%d not exactly zero at %r: %r" % (k, p, x, res[k].tolist()))
                continue
            ctx.close("active_deriv_vs_exact[k=%d]" % min(k, 3), res[k], Df[k], rtol=0, atol=tol, what="x=%r k=%d" % (x, k))
            ctx.close("active_deriv_array_vs_exact", res_arr[k, :, m], Df[k], rtol=0, atol=tol, what="x=%r k=%d" % (x, k))
            # sums: values sum to 1, derivatives to 0
            ssum = float(np.sum(res[k]))
            target = 1.0 if k == 0 else 0.0
            if abs(ssum - target) > 4 * tol + (4 * EPS if k == 0 else 0):
                raise Violation("partition_of_unity", "sum of order-%d derivatives at %r is %r" % (k, x, ssum))
        if not np.all(res[0] >= 0):
            raise Violation("nonnegative", "negative basis value at %r: %r" % (x, res[0].tolist()))
        ev1 = np.asarray(ctx.sut(bspline.active_ev, kv, x, what="active_ev(scalar)"))
        ctx.close("active_ev", ev1, Df[0], rtol=0, atol=16 * (p + 1) * EPS)
        ctx.close("active_ev_array", ev_arr[:, m], Df[0], rtol=0, atol=16 * (p + 1) * EPS)
        kept.append(("active_ev(kv, %r)" % (x,), ev1, ev1.copy()))
        cls |= gk.point_classes(kvs, x)
    kept.append(("active_deriv(kv, array, %d)" % nder, res_arr, res_arr.copy()))
    # a second knot vector of the same degree evaluated in between (shared work arrays would be keyed by degree)
    kv2 = bspline.make_knots(p, 0.0, 1.0, 3)
    ctx.sut(bspline.active_deriv, kv2, 0.4, nder, what="active_deriv(other knot vector)")
    for what, live, snap in kept:
        if not np.array_equal(np.asarray(live), snap):
            raise Violation("result_overwritten", "the array returned by %s changed after later evaluations: %r -> %r"
                            % (what, snap.ravel()[:6].tolist(), np.asarray(live).ravel()[:6].tolist()))
    if len(xs) >= 2:
        ctx.flag("results_kept_across_calls")
    ctx.flag(*cls)
    _br = kvs["breaks"]
    _sp = [b - a for a, b in zip(_br[:-1], _br[1:])]
    ctx.flag("span_ratio>=1e9" if min(_sp) * 1e9 <= max(_sp) else None, "span<=1e-12" if min(_sp) <= 1e-12 else None)
    ctx.flag("p>=7" if p >= 7 else None, "mult>1" if gk.has_multiple_knots(kvs) else None,
             "nder>=2" if nder >= 2 else None, "nder>p" if nder > p else None, "p=0" if p == 0 else None)
    ctx.nontrivial = bool(cls) or gk.has_multiple_knots(kvs) or nder >= 2 or p >= 7


@st.composite
def strat_active(draw, pmax=12):
    # one case in four: extreme grading (spans down to 1e-14 of the largest one, "arbitrarily non-uniform")
    kvs = draw(gk.knotvec(pmin=0, pmax=pmax, nmax=7, decades=draw(st.sampled_from([6, 6, 6, 14]))))
    pts = draw(gk.points_in(kvs, 1, 5))
    nder = draw(st.integers(0, kvs["p"] + 2))
    return {"kv": kvs, "points": pts, "nder": nder}


def enum_active(tier):
    """Exhaustive sweep: p 0..12 x {uniform, geometric} x all breakpoints, ends, neighbours x all orders."""
    out = []
    for p in range(0, 13):
        if tier == "quick" and p not in (0, 1, 2, 3, 5, 8, 12):
            continue
        for fam in ("uniform", "geometric", "multi"):
            n = 4
            if fam == "uniform":
                br = [i / n for i in range(n + 1)]
                mults = [1] * (n - 1)
            elif fam == "geometric":
                br = [0.0] + [10.0 ** (-(n - i)) for i in range(1, n + 1)]
                mults = [1] * (n - 1)
            else:
                if p < 2:
                    continue
                br = [0.0, 0.25, 0.5, 1.0]
                mults = [p, max(1, p - 1)]
            kvs = {"p": p, "breaks": br, "mults": mults}
            pts = []
            for k, t in enumerate(br):
                pts.append(["knot", t])
                if k < len(br) - 1:
                    pts.append(["next", gk._nextafter_safe(t, np.inf)])
                    pts.append(["mid", 0.5 * (t + br[k + 1])])
                if k > 0:
                    pts.append(["prev", gk._nextafter_safe(t, -np.inf)])
            for nder in range(0, p + 3):
                out.append({"kv": kvs, "points": pts, "nder": nder})
    return out


# ---------------------------------------------------------------------------------------------

def check_routes(spec, ctx):
    from pyiga import bspline, assemble_tools
    kvs = spec["kv"]
    kn, p = gk.build_knots(kvs)
    kv = gk.pyiga_kv(kvs)
    n = len(kn) - p - 1
    xs = np.array([x for _, x in spec["points"]], dtype=float)
    nder = spec["nder"]
    # reference dense collocation matrices from exact arithmetic
    C = np.zeros((nder + 1, len(xs), n))
    Sc = np.zeros((nder + 1, len(xs)))
    for m, x in enumerate(xs):
        first, D, Df, Sf = _exact_table(kn, p, x, nder)
        for k in range(nder + 1):
            C[k, m, first:first + p + 1] = Df[k]
            Sc[k, m] = np.max(Sf[k]) if k <= p else 0.0
    tol = lambda k: (16 * (p + 1) * EPS * Sc[k])[:, None]
    # collocation
    M = ctx.sut(bspline.collocation, kv, xs, what="collocation")
    ctx.close("collocation", M, C[0], rtol=0, atol=tol(0))
    Ms = ctx.sut(bspline.collocation_derivs, kv, xs, nder, what="collocation_derivs")
    ctx.require("collocation_derivs", len(Ms) == nder + 1, "number of matrices")
    for k in range(nder + 1):
        if k > p:
            ctx.require("order_above_degree_zero", np.all(Ms[k].toarray() == 0), "collocation_derivs order %d > p nonzero" % k)
        else:
            ctx.close("collocation_derivs", Ms[k], C[k], rtol=0, atol=tol(k) + 1e-300, what="k=%d" % k)
    idx, vals = ctx.sut(bspline.collocation_derivs_info, kv, xs, nder, what="collocation_derivs_info")
    vals = np.asarray(vals)
    ctx.require("collocation_derivs_info", vals.shape == (nder + 1, len(xs), p + 1), "shape %r" % (vals.shape,))
    idx = np.asarray(idx)
    for m in range(len(xs)):
        ref_first = rb.find_span(kn.tolist(), p, xs[m]) - p
        ctx.equal("collocation_info_index", int(idx[m]), ref_first, "first index at %r" % xs[m])
        for k in range(min(nder, p) + 1):
            ctx.close("collocation_derivs_info", vals[k, m], C[k, m, ref_first:ref_first + p + 1], rtol=0,
                      atol=float(tol(k)[m, 0]) + 1e-300)
    idx0, vals0 = ctx.sut(bspline.collocation_info, kv, xs, what="collocation_info")
    ctx.equal("collocation_info_index", np.asarray(idx0).tolist(), np.asarray(idx).tolist(), "indices")
    # single_ev: every function at every point (both directions: zero outside the window)
    for i in range(n):
        sv = np.asarray(ctx.sut(bspline.single_ev, kv, i, xs, what="single_ev"))
        ctx.close("single_ev", sv, C[0][:, i], rtol=0, atol=16 * (p + 1) * EPS)
        s1 = ctx.sut(bspline.single_ev, kv, i, float(xs[0]), what="single_ev(scalar)")
        ctx.close("single_ev", s1, C[0][0, i], rtol=0, atol=16 * (p + 1) * EPS)
    # spline evaluation with coefficients
    c = np.array(spec["coeffs"][:n] + [0.0] * max(0, n - len(spec["coeffs"])), dtype=float)
    ev = np.asarray(ctx.sut(bspline.ev, kv, c, xs, what="ev"))
    sc = np.abs(C[0]) @ np.abs(c)
    ctx.close("ev", ev, C[0] @ c, rtol=0, atol=64 * (p + 1) * EPS * np.maximum(sc, 1e-300) + 1e-300)
    for k in range(1, min(nder, p) + 1):
        # splev is right-continuous as well; at points where the k-th derivative jumps (knot of
        # multiplicity >= p-k+1) FITPACK's convention at the right end point may differ -> skip those
        ok = np.array([_deriv_continuous(kvs, x, k) for x in xs])
        if not np.any(ok):
            continue
        dv = np.asarray(ctx.sut(bspline.deriv, kv, c, k, xs, what="deriv"))
        sc = np.abs(C[k]) @ np.abs(c)
        ctx.close("deriv", dv[ok], (C[k] @ c)[ok], rtol=0, atol=(256 * (p + 1) * EPS * np.maximum(sc, 1e-300))[ok] + 1e-300)
    # compute_values_derivs feeding the assemblers
    cvd = np.asarray(ctx.sut(assemble_tools.compute_values_derivs, kv, xs, nder, what="compute_values_derivs"))
    # documented layout: axes (basis function, grid point, derivative)
    ctx.require("compute_values_derivs", cvd.shape == (n, len(xs), nder + 1), "shape %r" % (cvd.shape,))
    ctx.require("compute_values_derivs", cvd.flags["C_CONTIGUOUS"], "not C-contiguous")
    for k in range(min(nder, p) + 1):
        ctx.close("compute_values_derivs", cvd[:, :, k].T, C[k], rtol=0, atol=tol(k) + 1e-300)
    cls = set()
    for x in xs:
        cls |= gk.point_classes(kvs, x)
    ctx.flag(*cls)
    ctx.flag("mult>1" if gk.has_multiple_knots(kvs) else None, "p>=7" if p >= 7 else None)
    ctx.nontrivial = bool(cls) or gk.has_multiple_knots(kvs) or nder >= 2 or p >= 7


def _deriv_continuous(kvs, x, k):
    br = kvs["breaks"]
    p = kvs["p"]
    if x == br[0] or x == br[-1]:
        return True
    for i, t in enumerate(br[1:-1]):
        if x == t:
            return kvs["mults"][i] <= p - k
    return True


@st.composite
def strat_routes(draw):
    kvs = draw(gk.knotvec(pmin=0, pmax=8, nmax=5, decades=draw(st.sampled_from([4, 4, 4, 14]))))
    pts = draw(gk.points_in(kvs, 1, 5))
    nder = draw(st.integers(0, kvs["p"] + 1))
    coeffs = [draw(st.integers(-32, 32)) / 4.0 for _ in range(60)]
    return {"kv": kvs, "points": pts, "nder": nder, "coeffs": coeffs}


# ---------------------------------------------------------------------------------------------

def check_tensor(spec, ctx):
    """Tensor-product evaluators built on the 1D routines: BSplineFunc.grid_eval/jacobian/hessian."""
    from pyiga import bspline
    kvss = spec["kvs"]
    d = len(kvss)
    kvs = tuple(gk.pyiga_kv(k) for k in kvss)
    kns = [gk.build_knots(k) for k in kvss]
    shape = tuple(len(kn) - p - 1 for kn, p in kns)
    vshape = tuple(spec["vshape"])
    total = int(np.prod(shape + vshape))
    co = (np.array(spec["coeffs"] * (total // len(spec["coeffs"]) + 1))[:total]).reshape(shape + vshape)
    f = ctx.sut(bspline.BSplineFunc, kvs, co.copy(), what="BSplineFunc")
    grid = [np.array([x for _, x in pts]) for pts in spec["grid"]]
    if not spec.get("unsorted"):
        grid = [np.sort(g) for g in grid]      # otherwise: generation order (unsorted, possibly with repeated points)
    elif any(np.any(np.diff(g) < 0) for g in grid):
        ctx.flag("unsorted_grid_axis")
    got = np.asarray(ctx.sut(f.grid_eval, grid, what="grid_eval"))
    ref = rb.tp_eval(kns, co, grid)
    sc = rb.tp_eval([(kn, p) for kn, p in kns], np.abs(co), grid) + 1e-300
    ctx.close("grid_eval", got, ref, rtol=0, atol=64 * EPS * max(p + 1 for _, p in kns) * d * sc)
    # jacobian: last axis is derivative in x-last order: axis index d-1-i for parametric axis i
    if all(p >= 1 for _, p in kns):
        J = np.asarray(ctx.sut(f.grid_jacobian, grid, what="grid_jacobian"))
        ctx.require("grid_jacobian", J.shape == got.shape + (d,), "shape %r" % (J.shape,))
        for ax in range(d):
            der = [0] * d
            der[ax] = 1
            ok = _grid_ok(kvss, grid, der)
            refd = rb.tp_eval(kns, co, grid, der)
            scd = _scale_deriv(kns, co, grid, der)
            g = J[..., d - 1 - ax]
            ctx.close("grid_jacobian", g[ok], refd[ok], rtol=0, atol=(256 * EPS * scd)[ok] + 1e-300, what="axis %d" % ax)
    if all(p >= 2 for _, p in kns) and len(vshape) <= 1 and vshape != (1,):
        H = np.asarray(ctx.sut(f.grid_hessian, grid, what="grid_hessian"))
        nh = d * (d + 1) // 2
        ctx.require("grid_hessian", H.shape == got.shape + (nh,), "shape %r" % (H.shape,))
        # documented: upper triangle of the symmetric Hessian in row-major order, coordinates x first
        k = 0
        for i in range(d):
            for j in range(i, d):
                der = [0] * d
                der[d - 1 - i] += 1
                der[d - 1 - j] += 1
                ok = _grid_ok(kvss, grid, der)
                refd = rb.tp_eval(kns, co, grid, der)
                scd = _scale_deriv(kns, co, grid, der)
                ctx.close("grid_hessian", H[..., k][ok], refd[ok], rtol=0, atol=(1024 * EPS * scd)[ok] + 1e-300,
                          what="entry %d%d" % (i, j))
                k += 1
    ctx.flag("dim%d" % d, "vshape%d" % len(vshape))
    ctx.nontrivial = d >= 2 or any(gk.has_multiple_knots(k) for k in kvss)


def _scale_deriv(kns, co, grid, der):
    out = np.abs(co)
    d = len(kns)
    for ax in range(d):
        t, p = kns[ax]
        C = np.abs(rb.colloc(t, p, grid[ax], der[ax]))
        out = np.moveaxis(np.tensordot(C, out, axes=(1, ax)), 0, ax)
    return out + 1e-300


def _grid_ok(kvss, grid, der):
    """Mask of grid points at which the requested derivative is continuous (so that one-sided
    conventions cannot matter)."""
    d = len(kvss)
    masks = []
    for ax in range(d):
        masks.append(np.array([_deriv_continuous(kvss[ax], x, der[ax]) if der[ax] > 0 else True for x in grid[ax]]))
    M = masks[0]
    for ax in range(1, d):
        M = np.multiply.outer(M, masks[ax])
    return M.astype(bool)


@st.composite
def strat_tensor(draw):
    d = draw(st.integers(1, 3))
    kvss = [draw(gk.knotvec(pmin=0, pmax=4 if d < 3 else 3, nmax=3, decades=2)) for _ in range(d)]
    unsorted = draw(st.booleans())
    grid = [draw(gk.points_in(k, 1, 5 if unsorted else 3)) for k in kvss]
    vshape = draw(st.sampled_from([[], [], [2], [3], [2, 2]]))
    coeffs = [draw(st.integers(-16, 16)) / 4.0 for _ in range(17)]
    return {"kvs": kvss, "grid": grid, "vshape": vshape, "coeffs": coeffs, "unsorted": unsorted}


SUBCHECKS = [
    Sub("active_enum", check_active, enum=enum_active, quick=0, thorough=0, isolate=True, floor=30,
        rule="exhaustive sweep p x {uniform, geometric, multiple-knot} x all breakpoints/ends/neighbours/midpoints x orders 0..p+2"),
    Sub("active_random", check_active, strategy=lambda tier: strat_active(), quick=2500, thorough=60000,
        isolate=True, floor=50),
    Sub("routes", check_routes, strategy=lambda tier: strat_routes(), quick=800, thorough=15000, isolate=True, floor=30,
        rule="collocation, collocation_derivs(_info), single_ev (all functions: zero outside the window), ev/deriv, compute_values_derivs"),
    Sub("tensor", check_tensor, strategy=lambda tier: strat_tensor(), quick=500, thorough=8000, floor=30,
        rule="BSplineFunc.grid_eval/grid_jacobian/grid_hessian vs tensor-product reference"),
]
KNOWN = {}

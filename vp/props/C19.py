"""C19 - knot vectors are constructed and queried exactly."""
import math
from fractions import Fraction

import numpy as np
from hypothesis import strategies as st

from ..core import Sub, Violation, Skip
from ..gen import knots as gk
from ..ref import bspl as rb

LEVEL = "exploration"
RULE = ("generated (p,a,b,n,mult) tuples / knot vectors / query points; non-trivial: n>=30 or interval "
        "!= [0,1] or mult>1 or an evaluation point adjacent to / on a knot; distinct by SHA-1 of the case spec")
ASSUMPTIONS = ["numpy float64 arithmetic; reference computed from the raw knot array by linear scans "
               "and exact rationals"]
EPS = np.finfo(float).eps


def _mk(p, a, b, n, mult):
    from pyiga import bspline
    return bspline.make_knots(p, a, b, n, mult=mult)


def check_constructor(spec, ctx):
    p, a, b, n, mult = spec["p"], spec["a"], spec["b"], spec["n"], spec["mult"]
    kvobj = ctx.sut(_mk, p, a, b, n, mult, what="make_knots")
    kv = np.asarray(kvobj.kv, dtype=float)
    ctx.require("open_nondecreasing", np.all(np.diff(kv) >= 0), "knots decrease")
    ctx.require("open_nondecreasing", len(kv) >= 2 * (p + 1) and np.all(kv[:p + 1] == a)
                and np.all(kv[-(p + 1):] == b), "not an open knot vector on [a,b]: %r" % kv[:p + 2])
    br, counts = np.unique(kv, return_counts=True)
    ctx.require("span_count", len(br) - 1 == n, "requested %d spans, got %d" % (n, len(br) - 1))
    ctx.require("end_exact", br[-1] == b and br[0] == a, "end points not exact")
    ctx.require("multiplicity", np.all(counts[1:-1] == mult) and counts[0] == p + 1 and counts[-1] == p + 1,
                "multiplicities %r" % counts.tolist()[:8])
    ctx.require("numdofs", kvobj.numdofs == p + 1 + mult * (n - 1) and len(kv) - p - 1 == kvobj.numdofs,
                "numdofs %d != %d" % (kvobj.numdofs, p + 1 + mult * (n - 1)))
    ctx.require("numspans", kvobj.numspans == n, "numspans %d" % kvobj.numspans)
    fa, fb = Fraction(float(a)), Fraction(float(b))
    ref = np.array([float(fa + i * (fb - fa) / n) for i in range(n + 1)])
    scale = max(abs(a), abs(b), abs(b - a))
    ctx.close("equispaced", br, ref, rtol=0, atol=16 * EPS * scale)
    if n >= 30:
        ctx.flag("n>=30")
    if (a, b) != (0.0, 1.0):
        ctx.flag("interval!=[0,1]")
    if mult > 1:
        ctx.flag("mult>1")
    ctx.nontrivial = n >= 30 or (a, b) != (0.0, 1.0) or mult > 1


GRID_INTERVALS = [(0.0, 1.0), (0.9, 1.0), (0.0, 2.0), (-1.0, 1.0), (0.1, 0.7), (1.0, 3.0), (0.0, 0.1),
                  (0.0, 10.0), (-0.5, 0.5), (0.25, 0.75), (1 / 3, 2 / 3), (0.0, 3.0), (2.0, 5.0), (0.0, 0.3),
                  (0.2, 1.2), (-3.0, -1.0), (0.0, 7.0), (1.1, 2.2), (0.0, 1e-3), (100.0, 101.0),
                  (0.0, 0.7), (-0.1, 0.2), (0.5, 1.0), (0.0, 6.0), (0.0, 0.9), (1e-2, 1.0), (0.3, 0.4),
                  (0.0, 5.0), (-2.0, 0.0), (0.0, 1.1), (0.7, 1.9), (0.0, 12.0), (3.0, 3.5), (0.05, 0.95),
                  (0.0, 0.6), (-1.0, 0.0), (0.0, 2.5), (0.4, 1.6), (10.0, 20.0), (0.0, 1e3)]


def enum_constructor(tier):
    out = []
    nmax = 400 if tier == "quick" else 2000
    for p in range(0, 7):
        for mult in range(1, max(1, p) + 1):
            if tier == "quick" and mult not in (1, p):
                continue
            for n in range(1, nmax + 1):
                if tier == "quick" and p not in (0, 2, 3) and n > 120:
                    continue
                out.append({"p": p, "a": 0.0, "b": 1.0, "n": n, "mult": mult})
    nmax2 = 60 if tier == "quick" else 200
    for (a, b) in GRID_INTERVALS:
        for p in ((2,) if tier == "quick" else (0, 1, 2, 3)):
            for n in range(1, nmax2 + 1):
                out.append({"p": p, "a": a, "b": b, "n": n, "mult": 1})
    return out


@st.composite
def strat_constructor(draw):
    p = draw(st.integers(0, 6))
    mult = draw(st.integers(1, max(1, p)))
    n = draw(st.integers(1, 200))
    a, b = draw(gk.intervals("float" if draw(st.booleans()) else "grid"))
    return {"p": p, "a": a, "b": b, "n": n, "mult": mult}


# ---------------------------------------------------------------------------------------------

def check_queries(spec, ctx):
    kvs = spec["kv"]
    kn, p = gk.build_knots(kvs)
    kv = ctx.sut(gk.pyiga_kv, kvs, what="KnotVector")
    n = len(kn) - p - 1
    br = np.array(kvs["breaks"])
    # mesh and span bookkeeping
    ctx.equal("mesh", np.asarray(kv.mesh), br, "mesh")
    ctx.equal("numspans", int(kv.numspans), len(br) - 1, "numspans")
    ctx.equal("numdofs", int(kv.numdofs), n, "numdofs")
    nonempty = [i for i in range(len(kn) - 1) if kn[i] < kn[i + 1]]
    ctx.equal("mesh_span_indices", np.asarray(kv.mesh_span_indices()).tolist(), nonempty, "mesh_span_indices")
    ctx.equal("support", tuple(float(x) for x in kv.support()), (float(br[0]), float(br[-1])), "support()")
    msi_all = np.asarray(ctx.sut(kv.mesh_support_idx_all))
    ctx.require("mesh_support_idx_all", msi_all.shape == (n, 2), "shape %r" % (msi_all.shape,))
    for j in range(n):
        lo, hi = kn[j], kn[j + p + 1]
        s = ctx.sut(kv.support, j)
        ctx.equal("support_j", (float(s[0]), float(s[1])), (float(lo), float(hi)), "support(%d)" % j)
        ref = (int(np.where(br == lo)[0][0]), int(np.where(br == hi)[0][0]))
        got = ctx.sut(kv.mesh_support_idx, j)
        ctx.equal("mesh_support_idx", (int(got[0]), int(got[1])), ref, "mesh_support_idx(%d)" % j)
        ctx.equal("mesh_support_idx_all", (int(msi_all[j, 0]), int(msi_all[j, 1])), ref, "row %d" % j)
    # findspan
    cls = set()
    for kind, x in spec["points"]:
        ref = rb.find_span(kn.tolist(), p, x)
        got = ctx.sut(kv.findspan, x, what="findspan")
        ctx.equal("findspan", int(got), ref, "findspan(%r)" % x)
        ctx.equal("first_active_at", int(kv.first_active_at(x)), ref - p, "first_active_at(%r)" % x)
        ctx.equal("first_active", int(kv.first_active(ref)), ref - p, "first_active")
        cls |= gk.point_classes(kvs, x)
    from pyiga import bspline_cy
    arr = np.array([x for _, x in spec["points"]], dtype=float)
    got = np.asarray(ctx.sut(bspline_cy.pyx_findspans, kn, p, arr, what="pyx_findspans"))
    ctx.equal("findspans", got.tolist(), [rb.find_span(kn.tolist(), p, x) for x in arr], "pyx_findspans")
    # greville
    g = np.asarray(ctx.sut(kv.greville, what="greville"), dtype=float)
    ctx.require("greville", g.shape == (n,), "greville shape %r" % (g.shape,))
    ctx.require("greville_in_domain", np.all(g >= br[0]) and np.all(g <= br[-1]), "Greville point outside [a,b]")
    scale = max(abs(br[0]), abs(br[-1]))
    ctx.close("greville", g, rb.greville(kn, p), rtol=0, atol=4 * EPS * max(scale, TINY_SCALE))
    ctx.flag(*cls)
    if gk.has_multiple_knots(kvs):
        ctx.flag("mult>1")
    ctx.nontrivial = bool(cls) or gk.has_multiple_knots(kvs) or (br[0], br[-1]) != (0.0, 1.0)


TINY_SCALE = 1e-300


@st.composite
def strat_queries(draw):
    kvs = draw(gk.knotvec(pmin=0, pmax=8, nmax=8))
    pts = draw(gk.points_in(kvs, 1, 10))
    return {"kv": kvs, "points": pts}


# ---------------------------------------------------------------------------------------------

def check_refine(spec, ctx):
    kvs = spec["kv"]
    kn, p = gk.build_knots(kvs)
    kv = ctx.sut(gk.pyiga_kv, kvs)
    snapshot = kn.copy()
    if spec["new"] is None:
        r = ctx.sut(kv.refine, what="refine()")
        br = np.array(kvs["breaks"])
        new = (br[1:] + br[:-1]) / 2
        ref = np.sort(np.concatenate([kn, new]))
        ctx.equal("refine_uniform", np.asarray(r.kv), ref, "refine()")
        rbk = np.unique(np.asarray(r.kv))
        ctx.require("refine_halves", len(rbk) == 2 * len(br) - 1 or np.any(new == br[:-1]) or np.any(new == br[1:]),
                    "uniform refinement did not halve every span")
    else:
        new = np.array(spec["new"], dtype=float)
        r = ctx.sut(kv.refine, new, what="refine(new)")
        ref = sorted(kn.tolist() + new.tolist())
        ctx.equal("refine_union", np.asarray(r.kv).tolist(), ref, "refine(new)")
    ctx.equal("refine_degree", int(r.p), p, "degree")
    ctx.equal("refine_nonmutating", np.asarray(kv.kv), snapshot, "operand modified")
    # nestedness: old knots are a sub-multiset
    try:
        rb.multiset_diff(np.asarray(r.kv).tolist(), kn.tolist())
    except ValueError:
        raise Violation("refine_nested", "refined knot vector does not contain the old knots")
    ctx.flag("uniform" if spec["new"] is None else "explicit")
    ctx.nontrivial = True


@st.composite
def strat_refine(draw):
    kvs = draw(gk.knotvec(pmin=0, pmax=5, nmax=8))
    if draw(st.booleans()):
        return {"kv": kvs, "new": None}
    pts = draw(gk.points_in(kvs, 0, 6))
    a, b = kvs["breaks"][0], kvs["breaks"][-1]
    new = [x for _, x in pts if a < x < b]
    return {"kv": kvs, "new": new}


# ---------------------------------------------------------------------------------------------

def check_eq(spec, ctx):
    from pyiga import bspline
    kvs = spec["kv"]
    kn, p = gk.build_knots(kvs)
    kn2 = kn.copy()
    for i, d in spec["perturb"]:
        i = i % len(kn2)
        kn2[i] = kn2[i] + d
    kn2 = np.sort(kn2)
    A = bspline.KnotVector(kn.copy(), p)
    B = bspline.KnotVector(kn2, spec["p2"] if spec["p2"] is not None else p)
    ctx.require("eq_reflexive", bool(A == A) and bool(B == B), "== not reflexive")
    ab = bool(ctx.sut(lambda: A == B, what="__eq__"))
    ba = bool(ctx.sut(lambda: B == A, what="__eq__"))
    ctx.require("eq_symmetric", ab == ba, "A==B is %s but B==A is %s" % (ab, ba))
    C = A.copy()
    ctx.require("eq_copy", bool(A == C) and bool(C == A), "copy compares unequal")
    if np.array_equal(kn, kn2) and B.p == p:
        ctx.require("eq_identical", ab, "identical knot vectors compare unequal")
    if B.p != p:
        ctx.require("eq_degree", not ab, "different degrees compare equal")
    if np.max(np.abs(kn - kn2)) > 1e-3 * max(1.0, np.max(np.abs(kn))):
        ctx.require("eq_far", not ab, "clearly different knot vectors compare equal")
    ctx.flag("perturbed" if spec["perturb"] else "identical")
    ctx.nontrivial = bool(spec["perturb"])


@st.composite
def strat_eq(draw):
    kvs = draw(gk.knotvec(pmin=0, pmax=4, nmax=5))
    k = draw(st.integers(0, 3))
    pert = []
    for _ in range(k):
        i = draw(st.integers(0, 40))
        mag = draw(st.sampled_from([1e-12, 0.99e-8, 1.01e-8, 2e-8, 1e-6, 1e-2, 0.3]))
        sgn = draw(st.sampled_from([-1.0, 1.0]))
        pert.append([i, sgn * mag])
    p2 = draw(st.sampled_from([None, None, None, kvs["p"] + 1]))
    return {"kv": kvs, "perturb": pert, "p2": p2}


# ---------------------------------------------------------------------------------------------

def check_spline_derivative(spec, ctx):
    from pyiga import spline
    kvs = spec["kv"]
    kn, p = gk.build_knots(kvs)
    kv = gk.pyiga_kv(kvs)
    c = np.array(spec["coeffs"], dtype=float)
    s = ctx.sut(spline.Spline, kv, c)
    ds = ctx.sut(s.derivative, what="Spline.derivative")
    dkn = np.asarray(ds.kv.kv, dtype=float)
    dp = int(ds.kv.p)
    ctx.equal("derivative_degree", dp, p - 1, "degree")
    dc = np.asarray(ds.coeffs, dtype=float)
    ctx.require("derivative_shape", dc.shape == (len(dkn) - dp - 1,), "coefficient count")
    x = np.array([v for _, v in spec["points"]])
    # reference: derivative of the original spline at x, vs. the derivative spline evaluated at x
    C1 = rb.colloc(kn, p, x, 1)
    refd = C1 @ c
    # the derivative spline is evaluated by the reference evaluator (right-continuous), only at points
    # where the derivative is continuous (multiplicity < p) or one-sided limits coincide by convention
    C0 = rb.colloc(dkn, dp, x, 0)
    got = C0 @ dc
    first, D = rb.basis_derivs(kn, p, x, 1)
    scale = np.array([np.sum(np.abs(D[1, m]) * np.abs(c[first[m]:first[m] + p + 1])) for m in range(len(x))])
    ctx.close("derivative_value", got, refd, rtol=64 * (p + 1) * EPS, atol=1e-300, scale=np.maximum(scale, 1e-300))
    ctx.equal("derivative_nonmutating", np.asarray(s.coeffs), c, "coeffs modified")
    ctx.nontrivial = gk.has_multiple_knots(kvs) or any(k != "interior" for k, _ in spec["points"])
    if gk.has_multiple_knots(kvs):
        ctx.flag("mult>1")


@st.composite
def strat_spline_derivative(draw):
    kvs = draw(gk.knotvec(pmin=1, pmax=6, nmax=6, decades=3))
    kn, p = gk.build_knots(kvs)
    n = len(kn) - p - 1
    c = [draw(st.integers(-64, 64)) / 8.0 for _ in range(n)]
    pts = draw(gk.points_in(kvs, 1, 8))
    return {"kv": kvs, "coeffs": c, "points": pts}


SUBCHECKS = [
    Sub("constructor_enum", check_constructor, enum=enum_constructor, quick=0, thorough=0,
        rule="exhaustive (p<=6, n<=400 quick / 2000 thorough, mult) on [0,1] + 40 grid intervals", floor=50),
    Sub("constructor_random", check_constructor, strategy=lambda tier: strat_constructor(),
        quick=1500, thorough=40000, rule="random p,n<=200,mult and float/rational intervals", floor=50),
    Sub("queries", check_queries, strategy=lambda tier: strat_queries(), quick=1500, thorough=40000,
        rule="knot vectors p<=8 with spans over 6 decades; points on/next to knots", floor=50),
    Sub("refine", check_refine, strategy=lambda tier: strat_refine(), quick=800, thorough=20000, floor=50),
    Sub("eq", check_eq, strategy=lambda tier: strat_eq(), quick=800, thorough=20000, floor=20),
    Sub("spline_derivative", check_spline_derivative, strategy=lambda tier: strat_spline_derivative(),
        quick=800, thorough=20000, floor=20),
]

KNOWN = {}

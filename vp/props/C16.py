"""C16 - linear-operator building blocks equal their dense definitions.

Every case spec describes small matrices with integer / dyadic-rational entries (so that the dense
reference product is exact in float64), the storage kind of every operand, a chain of
transpose/adjoint views and one or more arguments (vector, (n,1) column, (n,k) matrix; C/F/strided
memory layout; float64/float32/int64).  The reference is always the explicit dense matrix built with
numpy (`numpy.kron`, `numpy.block`, explicit loops) - never a pyiga routine.
"""
from functools import reduce

import numpy as np
import scipy.sparse
import scipy.sparse.linalg
from hypothesis import strategies as st

from ..core import Sub, Violation, Skip

LEVEL = "exploration"
RULE = ("generated tuples of small dyadic-rational matrices (kinds ndarray/CSR/CSC/LinearOperator, "
        "rectangular shapes 1..4, dtypes f8/f4/i8), views (.T/.H chains) and arguments "
        "(vector/(n,1)/(n,k), C/F/strided); non-trivial: mixed kinds or a rectangular operand or a "
        "matrix argument or >= 3 operands (per subcheck rule); distinct by SHA-1 of the case spec")
ASSUMPTIONS = ["numpy dense linear algebra (kron, block, matmul, solve, cond) and scipy.sparse "
               "constructors are trusted; entries are small dyadic rationals so dense references are exact"]

NP_DT = {"f8": np.float64, "f4": np.float32, "i8": np.int64}
SPARSE_KINDS = ("csr", "csc")
ALL_KINDS = ("nd", "csr", "csc", "linop", "linop_mv")
VIEWS = ("", "", "T", "H", "TT", "TH", "HT", "HH")


# =============================================================================================
# building objects from specs (harness side)

def dense_of(ms):
    """float64 dense matrix of a matrix spec (exact: entries are e/den with small e)."""
    D = np.array(ms["e"], dtype=np.float64).reshape(ms["m"], ms["n"])
    return D / float(ms.get("den", 1))


def _typed(ms):
    D = dense_of(ms)
    return D.astype(NP_DT[ms.get("dt", "f8")])


def _compressed(D, fmt, explicit_zeros, reverse):
    """CSR/CSC built by hand from the dense array: optional explicit zeros and unsorted indices."""
    A = D if fmt == "csr" else D.T
    indptr, indices, data = [0], [], []
    for i in range(A.shape[0]):
        cols = [j for j in range(A.shape[1]) if explicit_zeros or A[i, j] != 0]
        if reverse:
            cols = cols[::-1]
        indices.extend(cols)
        data.extend(A[i, j] for j in cols)
        indptr.append(len(indices))
    cls = scipy.sparse.csr_matrix if fmt == "csr" else scipy.sparse.csc_matrix
    return cls((np.array(data, dtype=D.dtype), np.array(indices, dtype=np.int32),
                np.array(indptr, dtype=np.int32)), shape=D.shape)


def build_matrix(ms):
    """-> (object handed to pyiga, dense float64 reference)."""
    D = _typed(ms)
    kind = ms["kind"]
    ref = dense_of(ms)
    if kind == "nd":
        return D, ref
    if kind in SPARSE_KINDS:
        return _compressed(D, kind, bool(ms.get("xz")), bool(ms.get("rev"))), ref
    if kind == "linop":
        return scipy.sparse.linalg.aslinearoperator(D), ref
    if kind == "linop_sp":
        return scipy.sparse.linalg.aslinearoperator(scipy.sparse.csr_matrix(D)), ref
    if kind == "p_ident":       # pyiga's own operators used as operands (square only)
        from pyiga import operators
        return operators.IdentityOperator(ms["m"]), np.eye(ms["m"])
    if kind == "p_diag":
        from pyiga import operators
        return operators.DiagonalOperator(np.diag(D).copy()), np.diag(np.diag(ref))
    if kind == "linop_mv":
        Dc = D.copy()
        op = scipy.sparse.linalg.LinearOperator(Dc.shape, matvec=lambda x: Dc.dot(x),
                                                rmatvec=lambda x: Dc.T.dot(x), dtype=Dc.dtype)
        return op, ref
    raise ValueError("unknown kind %r" % kind)


def build_arg(a, n):
    """Argument array with n rows described by the arg spec; values are small dyadic rationals."""
    form = a["form"]
    k = 1 if form in ("vec", "col") else int(a["k"])
    rs = np.random.RandomState(int(a["seed"]))
    dt = a.get("dt", "f8")
    vals = rs.randint(-8, 9, size=(n, k)).astype(np.float64)
    if dt != "i8":
        vals = vals / 4.0
    shape = (n,) if form == "vec" else (n, k)
    vals = vals.reshape(shape)
    order = a.get("order", "C")
    tdt = NP_DT[dt]
    if order == "F":
        x = np.asfortranarray(vals.astype(tdt))
    elif order == "strided":
        big = np.zeros(tuple(2 * s for s in shape), dtype=tdt)
        sl = tuple(slice(None, None, 2) for _ in shape)
        big[sl] = vals
        x = big[sl]
    else:
        x = np.ascontiguousarray(vals.astype(tdt))
    return x, vals


def apply_view(op, view, ctx, what):
    for ch in view:
        if ch == "T":
            op = ctx.sut(lambda o=op: o.T, what=what + ".T")
        else:
            op = ctx.sut(lambda o=op: o.H, what=what + ".H")
    return op


def view_dense(M, view):
    for _ in view:
        M = M.T            # real data: adjoint == transpose
    return M


def do_apply(op, x, how):
    if how == "matmul":
        return op @ x
    if how == "mul":
        return op * x
    if how == "call":
        return op.matvec(x) if (x.ndim == 1 or x.shape[1] == 1) else op.matmat(x)
    return op.dot(x)


def rtol_for(*dts):
    return 1e-5 if "f4" in dts else 1e-12


def check_apps(ctx, op, M, apps, name, dts=()):
    """Apply `op` (after a view) to every argument spec in `apps`, compare with the dense matrix M."""
    ctx.require(name + ":shape", tuple(int(s) for s in op.shape) == M.shape,
                "operator shape %r, dense definition %r" % (tuple(op.shape), M.shape))
    views = {}          # one operator object per view: the same object is applied repeatedly
    kept = []           # results returned earlier must not change when the operator is used again
    for a in apps:
        view = a.get("view", "")
        Mv = view_dense(M, view)
        if view not in views:
            views[view] = apply_view(op, view, ctx, name)
        opv = views[view]
        ctx.require(name + ":shape", tuple(int(s) for s in opv.shape) == Mv.shape,
                    "view %r has shape %r, expected %r" % (view, tuple(opv.shape), Mv.shape))
        x, xv = build_arg(a, Mv.shape[1])
        keep = x.copy()
        how = a.get("how", "dot")
        y = ctx.sut(do_apply, opv, x, how, what="%s%s.%s" % (name, "." + view if view else "", how))
        ref = Mv.dot(xv)
        scale = float(np.max(np.abs(Mv).dot(np.abs(xv)))) if ref.size else 0.0
        ctx.close(name + ":value", y, ref, rtol=rtol_for(a.get("dt", "f8"), *dts), scale=scale,
                  what="view=%r arg=%s/%s how=%s" % (view, a["form"], a.get("order", "C"), how))
        ctx.require(name + ":arg_unchanged", np.array_equal(x, keep), "the argument was modified in place")
        ctx.flag("arg:" + a["form"], "view:" + (view or "none"), "how:" + how,
                 "argdt:" + a.get("dt", "f8"), "order:" + a.get("order", "C"))
        if isinstance(y, np.ndarray):
            kept.append(("%s%s.%s" % (name, "." + view if view else "", how), y, y.copy()))
    # history on one operator object: a second, different 1-D vector (and, for square operators, the operator's own output as
    # its next argument - a power iteration); then every result returned earlier must still be what it was
    for view, opv in sorted(views.items()):
        Mv = view_dense(M, view)
        n = Mv.shape[1]
        x1 = (np.arange(n) % 5 - 2.0) / 2.0
        x2 = ((np.arange(n) * 3) % 7 - 3.0) / 4.0
        nm = "%s%s" % (name, "." + view if view else "")
        y1 = ctx.sut(do_apply, opv, x1, "dot", what=nm + ".dot(first vector)")
        y2 = ctx.sut(do_apply, opv, x2, "dot", what=nm + ".dot(second vector)")
        sc = float(np.max(np.abs(Mv).dot(np.abs(x1) + np.abs(x2)))) if Mv.size else 0.0
        ctx.close(name + ":earlier_result_kept", y1, Mv.dot(x1), rtol=rtol_for(*dts), scale=sc, what="view=%r, after a second dot" % view)
        ctx.close(name + ":value", y2, Mv.dot(x2), rtol=rtol_for(*dts), scale=sc, what="view=%r second vector" % view)
        if Mv.shape[0] == Mv.shape[1] and n > 0:
            z = ctx.sut(do_apply, opv, y2, "dot", what=nm + ".dot(own output)")
            ref = Mv.dot(Mv.dot(x2))
            sc2 = float(np.max(np.abs(Mv).dot(np.abs(Mv).dot(np.abs(x2))))) if Mv.size else 0.0
            ctx.close(name + ":applied_to_own_output", z, ref, rtol=10 * rtol_for(*dts), scale=sc2, what="view=%r" % view)
            ctx.flag("applied_to_own_output")
    for what, live, snap in kept:
        if not np.array_equal(live, snap, equal_nan=True):
            raise Violation(name + ":earlier_result_kept", "the array returned by %s changed when the operator was applied again" % what)


def any_mat_arg(apps):
    return any(a["form"] == "mat" for a in apps)


# =============================================================================================
# strategies for the shared pieces

def st_dt():
    return st.sampled_from(["f8", "f8", "f8", "f8", "f4", "i8"])


@st.composite
def st_matrix(draw, m, n, kinds=ALL_KINDS, dts=None, lo=-6, hi=6):
    kind = draw(st.sampled_from(kinds))
    if kind in ("p_ident", "p_diag") and m != n:
        kind = "linop"
    e = draw(st.lists(st.integers(lo, hi), min_size=m * n, max_size=m * n))
    dt = draw(st_dt() if dts is None else st.sampled_from(dts))
    den = 1 if dt == "i8" else draw(st.sampled_from([1, 2, 4]))
    ms = {"kind": kind, "m": m, "n": n, "e": e, "dt": dt, "den": den}
    if kind in SPARSE_KINDS:
        ms["xz"] = draw(st.booleans())
        ms["rev"] = draw(st.booleans())
    return ms


@st.composite
def st_arg(draw, views=VIEWS, forms=("vec", "col", "mat"), dts=None):
    form = draw(st.sampled_from(forms))
    a = {"form": form, "k": draw(st.integers(2, 4)), "seed": draw(st.integers(0, 9999)),
         "order": draw(st.sampled_from(["C", "C", "F", "strided"])),
         "dt": draw(st_dt() if dts is None else st.sampled_from(dts)),
         "how": draw(st.sampled_from(["dot", "dot", "matmul", "mul", "call"])),
         "view": draw(st.sampled_from(views))}
    return a


def st_apps(**kw):
    return st.lists(st_arg(**kw), min_size=1, max_size=3)


# =============================================================================================
# 1. KroneckerOperator

def check_kron(spec, ctx):
    from pyiga import operators
    objs, dens = zip(*[build_matrix(ms) for ms in spec["factors"]])
    M = reduce(np.kron, dens)
    op = ctx.sut(operators.KroneckerOperator, *objs, what="KroneckerOperator")
    check_apps(ctx, op, M, spec["apps"], "KroneckerOperator", dts=[ms["dt"] for ms in spec["factors"]])
    kinds = set(ms["kind"] for ms in spec["factors"])
    rect = any(ms["m"] != ms["n"] for ms in spec["factors"])
    ctx.flag("nfactors:%d" % len(objs), "mixed_kinds" if len(kinds) > 1 else "single_kind",
             "rectangular" if rect else "all_square",
             "alldense" if kinds == {"nd"} else "not_alldense",
             "path:linops" if (kinds != {"nd"} and not rect) else "path:dense")
    for k in kinds:
        ctx.flag("kind:" + k)
    ctx.nontrivial = len(kinds) > 1 or rect or any_mat_arg(spec["apps"]) or len(objs) >= 3


@st.composite
def strat_kron(draw):
    nf = draw(st.sampled_from([1, 2, 2, 3, 3, 4]))
    square = draw(st.sampled_from([False, False, True]))
    mode = draw(st.sampled_from(["any", "any", "nd", "nonnd"]))
    kinds = {"any": ALL_KINDS + ("linop_sp", "p_ident", "p_diag"), "nd": ("nd",),
             "nonnd": ALL_KINDS[1:] + ("p_diag",)}[mode]
    fs = []
    for _ in range(nf):
        m = draw(st.integers(1, 4))
        n = m if square else draw(st.integers(1, 4))
        fs.append(draw(st_matrix(m, n, kinds=kinds)))
    return {"factors": fs, "apps": draw(st_apps())}


# =============================================================================================
# 2. kronecker.apply_kronecker (documented for square operands)

def check_apply_kronecker(spec, ctx):
    from pyiga import kronecker
    objs, dens = zip(*[build_matrix(ms) for ms in spec["factors"]])
    M = reduce(np.kron, dens)
    ops = list(objs) if spec.get("seq") == "list" else tuple(objs)
    for a in spec["apps"]:
        x, xv = build_arg(a, M.shape[1])
        keep = x.copy()
        y = ctx.sut(kronecker.apply_kronecker, ops, x, what="apply_kronecker")
        ref = M.dot(xv)
        scale = float(np.max(np.abs(M).dot(np.abs(xv))))
        ctx.close("apply_kronecker:value", y, ref, scale=scale,
                  rtol=rtol_for(a.get("dt", "f8"), *[ms["dt"] for ms in spec["factors"]]),
                  what="arg=%s/%s" % (a["form"], a.get("order", "C")))
        ctx.require("apply_kronecker:arg_unchanged", np.array_equal(x, keep), "argument modified in place")
        ctx.flag("arg:" + a["form"], "order:" + a.get("order", "C"))
    kinds = set(ms["kind"] for ms in spec["factors"])
    ctx.flag("nfactors:%d" % len(objs), "alldense" if kinds == {"nd"} else "path:linops",
             "mixed_kinds" if len(kinds) > 1 else "single_kind")
    ctx.nontrivial = len(kinds) > 1 or any_mat_arg(spec["apps"]) or len(objs) >= 3


@st.composite
def strat_apply_kronecker(draw):
    nf = draw(st.sampled_from([1, 2, 2, 3, 3, 4]))
    mode = draw(st.sampled_from(["any", "any", "nd"]))
    kinds = ALL_KINDS + ("linop_sp", "p_ident", "p_diag") if mode == "any" else ("nd",)
    fs = []
    for _ in range(nf):
        m = draw(st.integers(1, 4))
        fs.append(draw(st_matrix(m, m, kinds=kinds)))
    return {"factors": fs, "seq": draw(st.sampled_from(["list", "tuple"])),
            "apps": draw(st_apps(views=("",)))}


# =============================================================================================
# 3. tensor.apply_tprod / tensor.modek_tprod

def _tensor_from(spec, shape):
    rs = np.random.RandomState(int(spec["seed"]))
    dt = spec.get("dt", "f8")
    vals = rs.randint(-8, 9, size=shape).astype(np.float64)
    if dt != "i8":
        vals = vals / 4.0
    tdt = NP_DT[dt]
    order = spec.get("order", "C")
    if order == "F":
        X = np.asfortranarray(vals.astype(tdt))
    elif order == "T":   # a transposed view of a C array (neither C- nor F-contiguous in general)
        perm = tuple(reversed(range(len(shape))))
        base = np.ascontiguousarray(np.transpose(vals, perm).astype(tdt))
        X = np.transpose(base, perm)
    else:
        X = np.ascontiguousarray(vals.astype(tdt))
    assert X.shape == tuple(shape)
    return X, vals


def check_tprod(spec, ctx):
    from pyiga import tensor
    if spec["fn"] == "apply_tprod":
        objs, dens, in_dims, out_dims = [], [], [], []
        for o in spec["ops"]:
            if "none" in o:
                objs.append(None)
                dens.append(np.eye(o["none"]))
                in_dims.append(o["none"])
                out_dims.append(o["none"])
            else:
                ob, D = build_matrix(o)
                objs.append(ob)
                dens.append(D)
                in_dims.append(o["n"])
                out_dims.append(o["m"])
        trail = list(spec["trail"])
        X, Xv = _tensor_from(spec, tuple(in_dims) + tuple(trail))
        keep = X.copy()
        ops = list(objs) if spec.get("seq") == "list" else tuple(objs)
        Y = ctx.sut(tensor.apply_tprod, ops, X, what="apply_tprod")
        # definition: the Kronecker product of the matrices applied to the (C-order) vectorisation
        M = reduce(np.kron, dens)
        nt = int(np.prod(trail)) if trail else 1
        flat = Xv.reshape(int(np.prod(in_dims)), nt)
        ref = M.dot(flat).reshape(tuple(out_dims) + tuple(trail))
        scale = float(np.max(np.abs(M).dot(np.abs(flat))))
        dts = [o.get("dt", "f8") for o in spec["ops"] if "none" not in o]
        ctx.close("apply_tprod:value", Y, ref, rtol=rtol_for(spec.get("dt", "f8"), *dts), scale=scale)
        ctx.require("apply_tprod:arg_unchanged", np.array_equal(X, keep), "tensor modified in place")
        nnone = sum(1 for o in spec["ops"] if "none" in o)
        kinds = set(o["kind"] for o in spec["ops"] if "none" not in o)
        rect = any("none" not in o and o["m"] != o["n"] for o in spec["ops"])
        ctx.flag("apply_tprod", "nops:%d" % len(ops), "trailing:%d" % len(trail),
                 "placeholders:%s" % ("all" if nnone == len(ops) else ("some" if nnone else "none")),
                 "rectangular" if rect else "all_square", "order:" + spec.get("order", "C"),
                 "mixed_kinds" if len(kinds) > 1 else "single_kind")
        for k in kinds:
            ctx.flag("kind:" + k)
        ctx.nontrivial = len(kinds) > 1 or rect or bool(trail) or nnone > 0 or len(ops) >= 3
    else:
        B, D = build_matrix(spec["B"])
        shape = list(spec["shape"])
        k = int(spec["k"])
        shape[k] = spec["B"]["n"]
        X, Xv = _tensor_from(spec, tuple(shape))
        keep = X.copy()
        Y = ctx.sut(tensor.modek_tprod, B, k, X, what="modek_tprod")
        # definition: Y[i0..,j,..] = sum_l B[j,l] X[i0..,l,..]  ==  (I x .. x B x .. x I) vec(X)
        M = reduce(np.kron, [D if i == k else np.eye(shape[i]) for i in range(len(shape))])
        oshape = list(shape)
        oshape[k] = spec["B"]["m"]
        ref = M.dot(Xv.reshape(-1)).reshape(oshape)
        scale = float(np.max(np.abs(M).dot(np.abs(Xv.reshape(-1)))))
        ctx.close("modek_tprod:value", Y, ref, rtol=rtol_for(spec.get("dt", "f8"), spec["B"]["dt"]), scale=scale)
        ctx.require("modek_tprod:arg_unchanged", np.array_equal(X, keep), "tensor modified in place")
        ctx.flag("modek_tprod", "ndim:%d" % len(shape), "mode:%d" % k, "kind:" + spec["B"]["kind"],
                 "rectangular" if spec["B"]["m"] != spec["B"]["n"] else "square", "order:" + spec.get("order", "C"))
        ctx.nontrivial = len(shape) >= 2


@st.composite
def strat_tprod(draw):
    common = {"seed": draw(st.integers(0, 9999)), "order": draw(st.sampled_from(["C", "C", "F", "T"])),
              "dt": draw(st_dt())}
    if draw(st.integers(0, 3)) > 0:
        nops = draw(st.sampled_from([1, 2, 2, 3, 3, 4]))
        pnone = draw(st.sampled_from([0, 0, 1, 1, 1, 2, 2, 4]))     # 4: placeholders only
        ops = []
        for _ in range(nops):
            if draw(st.integers(1, 4)) <= pnone:
                ops.append({"none": draw(st.integers(1, 4))})
            else:
                ops.append(draw(st_matrix(draw(st.integers(1, 4)), draw(st.integers(1, 4)),
                                          kinds=ALL_KINDS + ("linop_sp",))))
        ntrail = draw(st.sampled_from([0, 0, 1, 1, 2]))
        trail = [draw(st.sampled_from([1, 2, 3])) for _ in range(ntrail)]
        d = {"fn": "apply_tprod", "ops": ops, "trail": trail, "seq": draw(st.sampled_from(["list", "tuple"]))}
    else:
        nd = draw(st.sampled_from([1, 2, 2, 3, 3, 4]))
        shape = [draw(st.integers(1, 4)) for _ in range(nd)]
        k = draw(st.sampled_from(list(range(nd))))
        B = draw(st_matrix(draw(st.integers(1, 4)), shape[k], kinds=ALL_KINDS + ("linop_sp",)))
        d = {"fn": "modek_tprod", "shape": shape, "k": k, "B": B}
    d.update(common)
    return d


# =============================================================================================
# 4. BlockOperator / BlockDiagonalOperator

def _build_block(b, h, w):
    from pyiga import operators
    kind = b["kind"]
    if kind == "null":
        return operators.NullOperator((h, w)), np.zeros((h, w))
    if kind == "ident":
        return operators.IdentityOperator(h), np.eye(h)
    if kind == "diag":
        d = np.array(b["e"][:h], dtype=float) / b.get("den", 1)
        return operators.DiagonalOperator(d), np.diag(d)
    ms = dict(b, m=h, n=w, e=b["e"][:h * w])
    return build_matrix(ms)


def check_block(spec, ctx):
    from pyiga import operators
    if spec["layout"] == "block":
        rows, cols = spec["rows"], spec["cols"]
        objs, dens = [], []
        for i, h in enumerate(rows):
            ro, rd = [], []
            for j, w in enumerate(cols):
                o, D = ctx.sut(_build_block, spec["blocks"][i][j], h, w, what="block constructor")
                ro.append(o)
                rd.append(D)
            objs.append(ro)
            dens.append(rd)
        M = np.block(dens)
        op = ctx.sut(operators.BlockOperator, objs, what="BlockOperator")
        name = "BlockOperator"
        flat = [b for r in spec["blocks"] for b in r]
        nnull = sum(1 for b in flat if b["kind"] == "null")
        ctx.flag("layout:%dx%d" % (len(rows), len(cols)),
                 "nullblocks:%s" % ("all" if nnull == len(flat) else ("some" if nnull else "none")))
        if any(b["kind"] == "null" for b in spec["blocks"][0]) or any(r[0]["kind"] == "null" for r in spec["blocks"]):
            ctx.flag("null_in_first_row_or_col")
        rect = len(set(rows)) > 1 or len(set(cols)) > 1 or rows != cols
    else:
        objs, dens = [], []
        for b in spec["diag"]:
            o, D = ctx.sut(_build_block, b, b["m"], b["n"], what="block constructor")
            objs.append(o)
            dens.append(D)
        flat = spec["diag"]
        mt, nt = sum(D.shape[0] for D in dens), sum(D.shape[1] for D in dens)
        M = np.zeros((mt, nt))
        i0 = j0 = 0
        for D in dens:
            M[i0:i0 + D.shape[0], j0:j0 + D.shape[1]] = D
            i0 += D.shape[0]
            j0 += D.shape[1]
        op = ctx.sut(operators.BlockDiagonalOperator, *objs, what="BlockDiagonalOperator")
        name = "BlockDiagonalOperator"
        ctx.flag("ndiag:%d" % len(objs))
        rect = any(b["m"] != b["n"] for b in flat)
    check_apps(ctx, op, M, spec["apps"], name, dts=[b.get("dt", "f8") for b in flat])
    kinds = set(b["kind"] for b in flat)
    for k in kinds:
        ctx.flag("kind:" + k)
    ctx.flag(name, "rectangular" if rect else "square_uniform", "mixed_kinds" if len(kinds) > 1 else "single_kind")
    ctx.nontrivial = len(kinds) > 1 or rect or any_mat_arg(spec["apps"]) or len(flat) >= 3


BLOCK_KINDS = ("nd", "nd", "csr", "csc", "linop", "linop_mv", "null", "null")


@st.composite
def st_block(draw, h, w, allow_null=True):
    kinds = list(BLOCK_KINDS if allow_null else [k for k in BLOCK_KINDS if k != "null"])
    if h == w:
        kinds += ["ident", "diag"]
    kind = draw(st.sampled_from(kinds))
    if kind in ("null", "ident"):
        return {"kind": kind}
    if kind == "diag":
        return {"kind": kind, "e": draw(st.lists(st.integers(-6, 6), min_size=h, max_size=h)), "den": 2}
    ms = draw(st_matrix(h, w, kinds=(kind,)))
    del ms["m"], ms["n"]
    return ms


@st.composite
def strat_block(draw):
    if draw(st.integers(0, 2)) > 0:
        rows = draw(st.lists(st.integers(1, 3), min_size=1, max_size=3))
        cols = draw(st.lists(st.integers(1, 3), min_size=1, max_size=3))
        blocks = [[draw(st_block(h, w)) for w in cols] for h in rows]
        d = {"layout": "block", "rows": rows, "cols": cols, "blocks": blocks}
    else:
        nb = draw(st.integers(1, 4))
        diag = []
        for _ in range(nb):
            m, n = draw(st.integers(1, 4)), draw(st.integers(1, 4))
            b = draw(st_block(m, n, allow_null=draw(st.integers(0, 5)) == 0))
            b["m"], b["n"] = m, n
            diag.append(b)
        d = {"layout": "diag", "diag": diag}
    d["apps"] = draw(st_apps())
    return d


# =============================================================================================
# 5. DiagonalOperator / IdentityOperator / NullOperator

def check_simple(spec, ctx):
    from pyiga import operators
    cls = spec["cls"]
    dts = []
    if cls == "diag":
        dt = spec.get("dt", "f8")
        dts = [dt]
        dv = np.array(spec["e"], dtype=np.float64) / (1 if dt == "i8" else spec.get("den", 1))
        d = dv.astype(NP_DT[dt])
        shp = spec.get("shape", "1d")
        if shp == "col":
            d = d.reshape(-1, 1)
        elif shp == "row":
            d = d.reshape(1, -1)
        op = ctx.sut(operators.DiagonalOperator, d, what="DiagonalOperator")
        M = np.diag(dv)
        ctx.flag("diag_shape:" + shp, "n=1" if len(dv) == 1 else "n>1")
    elif cls == "ident":
        kw = {} if spec.get("dt") is None else {"dtype": NP_DT[spec["dt"]]}
        op = ctx.sut(operators.IdentityOperator, spec["n"], what="IdentityOperator", **kw)
        M = np.eye(spec["n"])
    else:
        kw = {} if spec.get("dt") is None else {"dtype": NP_DT[spec["dt"]]}
        op = ctx.sut(operators.NullOperator, (spec["m"], spec["n"]), what="NullOperator", **kw)
        M = np.zeros((spec["m"], spec["n"]))
        ctx.flag("rectangular" if spec["m"] != spec["n"] else "square")
    check_apps(ctx, op, M, spec["apps"], {"diag": "DiagonalOperator", "ident": "IdentityOperator",
                                         "null": "NullOperator"}[cls], dts=dts)
    ctx.flag("cls:" + cls)
    ctx.nontrivial = any_mat_arg(spec["apps"]) or any(a.get("view") for a in spec["apps"])


@st.composite
def strat_simple(draw):
    cls = draw(st.sampled_from(["diag", "diag", "ident", "null"]))
    if cls == "diag":
        n = draw(st.integers(1, 5))
        dt = draw(st_dt())
        d = {"cls": cls, "e": draw(st.lists(st.integers(-6, 6), min_size=n, max_size=n)), "dt": dt,
             "den": 1 if dt == "i8" else draw(st.sampled_from([1, 2, 4])),
             "shape": draw(st.sampled_from(["1d", "1d", "col", "row"]))}
    elif cls == "ident":
        d = {"cls": cls, "n": draw(st.integers(1, 5)), "dt": draw(st.sampled_from([None, None, "f8", "f4", "i8"]))}
    else:
        d = {"cls": cls, "m": draw(st.integers(1, 5)), "n": draw(st.integers(1, 5)),
             "dt": draw(st.sampled_from([None, None, "f8", "f4", "i8"]))}
    d["apps"] = draw(st_apps())
    return d


# =============================================================================================
# 6. SubspaceOperator

def check_subspace(spec, ctx):
    from pyiga import operators
    n = spec["n"]
    Ps, Bs, M = [], [], np.zeros((n, n))
    for s in spec["subspaces"]:
        P, Pd = build_matrix(s["P"])
        B, Bd = build_matrix(s["B"])
        Ps.append(P)
        Bs.append(B)
        M = M + Pd.dot(Bd).dot(Pd.T)
    seq = tuple if spec.get("seq") == "tuple" else list
    op = ctx.sut(operators.SubspaceOperator, seq(Ps), seq(Bs), what="SubspaceOperator")
    dts = [s["P"]["dt"] for s in spec["subspaces"]] + [s["B"]["dt"] for s in spec["subspaces"]]
    check_apps(ctx, op, M, spec["apps"], "SubspaceOperator", dts=dts)
    kinds = set(s["P"]["kind"] for s in spec["subspaces"]) | set(s["B"]["kind"] for s in spec["subspaces"])
    for k in kinds:
        ctx.flag("kind:" + k)
    ctx.flag("nsub:%d" % len(Ps), "n=%d" % n if n <= 1 else "n>1", "family:" + spec.get("family", "general"),
             "mixed_kinds" if len(kinds) > 1 else "single_kind")
    ctx.nontrivial = len(kinds) > 1 or any_mat_arg(spec["apps"]) or len(Ps) >= 2


@st.composite
def strat_subspace(draw):
    n = draw(st.integers(1, 5))
    k = draw(st.integers(1, 3))
    family = draw(st.sampled_from(["general", "selection", "partition"]))
    subs = []
    perm = draw(st.permutations(list(range(n))))
    for j in range(k):
        if family == "general":
            nj = draw(st.integers(1, 3))
            P = draw(st_matrix(n, nj, kinds=("nd", "csr", "csc"), dts=("f8", "f8", "f8", "i8"), lo=-2, hi=2))
        else:
            if family == "selection":
                idx = draw(st.lists(st.integers(0, n - 1), min_size=1, max_size=min(3, n), unique=True))
            else:   # consecutive chunks of a permutation (disjoint, may leave dofs uncovered)
                chunk = max(1, (n + k - 1) // k)
                idx = list(perm[j * chunk:(j + 1) * chunk]) or [perm[0]]
            nj = len(idx)
            e = [0] * (n * nj)
            for c, i in enumerate(idx):
                e[i * nj + c] = 1
            P = {"kind": draw(st.sampled_from(["nd", "csr", "csc"])), "m": n, "n": nj, "e": e,
                 "dt": draw(st.sampled_from(["f8", "f8", "i8"])), "den": 1, "xz": False, "rev": False}
        B = draw(st_matrix(nj, nj, kinds=ALL_KINDS, dts=("f8", "f8", "f8", "f4", "i8"), lo=-4, hi=4))
        subs.append({"P": P, "B": B})
    return {"n": n, "family": family, "subspaces": subs, "seq": draw(st.sampled_from(["list", "tuple"])),
            "apps": draw(st_apps(views=("", "", "T", "H", "TT", "TH", "HT")))}


# =============================================================================================
# 7. make_solver / make_kronecker_solver

def _solver_matrix(ms):
    """Well-conditioned integer-valued test matrices of a prescribed class (construction, not rejection)."""
    n = ms["n"]
    R = np.array(ms["e"], dtype=np.float64).reshape(n, n)
    cls, mode = ms["cls"], ms.get("mode", "dd")
    sg = np.array([1.0 if s else -1.0 for s in ms["signs"]])
    if cls == "gen":
        if mode == "dd":     # strictly diagonally dominant, signs of the diagonal mixed
            B = R.copy()
            off = np.sum(np.abs(R), axis=1) - np.abs(np.diag(R))
            B[np.arange(n), np.arange(n)] = sg * (off + 1 + np.abs(np.diag(R)))
        else:                # raw integer matrix, kept only if clearly nonsingular (checked by caller)
            B = R.copy()
    elif cls == "sym":
        S = R + R.T
        if mode == "dd":     # symmetric, diagonally dominant with mixed signs => indefinite, invertible
            off = np.sum(np.abs(S), axis=1) - np.abs(np.diag(S))
            S[np.arange(n), np.arange(n)] = sg * (off + 1)
        B = S
    else:                    # spd
        if mode == "dd":
            S = R + R.T
            off = np.sum(np.abs(S), axis=1) - np.abs(np.diag(S))
            S[np.arange(n), np.arange(n)] = off + 1 + np.abs(np.diag(R))
            B = S
        else:
            B = R.T.dot(R) + np.eye(n)
    return B


def _as_kind(B, kind, ms):
    if kind == "nd":
        return B.copy()
    if kind in SPARSE_KINDS:
        return _compressed(B, kind, bool(ms.get("xz")), bool(ms.get("rev")))
    if kind == "coo":
        return scipy.sparse.coo_matrix(B)
    raise ValueError(kind)


def check_solver(spec, ctx):
    from pyiga import operators
    Bs = []
    for ms in spec["mats"]:
        B = _solver_matrix(ms)
        if np.linalg.matrix_rank(B) < B.shape[0] or np.linalg.cond(B) > 1e6:
            raise Skip("matrix singular or ill-conditioned")
        Bs.append(B)
    objs = [_as_kind(B, ms["kind"], ms) for B, ms in zip(Bs, spec["mats"])]
    if spec["fn"] == "make_solver":
        ms = spec["mats"][0]
        kw = {}
        if spec.get("symmetric") is not None:
            kw["symmetric"] = bool(spec["symmetric"])
        if spec.get("spd") is not None:
            kw["spd"] = bool(spec["spd"])
        # flags are only passed when they are true statements about the matrix
        assert not (kw.get("spd") and ms["cls"] != "spd")
        assert not (kw.get("symmetric") and ms["cls"] == "gen")
        op = ctx.sut(operators.make_solver, objs[0], what="make_solver", **kw)
        A = Bs[0]
        name = "make_solver"
        ctx.flag("cls:" + ms["cls"], "kind:" + ms["kind"], "flags:sym=%s,spd=%s" % (kw.get("symmetric"), kw.get("spd")),
                 "n=1" if ms["n"] == 1 else "n>1")
        if ms["cls"] == "sym" and np.any(np.linalg.eigvalsh(A) < 0) and kw.get("symmetric"):
            ctx.flag("symmetric_flag_on_indefinite")
    else:
        op = ctx.sut(operators.make_kronecker_solver, *objs, what="make_kronecker_solver")
        A = reduce(np.kron, Bs)
        name = "make_kronecker_solver"
        kinds = set(ms["kind"] for ms in spec["mats"])
        ctx.flag("nfactors:%d" % len(Bs), "mixed_kinds" if len(kinds) > 1 else "single_kind")
        for k in kinds:
            ctx.flag("kind:" + k)
    ctx.require(name + ":shape", tuple(int(s) for s in op.shape) == A.shape, "shape %r" % (tuple(op.shape),))
    cond = float(np.linalg.cond(A, np.inf))
    for a in spec["apps"]:
        b, bv = build_arg(a, A.shape[0])
        keep = b.copy()
        how = a.get("how", "dot")
        y = ctx.sut(do_apply, op, b, how, what=name + "." + how)
        ya = np.asarray(y, dtype=float) if not scipy.sparse.issparse(y) else y.toarray()
        ctx.require(name + ":result_shape", ya.shape == bv.shape, "result shape %r for argument %r" % (ya.shape, bv.shape))
        ctx.require(name + ":finite", bool(np.all(np.isfinite(ya))), "non-finite solution")
        res = A.dot(ya) - bv
        # backward-stable solve: |A y - b| <~ n eps |A||y| <= n eps cond |b|; wrong operators are off by O(|b|)
        tol_scale = cond * max(float(np.max(np.abs(bv))), 1e-300)
        ctx.close(name + ":residual", res, np.zeros_like(res), rtol=0, atol=1e-10 * tol_scale,
                  what="arg=%s how=%s" % (a["form"], how))
        if np.any(bv):
            ref = np.linalg.solve(A, bv)
            ctx.close(name + ":solution", ya, ref, rtol=0, atol=1e-9 * cond * max(float(np.max(np.abs(ref))), 1e-300))
        ctx.require(name + ":arg_unchanged", np.array_equal(b, keep), "right-hand side modified in place")
        ctx.flag("arg:" + a["form"], "how:" + how, "order:" + a.get("order", "C"))
    ctx.flag(name)
    ctx.nontrivial = any_mat_arg(spec["apps"]) or any(ms["kind"] != "nd" for ms in spec["mats"]) or \
        len(spec["mats"]) >= 2 or spec["mats"][0]["cls"] != "gen"


@st.composite
def st_solver_matrix(draw, nmax, kinds):
    n = draw(st.integers(1, nmax))
    cls = draw(st.sampled_from(["gen", "sym", "spd"]))
    ms = {"n": n, "cls": cls, "mode": draw(st.sampled_from(["dd", "dd", "raw"])),
          "e": draw(st.lists(st.integers(-4, 4), min_size=n * n, max_size=n * n)),
          "signs": draw(st.lists(st.booleans(), min_size=n, max_size=n)),
          "kind": draw(st.sampled_from(kinds))}
    if ms["kind"] in SPARSE_KINDS:
        ms["xz"] = draw(st.booleans())
        ms["rev"] = draw(st.booleans())
    return ms


@st.composite
def strat_solver(draw):
    apps = draw(st_apps(views=("",), dts=("f8",)))
    if draw(st.integers(0, 2)) > 0:
        ms = draw(st_solver_matrix(6, ("nd", "nd", "csr", "csc", "coo")))
        if ms["cls"] == "gen":
            flags = [(None, None), (False, False), (False, None)]
        elif ms["cls"] == "sym":
            flags = [(None, None), (True, None), (True, False), (True, None)]
        else:
            flags = [(None, None), (True, None), (None, True), (True, True), (False, True)]
        sym, spd = draw(st.sampled_from(flags))
        return {"fn": "make_solver", "mats": [ms], "symmetric": sym, "spd": spd, "apps": apps}
    nf = draw(st.sampled_from([1, 2, 2, 3]))
    mats = [draw(st_solver_matrix(4 if nf < 3 else 3, ("nd", "nd", "csr", "csc"))) for _ in range(nf)]
    return {"fn": "make_kronecker_solver", "mats": mats, "apps": apps}


# =============================================================================================
# 8. solvers.fastdiag_solver

def _fd_pair(p):
    """(K, M) symmetric, M SPD, K SPD or PSD, as dense float64 arrays."""
    n = p["n"]
    if p["mode"] == "fem":     # P1 finite elements on a non-uniform mesh with n+1 (Dirichlet) or n-1 (Neumann) cells
        neu = p.get("neumann", False) and n >= 2
        h = np.array(p["h"], dtype=float)[: (n - 1 if neu else n + 1)] / 4.0
        nn = len(h) + 1
        K = np.zeros((nn, nn))
        M = np.zeros((nn, nn))
        for c, hc in enumerate(h):
            K[c:c + 2, c:c + 2] += np.array([[1, -1], [-1, 1]]) / hc
            M[c:c + 2, c:c + 2] += np.array([[2, 1], [1, 2]]) * hc / 6
        if not neu:
            K, M = K[1:-1, 1:-1], M[1:-1, 1:-1]
        return K, M, neu
    Rk = np.array(p["k"], dtype=float).reshape(n, n)
    Rm = np.array(p["m"], dtype=float).reshape(n, n)
    return Rk.T.dot(Rk) + np.eye(n), (Rm.T.dot(Rm) + 2 * np.eye(n)) / 2.0, False


def check_fastdiag(spec, ctx):
    from pyiga import solvers
    KM, psd = [], []
    for p in spec["KM"]:
        K, M, neu = _fd_pair(p)
        KM.append((K, M))
        psd.append(neu)
    if all(psd):
        raise Skip("all stiffness factors singular: generalized Laplacian not invertible")
    dim = len(KM)
    A = sum(reduce(np.kron, [KM[j][0] if j == d else KM[j][1] for j in range(dim)]) for d in range(dim))
    cond = float(np.linalg.cond(A, np.inf))
    if cond > 1e7:
        raise Skip("ill-conditioned")
    seq = tuple if spec.get("seq") == "tuple" else list
    inp = seq((K.copy(), M.copy()) for (K, M) in KM)
    op = ctx.sut(solvers.fastdiag_solver, inp, what="fastdiag_solver")
    ctx.require("fastdiag:shape", tuple(int(s) for s in op.shape) == A.shape, "shape %r" % (tuple(op.shape),))
    for (K0, M0), (K1, M1) in zip(KM, inp):
        ctx.require("fastdiag:inputs_unchanged", np.array_equal(K0, K1) and np.array_equal(M0, M1),
                    "input matrices modified")
    for a in spec["apps"]:
        b, bv = build_arg(a, A.shape[0])
        keep = b.copy()
        how = a.get("how", "dot")
        y = ctx.sut(do_apply, op, b, how, what="fastdiag_solver." + how)
        ya = np.asarray(y, dtype=float)
        ctx.require("fastdiag:result_shape", ya.shape == bv.shape, "result shape %r for argument %r" % (ya.shape, bv.shape))
        res = A.dot(ya) - bv
        tol_scale = cond * max(float(np.max(np.abs(bv))), 1e-300)
        ctx.close("fastdiag:residual", res, np.zeros_like(res), rtol=0, atol=1e-9 * tol_scale,
                  what="arg=%s how=%s" % (a["form"], how))
        ctx.require("fastdiag:arg_unchanged", np.array_equal(b, keep), "right-hand side modified in place")
        ctx.flag("arg:" + a["form"], "how:" + how)
    ctx.flag("dim:%d" % dim, "has_psd_factor" if any(psd) else "all_spd")
    for p, (K, _) in zip(spec["KM"], KM):
        ctx.flag("mode:" + p["mode"], "n=1" if K.shape[0] == 1 else "n>1")
    ctx.nontrivial = dim >= 2 or any_mat_arg(spec["apps"])


@st.composite
def strat_fastdiag(draw):
    dim = draw(st.integers(1, 3))
    nmax = {1: 6, 2: 5, 3: 4}[dim]
    KM = []
    for _ in range(dim):
        n = draw(st.integers(1, nmax))
        if draw(st.booleans()):
            KM.append({"mode": "fem", "n": n, "neumann": draw(st.sampled_from([False, False, True])),
                       "h": draw(st.lists(st.integers(1, 8), min_size=n + 1, max_size=n + 1))})
        else:
            KM.append({"mode": "rand", "n": n,
                       "k": draw(st.lists(st.integers(-3, 3), min_size=n * n, max_size=n * n)),
                       "m": draw(st.lists(st.integers(-2, 2), min_size=n * n, max_size=n * n))})
    return {"KM": KM, "seq": draw(st.sampled_from(["list", "tuple"])),
            "apps": draw(st_apps(views=("",), dts=("f8",)))}


# =============================================================================================
# 9. utils.CSRRowSlice / utils.CSRRowSubset

def check_csr_rows(spec, ctx):
    from pyiga import utils
    ms = dict(spec["A"], kind="csr")
    A, D = build_matrix(ms)
    keepA = A.copy()
    if spec["mode"] == "slice":
        r0, r1 = spec["r0"], spec["r1"]
        bounds = (r0, r1) if spec.get("bounds_as") != "list" else [r0, r1]
        op = ctx.sut(utils.CSRRowSlice, A, bounds, what="CSRRowSlice")
        M = D[r0:r1]
        name = "CSRRowSlice"
        ctx.flag("empty_slice" if r0 == r1 else ("full_slice" if (r0, r1) == (0, D.shape[0]) else "proper_slice"))
    else:
        rows = list(spec["rows"])
        robj = np.array(rows, dtype=int) if spec.get("rows_as") == "array" else (
            tuple(rows) if spec.get("rows_as") == "tuple" else rows)
        op = ctx.sut(utils.CSRRowSubset, A, robj, what="CSRRowSubset")
        M = D[rows] if rows else np.zeros((0, D.shape[1]))
        name = "CSRRowSubset"
        ctx.flag("repeated_rows" if len(set(rows)) < len(rows) else "distinct_rows",
                 "unsorted_rows" if rows != sorted(rows) else "sorted_rows")
    ctx.require(name + ":shape", tuple(int(s) for s in op.shape) == M.shape, "shape %r vs %r" % (op.shape, M.shape))
    for a in spec["apps"]:
        x, xv = build_arg(a, D.shape[1])
        keep = x.copy()
        how = a.get("how", "dot")
        y = ctx.sut((lambda o, v: o * v) if how == "mul" else (lambda o, v: o.dot(v)), op, x, what=name + "." + how)
        ref = M.dot(xv)
        scale = float(np.max(np.abs(M).dot(np.abs(xv)))) if ref.size else 0.0
        ctx.close(name + ":value", y, ref, rtol=rtol_for(a.get("dt", "f8"), ms["dt"]), scale=scale,
                  what="arg=%s/%s/%s" % (a["form"], a.get("order", "C"), a.get("dt", "f8")))
        ctx.require(name + ":arg_unchanged", np.array_equal(x, keep), "argument modified in place")
        ctx.flag("arg:" + a["form"], "order:" + a.get("order", "C"), "dtypes:%s*%s" % (ms["dt"], a.get("dt", "f8")))
    ctx.require(name + ":matrix_unchanged", (A != keepA).nnz == 0 and np.array_equal(A.indices, keepA.indices),
                "the CSR matrix was modified")
    ctx.flag(name, "explicit_zeros" if ms.get("xz") else "pruned", "unsorted_indices" if ms.get("rev") else "sorted_indices")
    ctx.nontrivial = True


@st.composite
def strat_csr_rows(draw):
    m, n = draw(st.integers(1, 6)), draw(st.integers(1, 5))
    A = draw(st_matrix(m, n, kinds=("csr",)))
    # sparsify: zero out about half of the entries
    mask = draw(st.lists(st.booleans(), min_size=m * n, max_size=m * n))
    A["e"] = [v if keep else 0 for v, keep in zip(A["e"], mask)]
    if draw(st.booleans()):
        r0 = draw(st.integers(0, m))
        r1 = draw(st.integers(r0, m))
        d = {"mode": "slice", "r0": r0, "r1": r1, "bounds_as": draw(st.sampled_from(["tuple", "list"])),
             "apps": draw(st_apps(views=("",)))}
    else:
        rows = draw(st.lists(st.integers(0, m - 1), min_size=0, max_size=6))
        d = {"mode": "subset", "rows": rows, "rows_as": draw(st.sampled_from(["list", "array", "tuple"])),
             "apps": draw(st_apps(views=("",), forms=("vec",)))}
    for a in d["apps"]:
        if a["how"] not in ("dot", "mul"):
            a["how"] = "dot"
    d["A"] = A
    return d


# =============================================================================================

SUBCHECKS = [
    Sub("kronecker_operator", check_kron, strategy=lambda tier: strat_kron(), quick=1600, thorough=40000,
        rule="1-4 factors, shapes 1-4, kinds nd/csr/csc/LinearOperator; non-trivial: mixed kinds or rectangular "
             "or matrix argument or >=3 factors", floor=50),
    Sub("apply_kronecker", check_apply_kronecker, strategy=lambda tier: strat_apply_kronecker(), quick=600,
        thorough=15000, rule="square factors (documented domain), list/tuple of operands", shards=8, floor=30),
    Sub("tprod", check_tprod, strategy=lambda tier: strat_tprod(), quick=1000, thorough=25000,
        rule="apply_tprod with None placeholders and 0-2 trailing axes; modek_tprod on 1-4-way tensors", floor=50),
    Sub("block", check_block, strategy=lambda tier: strat_block(), quick=900, thorough=22000,
        rule="1-3 x 1-3 block layouts with NullOperator blocks; 1-4 diagonal blocks; nested pyiga operators", floor=50),
    Sub("simple", check_simple, strategy=lambda tier: strat_simple(), quick=500, thorough=10000,
        rule="Diagonal (diag given as (n,),(n,1),(1,n)) / Identity / Null; non-trivial: matrix argument or a view",
        shards=8, floor=30),
    Sub("subspace", check_subspace, strategy=lambda tier: strat_subspace(), quick=500, thorough=12000,
        rule="general, selection and partition families; n=1..5", shards=8, floor=30),
    Sub("solvers", check_solver, strategy=lambda tier: strat_solver(), quick=600, thorough=15000,
        rule="general / symmetric indefinite / SPD, dense / CSR / CSC / COO, flags only when true; residual oracle",
        shards=8, floor=30),
    Sub("fastdiag", check_fastdiag, strategy=lambda tier: strat_fastdiag(), quick=300, thorough=6000,
        rule="dim 1-3, P1-FEM (Dirichlet/Neumann) and random SPD pairs, dense inputs", shards=8, floor=20),
    Sub("csr_rows", check_csr_rows, strategy=lambda tier: strat_csr_rows(), quick=400, thorough=8000,
        rule="CSR with explicit zeros / unsorted indices; slices incl. empty/full; subsets with repeats", shards=8, floor=30),
]

KNOWN = {}

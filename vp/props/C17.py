"""C17 - interpolation and L2 projection are projections onto the spline space.

Everything the library returns is judged against dense numpy definitions built from the case spec
alone (vp.ref.bspl Cox-de Boor, vp.ref.geo map evaluation, vp.ref.hier hierarchical bases, numpy
Gauss-Legendre rules):

* interpolation: the returned coefficients c satisfy  C c = data  for the reference collocation matrix C
  at the nodes (backward-error tolerance) and equal the known coefficients / the dense reference solve
  (tolerance from the computed condition number of C);
* L2 projection: for data in the space the coefficients are reproduced (tolerance from cond of the
  reference mass matrix); for all data the residual  f - sum c_i phi_i  is orthogonal to every basis
  function in the |det J|-weighted inner product evaluated by the reference quadrature.  Where data, basis
  and weight are piecewise polynomial of low enough degree the reference uses a rule with two more
  nodes per span than needed (i.e. the exact integral); for general data / general geometries it uses the
  rule the property is defined with (max p + 1 Gauss nodes per knot span and direction).
"""
import math

import numpy as np
from hypothesis import strategies as st

from ..core import Sub, Violation, Skip
from ..gen import knots as gk
from ..gen import geo as gg
from ..gen import hspaces as gh
from ..ref import bspl as rb
from ..ref import geo as rg

LEVEL = "exploration"
RULE = ("generated (space, data, geometry, nodes) cases; non-trivial: degree 0, or repeated knots, or dim 3, or "
        "hierarchical, or non-identity geometry, or array-valued data, or custom nodes; distinct by SHA-1 of the spec")
ASSUMPTIONS = [
    "numpy float64 linear algebra (dense solve, cond, leggauss) is trusted",
    "reference basis/geometry evaluators vp/ref/bspl.py, vp/ref/geo.py and the hierarchical model vp/ref/hier.py "
    "(validated against exact rational arithmetic in C02/C04/C05/C07)",
    "orthogonality for non-polynomial data or non-polynomial weights is defined with the Gauss rule of the "
    "property (max p + 1 nodes per span and direction); for piecewise polynomial data the exact integral is used",
    "hierarchical spaces: geometries restricted to identity / affine / 2-D bilinear, data piecewise polynomial on "
    "the level-0 mesh, so that every level-wise Gauss rule is exact and the L2 inner product is unambiguous",
]
EPS = float(np.finfo(float).eps)
PCG_ATOL = 1e-12          # absolute/relative stopping tolerance of the geometry-weighted solve (approx.project_L2)


# ---------------------------------------------------------------------------------------------
# small dense helpers

def cyc(vals, total, div=4.0):
    vals = [float(v) for v in vals] or [0.0]
    reps = total // len(vals) + 1
    return np.array((vals * reps)[:total], dtype=float) / div


def gauss_axis(t, nq):
    """nq Gauss-Legendre nodes/weights on every non-empty knot span (own rule, numpy leggauss)."""
    br = np.unique(np.asarray(t, dtype=float))
    x, w = np.polynomial.legendre.leggauss(int(nq))
    a = br[:-1, None]
    b = br[1:, None]
    nodes = (0.5 * (a + b) + 0.5 * (b - a) * x[None, :]).ravel()
    weights = (0.5 * (b - a) * w[None, :]).ravel()
    return nodes, weights


def kron_all(mats):
    out = np.ones((1, 1))
    for M in mats:
        out = np.kron(out, M)
    return out


def outer_all(vecs):
    out = np.ones(1)
    for v in vecs:
        out = np.multiply.outer(out, np.asarray(v, dtype=float)).ravel()
    return out


def hmin_of(kns):
    h = math.inf
    for t, p in kns:
        d = np.diff(np.unique(t))
        h = min(h, float(np.min(d)))
    return h


def arg_delta(kns, argscale=None):
    """Relative change of B-spline values when the evaluation point moves by a few ulps: the library and
    the reference compute Gauss nodes / Greville points / mapped points by different but equally valid
    float expressions."""
    pmax = max(p for _, p in kns)
    sc = max(max(abs(float(t[0])), abs(float(t[-1]))) for t, _ in kns)
    if argscale is not None:
        sc = max(sc, argscale)
    return 8.0 * EPS * (pmax + 1) * max(sc, 1e-300) / hmin_of(kns)


class SplineFn:
    """Reference tensor-product spline function (vp.ref.bspl); callable in xyz coordinate order with
    broadcastable arrays, like the functions the library accepts."""
    def __init__(self, kns, coeffs):
        self.kns = [(np.asarray(t, dtype=float), int(p)) for t, p in kns]
        self.d = len(self.kns)
        self.co = np.asarray(coeffs, dtype=float)
        self.vshape = self.co.shape[self.d:]

    def grid(self, grid):
        return rb.tp_eval(self.kns, self.co, [np.asarray(g, dtype=float) for g in grid])

    def __call__(self, *X):
        d = self.d
        arrs = [np.asarray(x, dtype=float) for x in X]
        shape = np.broadcast_shapes(*[a.shape for a in arrs])
        sparse = len(shape) == d and all(
            arrs[j].ndim == d and arrs[j].shape[d - 1 - j] == shape[d - 1 - j] and arrs[j].size == shape[d - 1 - j]
            for j in range(d))
        if sparse:
            grid = [arrs[d - 1 - ax].ravel() for ax in range(d)]
            return self.grid(grid)
        full = [np.broadcast_to(a, shape).ravel() for a in arrs]
        pts = np.stack(full[::-1], axis=1) if full[0].size else np.zeros((0, d))
        for ax in range(d):
            t = self.kns[ax][0]
            pts[:, ax] = np.clip(pts[:, ax], t[0], t[-1])
        vals = rb.tp_eval_points(self.kns, self.co, pts)
        return vals.reshape(tuple(shape) + tuple(self.vshape))


class GeneralFn:
    """Closed-form data outside every spline space: per component a product over the used coordinates of
    (quadratic polynomial) x cos(omega s + phi), s the coordinate normalised to [lo, hi]."""
    def __init__(self, dim, vshape, seed, lo, hi, used):
        self.dim = dim
        self.vshape = tuple(vshape)
        self.K = int(np.prod(self.vshape)) if self.vshape else 1
        self.par = cyc(seed, self.K * dim * 5, 4.0).reshape(self.K, dim, 5)
        self.lo = [float(x) for x in lo]
        self.hi = [float(x) for x in hi]
        self.used = [bool(u) for u in used]

    def comp(self, k, X):
        val = 1.0 + 0.25 * k
        for j in range(self.dim):
            if not self.used[j]:
                continue
            s = (np.asarray(X[j], dtype=float) - self.lo[j]) / (self.hi[j] - self.lo[j])
            a, b, c, om, ph = self.par[k, j]
            val = val * ((1.0 + 0.5 * a) + b * s + c * s * s) * np.cos(om * s + ph)
        return val

    def stacked(self, *X):
        shape = np.broadcast_shapes(*[np.shape(x) for x in X])
        comps = [np.broadcast_to(np.asarray(self.comp(k, X), dtype=float), shape) for k in range(self.K)]
        if not self.vshape:
            return np.array(comps[0])
        return np.stack(comps, axis=-1).reshape(tuple(shape) + self.vshape)

    def natural(self, *X):
        """What a user-written lambda returns: un-broadcast results (possibly Python floats), a tuple for
        vector-valued data."""
        if not self.vshape:
            return self.comp(0, X)
        return tuple(self.comp(k, X) for k in range(self.K))


def mesh_xyz(grid):
    """Full coordinate arrays in xyz order for a tensor grid given in axis (zyx) order."""
    M = np.meshgrid(*grid, indexing="ij")
    return M[::-1]


class Quad:
    """Dense reference quadrature: Phi[q, i] = phi_i(x_q) (tensor basis, C order), W[q] = weight x |det J|."""
    def __init__(self, kns, nq, georef=None):
        self.kns = kns
        self.grid, ws, Cs = [], [], []
        for (t, p) in kns:
            x, w = gauss_axis(t, nq)
            self.grid.append(x)
            ws.append(w)
            Cs.append(rb.colloc(t, p, x))
        self.Phi = kron_all(Cs)
        self.W = outer_all(ws)
        self.shape = tuple(len(g) for g in self.grid)
        if georef is not None:
            val, jac = georef.on_grid(self.grid, 1)
            self.phys = val
            det = np.abs(np.linalg.det(jac)).ravel()
            self.W = self.W * det
            self.detratio = float(det.max() / det.min())
        else:
            self.phys = None
            self.detratio = 1.0


# ---------------------------------------------------------------------------------------------
# data

@st.composite
def data_spec(draw, dim, kinds, forms, vshapes=((), (), (2,), (3,), (2, 2))):
    kind = draw(st.sampled_from(kinds))
    vs = list(draw(st.sampled_from(vshapes)))
    ok = [f for f in forms if not (f == "tuple" and len(vs) != 1) and not (f == "object" and kind != "inspace")
          and not (f == "natural" and (kind != "general" or len(vs) > 1))]
    form = draw(st.sampled_from(ok))
    spec = {"kind": kind, "vshape": vs, "as": form, "seed": [draw(st.integers(-12, 12)) for _ in range(17)]}
    if kind == "pp":
        spec["elev"] = draw(st.integers(0, 1))
        spec["msel"] = [draw(st.integers(0, 7)) for _ in range(5)]
    if kind == "general":
        spec["used"] = [draw(st.sampled_from([True, True, True, False])) for _ in range(dim)]
    return spec


def pp_knots(kns, dspec, elev=None):
    """Knot vectors of the enlarged piecewise polynomial space: same breaks, degree p+elev, interior
    multiplicities 1..p+elev+1 (the last one = discontinuous)."""
    e = dspec["elev"] if elev is None else elev
    out = []
    k = 0
    for (t, p) in kns:
        br = np.unique(t)
        q = p + e
        kn = [br[0]] * (q + 1)
        for x in br[1:-1]:
            m = 1 + dspec["msel"][k % len(dspec["msel"])] % (q + 1)
            k += 1
            kn += [x] * m
        kn += [br[-1]] * (q + 1)
        out.append((np.array(kn, dtype=float), q))
    return out


class Data:
    """param_values(grid): reference values of the (pulled back) data on a tensor grid in the parameter
    domain, shape grid + vshape.  f: what is handed to the library."""
    pass


def build_data(dspec, kns, pyiga_kvs=None, geo=None, physical=False, max_elev=1):
    """geo = (georef, affine) with affine = (A, b) or None.  physical: the data is a function of the
    physical coordinates."""
    d = len(kns)
    vs = tuple(dspec["vshape"])
    K = int(np.prod(vs)) if vs else 1
    kind = dspec["kind"]
    form = dspec["as"]
    D = Data()
    D.kind, D.vshape, D.K, D.form = kind, vs, K, form
    D.cstar = None
    D.argscale = None
    if kind in ("inspace", "pp"):
        dk = kns if kind == "inspace" else pp_knots(kns, dspec, min(dspec["elev"], max_elev))
        N = tuple(len(t) - p - 1 for t, p in dk)
        co = cyc(dspec["seed"], int(np.prod(N)) * K).reshape(N + vs)
        sp = SplineFn(dk, co)
        D.spline = sp
        if kind == "inspace":
            D.cstar = co.reshape(-1, K)
        D.param_values = lambda grid: sp.grid(grid)
        if physical:
            georef, affine = geo
            A, b = affine
            Ainv = np.linalg.inv(A)
            D.argscale = float((np.abs(b).max() + np.abs(A).sum(axis=1).max()) * np.abs(Ainv).sum(axis=1).max() + 1.0)

            def fphys(*X):
                Xb = np.broadcast_arrays(*[np.asarray(x, dtype=float) for x in X])
                P = np.stack(Xb, axis=-1)
                xi = (P - b) @ Ainv.T
                return sp(*[xi[..., j] for j in range(d)])
            base = fphys
        else:
            base = sp
        if form == "object":
            from pyiga import bspline
            D.f = bspline.BSplineFunc(pyiga_kvs, co.copy())
        elif form == "tuple":
            D.f = lambda *X: tuple(np.moveaxis(base(*X), -1, 0))
        else:
            D.f = base
        return D
    if kind == "general":
        if physical:
            lo, hi = [0.0] * d, [1.0] * d          # raw physical coordinates
        else:
            lo = [float(kns[d - 1 - j][0][0]) for j in range(d)]
            hi = [float(kns[d - 1 - j][0][-1]) for j in range(d)]
        g = GeneralFn(d, vs, dspec["seed"], lo, hi, dspec["used"])
        D.general = g
        if physical:
            georef = geo[0]

            def pv(grid):
                val = georef.on_grid(grid, 0)[0]
                return g.stacked(*[val[..., j] for j in range(d)])
            D.param_values = pv
        else:
            D.param_values = lambda grid: g.stacked(*mesh_xyz(grid))
        D.f = g.natural if form in ("natural", "tuple") else g.stacked
        return D
    raise ValueError(kind)


# ---------------------------------------------------------------------------------------------
# geometry

BILINEAR_KV = {"p": 1, "breaks": [0.0, 1.0], "mults": []}


@st.composite
def geo_spec(draw, dim, kinds=("affine", "bilinear", "spline", "nurbs", "named")):
    kind = draw(st.sampled_from(kinds))
    if kind == "named":
        if dim == 2:
            name = draw(st.sampled_from(["quarter_annulus", "bspline_quarter_annulus", "unit_square"]))
        else:
            name = "unit_cube"
        r1 = draw(st.sampled_from([0.05, 0.25, 1.0]))
        return {"kind": "named", "name": name, "dim": dim, "r1": r1, "r2": r1 + draw(st.sampled_from([0.5, 1.0, 2.0]))}
    g = draw(gg.geometry_map(dim, pmax=3 if dim < 3 else 2, nmax=2, nurbs=(kind == "nurbs")))
    if kind == "affine":
        g["amp"] = 0.0
    elif kind == "bilinear":
        g["kvs"] = [dict(BILINEAR_KV) for _ in range(dim)]
        g["nurbs"] = False
        g.pop("wseed", None)
        if g["amp"] == 0.0:
            g["amp"] = 1.0
    g["kind"] = kind
    return g


def build_geo(gspec):
    """Returns (pyiga geometry, RefSpline, class label, affine (A,b) or None)."""
    if gspec is None:
        return None, None, "none", None
    if gspec.get("kind") == "named":
        from pyiga import geometry
        nm = gspec["name"]
        if nm == "quarter_annulus":
            g = geometry.quarter_annulus(gspec["r1"], gspec["r2"])
        elif nm == "bspline_quarter_annulus":
            g = geometry.bspline_quarter_annulus(gspec["r1"], gspec["r2"])
        elif nm == "unit_square":
            g = geometry.unit_square()
        else:
            g = geometry.unit_cube(dim=gspec["dim"])
        return g, rg.from_pyiga(g), "named:" + nm, None
    g, ref = gg.build_geometry(gspec)
    A = np.array(gspec["A"], dtype=float)
    b = np.array(gspec["b"], dtype=float)
    if gspec["amp"] == 0.0:
        ident = np.array_equal(A, np.eye(len(b))) and not np.any(b)
        return g, ref, "identity" if ident else "affine", (A, b)
    bil = all(k["p"] == 1 and len(k["breaks"]) == 2 for k in gspec["kvs"]) and not gspec["nurbs"]
    return g, ref, "bilinear" if bil else ("nurbs" if gspec["nurbs"] else "spline"), None


# ---------------------------------------------------------------------------------------------
# spaces

@st.composite
def tp_space(draw, dims=(1, 2, 3), unit=False, tier="quick", pmin=0):
    d = draw(st.sampled_from(dims))
    pmax = {1: 6, 2: 6, 3: 3}[d]
    nmax = {1: 6, 2: 4, 3: 2}[d]
    dec = {1: 3, 2: 2, 3: 1}[d]
    kvs = []
    for _ in range(d):
        pm = pmax
        if d == 2 and draw(st.integers(0, 3)) > 0:
            pm = 3          # most 2-D spaces small, some up to degree 6
        kvs.append(draw(gk.knotvec(pmin=pmin, pmax=pm, nmax=nmax, decades=dec,
                                   interval="unit" if unit else draw(st.sampled_from(["unit", "grid"])))))
    return kvs


def space_flags(ctx, kvspecs):
    d = len(kvspecs)
    ctx.flag("dim%d" % d)
    p0 = any(k["p"] == 0 for k in kvspecs)
    mult = any(gk.has_multiple_knots(k) for k in kvspecs)
    ctx.flag("degree0" if p0 else None, "repeated_knots" if mult else None,
             "degree>=5" if any(k["p"] >= 5 for k in kvspecs) else None,
             "single_span_axis" if any(len(k["breaks"]) == 2 for k in kvspecs) else None,
             "mixed_degrees" if len(set(k["p"] for k in kvspecs)) > 1 else None)
    return p0 or mult or d == 3


def data_flags(ctx, dspec):
    ctx.flag("data:" + dspec["kind"], "as:" + dspec["as"], "vshape%d" % len(dspec["vshape"]))
    return len(dspec["vshape"]) > 0


# ---------------------------------------------------------------------------------------------
# judges

def judge_projection(ctx, Phi, W, F, got, cstar, delta, pcg=False, prefix=""):
    """Phi (Q,N) basis values, W (Q,) weights, F (Q,K) data values at the quadrature points, got (N,K)."""
    N = Phi.shape[1]
    WPhi = Phi * W[:, None]
    M = Phi.T @ WPhi
    b = WPhi.T @ F
    nphi = np.sqrt(np.maximum(np.diag(M), 0.0))
    nf = np.sqrt(np.maximum(W @ (F * F), 0.0))
    Mnorm = float(np.linalg.norm(M, 2))
    res = b - M @ got
    tol = (1e-8 + 64.0 * delta) * nf * nphi.max() \
        + 200.0 * EPS * math.sqrt(N) * (Mnorm * np.linalg.norm(got, axis=0) + np.linalg.norm(b, axis=0))
    if pcg:
        tol = tol + 20.0 * PCG_ATOL
    ctx.close(prefix + "orthogonality", res, np.zeros_like(res), rtol=0.0, atol=np.broadcast_to(tol[None, :], res.shape),
              scale=0.0)
    if cstar is not None:
        kappa = float(np.linalg.cond(M))
        rel = (200.0 * EPS + 64.0 * delta) * kappa
        extra = 0.0
        if pcg:
            rel += 20.0 * PCG_ATOL * kappa * math.sqrt(N)
            extra = 20.0 * PCG_ATOL * float(np.linalg.norm(np.linalg.inv(M), 2))
        if not (rel < 1e-3):
            ctx.flag("too_ill_conditioned_for_reproduction")
            return
        sc = np.maximum(np.max(np.abs(cstar), axis=0), 1e-300)
        ctx.close(prefix + "reproduce", got, cstar, rtol=rel, atol=extra, scale=np.broadcast_to(sc[None, :], got.shape))


def as_matrix(ctx, oracle, arr, N, vshape):
    a = np.asarray(arr)
    ctx.require(oracle, a.shape == tuple(N) + tuple(vshape),
                "result shape %r, expected %r" % (a.shape, tuple(N) + tuple(vshape)))
    K = int(np.prod(vshape)) if vshape else 1
    return np.asarray(a, dtype=float).reshape(-1, K)


# ---------------------------------------------------------------------------------------------
# 1. approx.interpolate

def ref_nodes(kns, nodespec):
    out = []
    for ax, (t, p) in enumerate(kns):
        n = len(t) - p - 1
        g = np.clip(rb.greville(t, p), t[0], t[-1])
        if nodespec is None or nodespec == "greville":
            out.append(g)
            continue
        th = cyc(nodespec[ax], n, 1.0)
        if p == 0:
            tau = np.array([t[i] + (int(th[i]) % 8) / 8.0 * (t[i + 1] - t[i]) for i in range(n)])
        else:
            tau = g.copy()
            for i in range(n):
                f = (int(th[i]) % 15 - 7) / 8.0          # -7/8 .. 7/8
                if i == 0:
                    f = abs(f)
                if i == n - 1:
                    f = -abs(f)
                if f > 0:
                    tau[i] = g[i] + f * (g[i + 1] - g[i]) / 2
                elif f < 0:
                    tau[i] = g[i] + f * (g[i] - g[i - 1]) / 2
            tau = np.clip(tau, t[0], t[-1])
        out.append(tau)
    return out


def check_interp(spec, ctx):
    from pyiga import approx
    kvspecs = spec["kvs"]
    kns = [gk.build_knots(k) for k in kvspecs]
    d = len(kns)
    kvs = tuple(gk.pyiga_kv(k) for k in kvspecs)
    N = tuple(len(t) - p - 1 for t, p in kns)
    geo, georef, gclass, affine = ctx.sut(build_geo, spec.get("geo"), what="geometry constructor")
    dspec = spec["data"]
    nodes = ref_nodes(kns, spec["nodes"])
    Cax = [rb.colloc(t, p, x) for (t, p), x in zip(kns, nodes)]
    C = kron_all(Cax)
    kappa = float(np.prod([np.linalg.cond(c) for c in Cax]))
    vs = tuple(dspec["vshape"])
    K = int(np.prod(vs)) if vs else 1
    cstar = None
    argscale = None
    if dspec["kind"] == "values":
        V = cyc(dspec["seed"], int(np.prod(N)) * K).reshape(N + vs)
        f = V.copy()
    else:
        physical = geo is not None
        D = build_data(dspec, kns, kvs, geo=(georef, affine), physical=physical)
        V = D.param_values(nodes)
        cstar = D.cstar
        argscale = D.argscale
        f = V.copy() if dspec["as"] == "array" else D.f
    if geo is not None and argscale is None:
        argscale = 1.0
    delta = arg_delta(kns, argscale)
    nodes_arg = None if spec["nodes"] is None else [np.array(x) for x in nodes]
    kv_arg = kvs[0] if (spec.get("bare") and d == 1) else kvs
    kw = {}
    if geo is not None:
        kw["geo"] = geo
    if nodes_arg is not None:
        kw["nodes"] = nodes_arg
    got = ctx.sut(approx.interpolate, kv_arg, f, what="approx.interpolate", **kw)
    G = as_matrix(ctx, "interpolate_shape", got, N, vs)
    Vm = np.asarray(V, dtype=float).reshape(-1, K)
    # (a) the interpolant matches the data at the nodes (backward error of the solve)
    Cn = float(np.prod([np.linalg.norm(c, 2) for c in Cax]))
    tol = 400.0 * EPS * math.sqrt(C.shape[0]) * (Cn * np.linalg.norm(G, axis=0) + np.linalg.norm(Vm, axis=0)) \
        + 64.0 * delta * (np.abs(C) @ np.abs(G)).max(axis=0) + 1e-300
    ctx.close("matches_data_at_nodes", C @ G, Vm, rtol=0.0, atol=np.broadcast_to(tol[None, :], Vm.shape), scale=0.0)
    # (b) coefficients: known ones for data in the space, dense reference solve otherwise
    rel = (500.0 * EPS + 64.0 * delta) * kappa
    if rel < 1e-3:
        cref = cstar if cstar is not None else np.linalg.solve(C, Vm)
        sc = np.maximum(np.max(np.abs(cref), axis=0), np.max(np.abs(Vm), axis=0))
        sc = np.maximum(sc, 1e-300)
        ctx.close("reproduce" if cstar is not None else "coefficients", G, cref, rtol=rel,
                  scale=np.broadcast_to(sc[None, :], G.shape))
    else:
        ctx.flag("too_ill_conditioned_for_reproduction")
    nt = space_flags(ctx, kvspecs)
    nt = data_flags(ctx, dspec) or nt
    ctx.flag("geo:" + gclass, "nodes:" + ("default" if spec["nodes"] is None else
                                          ("greville_explicit" if spec["nodes"] == "greville" else "custom")),
             "bare_knotvector" if kv_arg is kvs[0] and d == 1 and spec.get("bare") else None)
    ctx.nontrivial = nt or gclass not in ("none", "identity") or isinstance(spec["nodes"], list)


@st.composite
def strat_interp(draw, tier):
    with_geo = draw(st.integers(0, 3)) == 0
    kvs = draw(tp_space(unit=with_geo, tier=tier))
    d = len(kvs)
    geo = draw(geo_spec(d, kinds=("affine", "spline", "nurbs", "named") if d >= 2 else ("affine", "spline", "nurbs"))) \
        if with_geo else None
    if geo is not None and geo.get("kind") == "named" and d not in (2, 3):
        geo = None
    nmode = draw(st.sampled_from(["default", "default", "greville", "custom", "custom"]))
    if nmode == "default":
        nodes = None
    elif nmode == "greville":
        nodes = "greville"
    else:
        nodes = [[draw(st.integers(0, 14)) for _ in range(7)] for _ in range(d)]
    if geo is not None:
        affine = geo.get("kind") != "named" and geo["amp"] == 0.0
        kinds = ["general"]
        if affine and all(k["p"] >= 1 for k in kvs):
            kinds += ["inspace", "inspace"]
        data = draw(data_spec(d, kinds, ["callable", "callable", "tuple", "natural"]))
    else:
        kinds = ["inspace", "inspace", "general", "values"]
        data = draw(data_spec(d, kinds, ["callable", "tuple", "object", "array", "natural"]))
        if data["kind"] == "values":
            data["as"] = "array"
    return {"kvs": kvs, "nodes": nodes, "data": data, "geo": geo, "bare": draw(st.booleans())}


# ---------------------------------------------------------------------------------------------
# 2. approx.project_L2 in the parameter domain (Kronecker mass inverse) + assemble.inner_products

def check_proj_tp(spec, ctx):
    from pyiga import approx, assemble
    kvspecs = spec["kvs"]
    kns = [gk.build_knots(k) for k in kvspecs]
    d = len(kns)
    kvs = tuple(gk.pyiga_kv(k) for k in kvspecs)
    N = tuple(len(t) - p - 1 for t, p in kns)
    dspec = spec["data"]
    D = build_data(dspec, kns, kvs)
    pmax = max(p for _, p in kns)
    exact = D.kind in ("inspace", "pp")
    Q = Quad(kns, pmax + (3 if exact else 1))
    F = np.asarray(D.param_values(Q.grid), dtype=float).reshape(-1, D.K)
    delta = arg_delta(kns)
    kv_arg = kvs[0] if (spec.get("bare") and d == 1) else kvs
    got = ctx.sut(approx.project_L2, kv_arg, D.f, what="approx.project_L2")
    G = as_matrix(ctx, "project_shape", got, N, D.vshape)
    judge_projection(ctx, Q.Phi, Q.W, F, G, D.cstar, delta)
    # the load vector itself (component-wise treatment of array-valued data)
    ip = ctx.sut(assemble.inner_products, kv_arg, D.f, what="assemble.inner_products")
    IP = as_matrix(ctx, "inner_products_shape", ip, N, D.vshape)
    WPhi = Q.Phi * Q.W[:, None]
    bref = WPhi.T @ F
    nphi = np.sqrt(np.maximum(np.einsum("qi,qi->i", WPhi, Q.Phi), 0.0))
    nf = np.sqrt(np.maximum(Q.W @ (F * F), 0.0))
    tol = (1e-10 + 64.0 * delta) * nf[None, :] * nphi[:, None] + 1e-300
    ctx.close("inner_products", IP, bref, rtol=0.0, atol=tol, scale=0.0)
    nt = space_flags(ctx, kvspecs)
    nt = data_flags(ctx, dspec) or nt
    ctx.flag("exact_integrals" if exact else "property_rule", "bare_knotvector" if kv_arg is not kvs else None)
    ctx.nontrivial = nt


@st.composite
def strat_proj_tp(draw, tier):
    kvs = draw(tp_space(tier=tier))
    d = len(kvs)
    data = draw(data_spec(d, ["inspace", "pp", "general", "general"], ["callable", "callable", "tuple", "object", "natural"]))
    return {"kvs": kvs, "data": data, "bare": draw(st.booleans())}


def enum_degenerate(tier):
    """All spaces of dimension 1..3 whose axes are (p=0 or 1) x (1 or 2 spans): the smallest spaces,
    including directions that carry a single quadrature node / a single basis function."""
    import itertools
    axes = [{"p": 0, "breaks": [0.0, 1.0], "mults": []}, {"p": 0, "breaks": [0.0, 0.25, 1.0], "mults": [1]},
            {"p": 1, "breaks": [0.0, 1.0], "mults": []}, {"p": 1, "breaks": [0.0, 0.5, 1.0], "mults": [1]}]
    out = []
    for d in (1, 2, 3):
        for combo in itertools.product(range(len(axes)), repeat=d):
            if d == 3 and tier == "quick" and sum(combo) % 2:
                continue
            kvs = [dict(axes[i]) for i in combo]
            for kind, form, vs in (("inspace", "callable", []), ("general", "natural", []), ("inspace", "object", [2])):
                data = {"kind": kind, "vshape": vs, "as": form, "seed": [3, -5, 7, 2, -8, 1, 4], "used": [True] * d}
                out.append({"kvs": kvs, "data": data, "bare": False})
    return out


def check_degenerate(spec, ctx):
    check_proj_tp(spec, ctx)
    sp = dict(spec)
    sp["nodes"] = None
    sp["geo"] = None
    check_interp(sp, ctx)
    ctx.nontrivial = True


# ---------------------------------------------------------------------------------------------
# 3. approx.project_L2 with a geometry (preconditioned CG), physical data, inner_products with geometry

def check_proj_geo(spec, ctx):
    from pyiga import approx, assemble
    kvspecs = spec["kvs"]
    kns = [gk.build_knots(k) for k in kvspecs]
    d = len(kns)
    kvs = tuple(gk.pyiga_kv(k) for k in kvspecs)
    N = tuple(len(t) - p - 1 for t, p in kns)
    geo, georef, gclass, affine = ctx.sut(build_geo, spec["geo"], what="geometry constructor")
    physical = bool(spec["physical"])
    dspec = spec["data"]
    pmax = max(p for _, p in kns)
    D = build_data(dspec, kns, kvs, geo=(georef, affine), physical=physical,
                   max_elev=1 if gclass in ("identity", "affine") else 0)
    # exact integrals: piecewise polynomial data and constant det J, or 2-D bilinear map and degree <= p
    exact = D.kind in ("inspace", "pp") and (gclass in ("identity", "affine", "named:unit_square", "named:unit_cube")
                                             or (gclass == "bilinear" and d == 2))
    Q = Quad(kns, pmax + (3 if exact else 1), georef)
    F = np.asarray(D.param_values(Q.grid), dtype=float).reshape(-1, D.K)
    delta = arg_delta(kns, D.argscale if D.argscale is not None else 1.0)
    if D.K == 1 and not D.vshape:
        got = ctx.sut(approx.project_L2, kvs, D.f, f_physical=physical, geo=geo, what="approx.project_L2(geo)")
        G = as_matrix(ctx, "project_shape", got, N, D.vshape)
        judge_projection(ctx, Q.Phi, Q.W, F, G, D.cstar, delta, pcg=True)
        if physical:
            # the same data given as its pull-back to the parameter domain (pull-back by the reference map)
            def pulled(*X):
                grid = [np.asarray(X[d - 1 - ax], dtype=float).ravel() for ax in range(d)]
                return D.param_values(grid)
            got2 = ctx.sut(approx.project_L2, kvs, pulled, f_physical=False, geo=geo, what="approx.project_L2(pull-back)")
            G2 = as_matrix(ctx, "project_shape", got2, N, D.vshape)
            judge_projection(ctx, Q.Phi, Q.W, F, G2, D.cstar, delta, pcg=True, prefix="pullback_")
            WPhi = Q.Phi * Q.W[:, None]
            M = Q.Phi.T @ WPhi
            kap = float(np.linalg.cond(M))
            rel = (200.0 * EPS + 64.0 * delta + 40.0 * PCG_ATOL * math.sqrt(M.shape[0])) * kap
            if rel < 1e-3:
                sc = max(float(np.max(np.abs(G2))), 1e-300)
                ctx.close("physical_equals_pullback", G, G2, rtol=rel,
                          atol=40.0 * PCG_ATOL * float(np.linalg.norm(np.linalg.inv(M), 2)), scale=sc)
            ctx.flag("physical_data")
    # load vector with geometry, any value shape (component-wise)
    ip = ctx.sut(assemble.inner_products, kvs, D.f, f_physical=physical, geo=geo, what="assemble.inner_products(geo)")
    IP = as_matrix(ctx, "inner_products_shape", ip, N, D.vshape)
    WPhi = Q.Phi * Q.W[:, None]
    bref = WPhi.T @ F
    nphi = np.sqrt(np.maximum(np.einsum("qi,qi->i", WPhi, Q.Phi), 0.0))
    nf = np.sqrt(np.maximum(Q.W @ (F * F), 0.0))
    tol = (1e-10 + 64.0 * delta) * nf[None, :] * nphi[:, None] + 1e-300
    ctx.close("inner_products", IP, bref, rtol=0.0, atol=tol, scale=0.0)
    space_flags(ctx, kvspecs)
    data_flags(ctx, dspec)
    ctx.flag("geo:" + gclass, "exact_integrals" if exact else "property_rule",
             "detJ_ratio>3" if Q.detratio > 3 else None, "detJ_ratio>10" if Q.detratio > 10 else None)
    ctx.nontrivial = True


@st.composite
def strat_proj_geo(draw, tier):
    kvs = draw(tp_space(dims=(2, 2, 3), unit=True, tier=tier))
    d = len(kvs)
    geo = draw(geo_spec(d))
    physical = draw(st.booleans())
    affine = geo.get("kind") != "named" and geo["amp"] == 0.0
    if physical:
        kinds = ["general"]
        if affine and all(k["p"] >= 1 for k in kvs):
            kinds += ["inspace", "pp"]
        forms = ["callable", "natural", "tuple"]
    else:
        kinds = ["inspace", "pp", "general", "general"]
        forms = ["callable", "natural", "tuple", "object"]
    data = draw(data_spec(d, kinds, forms, vshapes=((), (), (), (2,), (2, 2))))
    return {"kvs": kvs, "geo": geo, "physical": physical, "data": data}


# ---------------------------------------------------------------------------------------------
# 4. univariate bspline.interpolate / load_vector / project_L2

def check_bsp1d(spec, ctx):
    from pyiga import bspline
    kvspec = spec["kv"]
    kns = [gk.build_knots(kvspec)]
    t, p = kns[0]
    n = len(t) - p - 1
    kv = gk.pyiga_kv(kvspec)
    dspec = spec["data"]
    D = build_data(dspec, kns, (kv,))
    delta = arg_delta(kns)
    op = spec["op"]
    if op == "interpolate":
        nodes = ref_nodes(kns, spec["nodes"])[0]
        C = rb.colloc(t, p, nodes)
        V = np.asarray(D.param_values([nodes]), dtype=float).reshape(-1, 1)
        if spec["nodes"] is None:
            got = ctx.sut(bspline.interpolate, kv, D.f, what="bspline.interpolate")
        else:
            got = ctx.sut(bspline.interpolate, kv, D.f, nodes=np.array(nodes), what="bspline.interpolate(nodes)")
        G = as_matrix(ctx, "interpolate_shape", got, (n,), ())
        tol = 200.0 * EPS * math.sqrt(n) * (np.linalg.norm(C, 2) * np.linalg.norm(G) + np.linalg.norm(V)) \
            + 64.0 * delta * float((np.abs(C) @ np.abs(G)).max()) + 1e-300
        ctx.close("matches_data_at_nodes", C @ G, V, rtol=0.0, atol=tol, scale=0.0)
        rel = (200.0 * EPS + 64.0 * delta) * float(np.linalg.cond(C))
        if rel < 1e-3:
            cref = D.cstar if D.cstar is not None else np.linalg.solve(C, V)
            sc = max(float(np.max(np.abs(cref))), float(np.max(np.abs(V))), 1e-300)
            ctx.close("reproduce" if D.cstar is not None else "coefficients", G, cref, rtol=rel, scale=sc)
        ctx.flag("nodes:" + ("default" if spec["nodes"] is None else "custom"))
    else:
        exact = D.kind in ("inspace", "pp")
        Q = Quad(kns, p + (3 if exact else 1))
        F = np.asarray(D.param_values(Q.grid), dtype=float).reshape(-1, 1)
        WPhi = Q.Phi * Q.W[:, None]
        if op == "load_vector":
            got = ctx.sut(bspline.load_vector, kv, D.f, what="bspline.load_vector")
            G = as_matrix(ctx, "load_vector_shape", got, (n,), ())
            nphi = np.sqrt(np.maximum(np.einsum("qi,qi->i", WPhi, Q.Phi), 0.0))
            nf = math.sqrt(max(float(Q.W @ (F[:, 0] ** 2)), 0.0))
            ctx.close("load_vector", G, WPhi.T @ F, rtol=0.0, atol=((1e-10 + 64.0 * delta) * nf * nphi)[:, None] + 1e-300,
                      scale=0.0)
        else:
            got = ctx.sut(bspline.project_L2, kv, D.f, what="bspline.project_L2")
            G = as_matrix(ctx, "project_shape", got, (n,), ())
            judge_projection(ctx, Q.Phi, Q.W, F, G, D.cstar, delta)
        ctx.flag("exact_integrals" if exact else "property_rule")
    nt = space_flags(ctx, [kvspec])
    data_flags(ctx, dspec)
    ctx.flag("op:" + op)
    ctx.nontrivial = nt or isinstance(spec["nodes"], list) or kvspec["p"] >= 4


@st.composite
def strat_bsp1d(draw, tier):
    kv = draw(gk.knotvec(pmin=0, pmax=6, nmax=8, decades=3, interval=draw(st.sampled_from(["unit", "grid"]))))
    op = draw(st.sampled_from(["interpolate", "load_vector", "project_L2"]))
    nodes = None
    if op == "interpolate":
        data = draw(data_spec(1, ["inspace", "general"], ["callable"], vshapes=((),)))
        if draw(st.booleans()):
            nodes = [[draw(st.integers(0, 14)) for _ in range(9)]]
    else:
        data = draw(data_spec(1, ["inspace", "pp", "general"], ["callable"], vshapes=((),)))
    return {"kv": kv, "op": op, "nodes": nodes, "data": data}


# ---------------------------------------------------------------------------------------------
# 5. approx.project_L2 on hierarchical spaces (HB / THB)

def _tiny_hspace(dim):
    from pyiga import bspline, hierarchical
    kv = bspline.make_knots(2, 0.0, 1.0, 2)
    hs = hierarchical.HSpace(dim * (kv,), bdspecs=[])
    hs.refine({0: [dim * (0,)]})
    return hs


def make_hier_setup(dim, tiers=("quick", "thorough")):
    def setup(tier):
        """Compile the mass form and both L2 functionals for this dimension once per worker."""
        if tier not in tiers:
            return
        from pyiga import approx
        hs = _tiny_hspace(dim)
        f = lambda *X: 1.0 + 0.0 * X[0]
        approx.project_L2(hs, f)
        approx.project_L2(hs, f, f_physical=True)
    return setup


def check_hier(spec, ctx):
    from pyiga import approx, bspline
    hist = spec["hist"]
    hs, ref, info = gh.replay(hist, ctx)
    d = hist["dim"]
    L = ref.trimmed_levels()
    B = ref.I_thb(L) if hist["truncate"] else ref.I_hb(L)
    nd = B.shape[1]
    ctx.require("numdofs", int(hs.numdofs) == nd, "numdofs %r, reference %d" % (hs.numdofs, nd))
    kns_f = ref.levels[L - 1]
    kns_0 = ref.levels[0]
    pmax = max(p for _, p in kns_f)
    geo, georef, gclass, affine = ctx.sut(build_geo, spec.get("geo"), what="geometry constructor")
    physical = bool(spec["physical"])
    dspec = spec["data"]
    Nf = int(np.prod([len(t) - p - 1 for t, p in kns_f]))
    nq = pmax + 3
    Qn = int(np.prod([(len(np.unique(t)) - 1) * nq for t, _ in kns_f]))
    if Qn * Nf > 6e6:
        raise Skip("reference too large")
    Q = Quad(kns_f, nq, georef)
    Phi = Q.Phi @ B
    # data: (a) "coarse": a level-0 tensor-product spline (in the space, piecewise polynomial on the level-0 mesh),
    # (b) "inspace": a generic function of the hierarchical space (random coefficients on all levels),
    # (c) "pp": piecewise polynomial of degree p(+1) on the level-0 mesh, outside the space
    fine_part = False
    shape_f = tuple(len(t) - p - 1 for t, p in kns_f)
    if dspec["kind"] == "inspace":
        cstar = cyc(dspec["seed"], nd).reshape(nd, 1)
        n0 = len(ref.functions(0)[0])
        fine_part = bool(np.any(cstar[n0:] != 0.0))
        sp = SplineFn(kns_f, (B @ cstar).reshape(shape_f))
        obj_kns = kns_f
    elif dspec["kind"] == "coarse":
        N0 = tuple(len(t) - p - 1 for t, p in kns_0)
        c0 = cyc(dspec["seed"], int(np.prod(N0)))
        sp = SplineFn(kns_0, c0.reshape(N0))
        fine = ref.rep(0, L - 1) @ c0
        cstar = np.linalg.lstsq(B, fine, rcond=None)[0].reshape(nd, 1)
        if float(np.max(np.abs(B @ cstar[:, 0] - fine))) > 1e-9 * max(1.0, float(np.max(np.abs(c0)))):
            raise RuntimeError("reference model: level-0 function not representable in the hierarchical basis")
        obj_kns = kns_0
    else:
        cstar = None
        elev = min(dspec["elev"], 0 if gclass == "bilinear" else 1)
        dk = pp_knots(kns_0, dspec, elev)
        Nd = tuple(len(t) - p - 1 for t, p in dk)
        sp = SplineFn(dk, cyc(dspec["seed"], int(np.prod(Nd))).reshape(Nd))
        obj_kns = None
    F = np.asarray(sp.grid(Q.grid), dtype=float).reshape(-1, 1)
    argscale = 1.0
    if physical and geo is not None:
        A, b = affine
        Ainv = np.linalg.inv(A)
        argscale = float((np.abs(b).max() + np.abs(A).sum(axis=1).max()) * np.abs(Ainv).sum(axis=1).max() + 1.0)

        def f(*X):
            Xb = np.broadcast_arrays(*[np.asarray(x, dtype=float) for x in X])
            xi = (np.stack(Xb, axis=-1) - b) @ Ainv.T
            return sp(*[xi[..., j] for j in range(d)])
    elif dspec["as"] == "object" and obj_kns is not None and not physical:      # spline objects are parametric data
        f = bspline.BSplineFunc(tuple(bspline.KnotVector(np.array(t), p) for t, p in obj_kns), sp.co.copy())
    else:
        f = sp
    delta = arg_delta(kns_f, argscale)
    kw = {}
    if geo is not None:
        kw["geo"] = geo
    if physical:
        kw["f_physical"] = True
    got = ctx.sut(approx.project_L2, hs, f, what="approx.project_L2(HSpace)", **kw)
    G = as_matrix(ctx, "project_shape", got, (nd,), ())
    ctx.flag("data_with_fine_level_part" if fine_part else None)
    # generic functions of the space with components on finer levels are reported under their own oracle
    # names (open finding hierarchical_load_vector_coarse_cells)
    judge_projection(ctx, Phi, Q.W, F, G, cstar, delta, prefix="hier_generic_" if fine_part else "")
    ctx.flag("dim%d" % d, "levels%d" % L, "thb" if hist["truncate"] else "hb", "disparity_%s" % hist["disparity"],
             "geo:" + gclass, "physical_data" if physical else None, "data:" + dspec["kind"], "as:" + dspec["as"],
             "bdspecs:" + ("none" if hist.get("bdspecs") is None else ("empty" if not hist["bdspecs"] else "faces")),
             "repeated_knots" if any(gk.has_multiple_knots(k) for k in hist["kvs"]) else None)
    ctx.nontrivial = L >= 2


def strat_hier(dim):
    @st.composite
    def strat(draw, tier):
        thb = draw(st.sampled_from([True, False, True]))     # THB first: small Hypothesis runs favour early elements
        hist = draw(gh.history(dims=(dim,), truncate=thb, pmin=1, pmax=3 if dim < 3 else 2, n0max=3 if dim < 3 else 2,
                               max_steps=3, max_levels={1: 4, 2: 3, 3: 2}[dim] + (1 if tier == "thorough" and dim < 3 else 0),
                               disparities=(None, 1, 2)))
        gk_ = draw(st.sampled_from(["none", "none", "affine", "bilinear"] if dim == 2 else ["none", "none", "affine"]))
        geo = None if (gk_ == "none" or dim == 1) else draw(geo_spec(dim, kinds=(gk_,)))
        physical = draw(st.booleans())
        if geo is not None and geo["amp"] != 0.0:
            physical = False        # no closed-form inverse of a non-affine map
        kind = draw(st.sampled_from(["coarse", "coarse", "pp", "pp", "inspace"]))
        data = {"kind": kind, "vshape": [], "as": draw(st.sampled_from(["callable", "object"])),
                "seed": [draw(st.integers(-12, 12)) for _ in range(17)], "elev": draw(st.integers(0, 1)),
                "msel": [draw(st.integers(0, 7)) for _ in range(5)]}
        return {"hist": hist, "geo": geo, "physical": physical, "data": data}
    return strat


# ---------------------------------------------------------------------------------------------

SUBCHECKS = [
    Sub("degenerate_enum", check_degenerate, enum=enum_degenerate, quick=0, thorough=0, floor=20,
        rule="all spaces with axes (p in {0,1}) x (1 or 2 spans), dims 1..3 (3-D: half of them in quick)"),
    Sub("interpolate", check_interp, strategy=lambda tier: strat_interp(tier), quick=480, thorough=9600, floor=50,
        rule="approx.interpolate: dims 1-3, p 0-6, default/explicit Greville/custom unisolvent nodes, data in the "
             "space / outside / raw value arrays, scalar/vector/matrix valued, with and without geometry"),
    Sub("project_tp", check_proj_tp, strategy=lambda tier: strat_proj_tp(tier), quick=400, thorough=8000, floor=50,
        rule="approx.project_L2 + assemble.inner_products in the parameter domain"),
    Sub("project_geo", check_proj_geo, strategy=lambda tier: strat_proj_geo(tier), quick=320, thorough=6400, floor=50,
        rule="approx.project_L2 / inner_products with affine, bilinear, spline, NURBS and named geometries; "
             "physical data vs. pull-back"),
    Sub("bspline_1d", check_bsp1d, strategy=lambda tier: strat_bsp1d(tier), quick=480, thorough=9600, floor=50,
        rule="bspline.interpolate / load_vector / project_L2"),
    Sub("hier_1d", check_hier, strategy=lambda tier: strat_hier(1)(tier), quick=60, thorough=1000, floor=10, shards=2,
        setup=make_hier_setup(1), timeout_q=900, timeout_t=3000, rule="HB/THB spaces from refinement histories, dim 1"),
    Sub("hier_2d", check_hier, strategy=lambda tier: strat_hier(2)(tier), quick=60, thorough=1000, floor=10, shards=2,
        setup=make_hier_setup(2), timeout_q=900, timeout_t=3000,
        rule="HB/THB spaces from refinement histories, dim 2, identity/affine/bilinear geometry"),
    Sub("hier_3d", check_hier, strategy=lambda tier: strat_hier(3)(tier), quick=0, thorough=160, floor=0, shards=2,
        setup=make_hier_setup(3, tiers=("thorough",)), timeout_q=300, timeout_t=3000,
        rule="HB/THB spaces from refinement histories, dim 3 (thorough tier only), identity/affine geometry"),
]


def _known_hier_load_vector(spec, viol):
    """Open finding hierarchical_load_vector_coarse_cells: the load vector of a level-l function is integrated
    with the Gauss rule of the level-l mesh even where that mesh is refined, so data that is not polynomial on
    the coarse cells (a function of the hierarchical space with components on finer levels) is not reproduced."""
    return ("hist" in spec and spec.get("data", {}).get("kind") == "inspace"
            and getattr(viol, "oracle", "") in ("hier_generic_orthogonality", "hier_generic_reproduce"))


KNOWN = {"hierarchical_load_vector_coarse_cells": _known_hier_load_vector}

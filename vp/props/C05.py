"""C05 - every transfer between nested spline spaces preserves the function."""
import numpy as np
from hypothesis import strategies as st

from ..core import Sub, Violation, Skip
from ..gen import knots as gk
from ..gen import hspaces as gh
from ..ref import bspl as rb
from ..ref import hier as rh
from ..ref import geo as rg

LEVEL = "exploration"
RULE = ("nested knot-vector pairs (p 0..8, repeated knots, inserted knots coinciding with existing ones) and (coarse, fine) "
        "pairs of hierarchical spaces from generated refinement histories; non-trivial: >= 3 levels, or an inserted knot "
        "equal to an existing one, or THB, or finite disparity with >= 2 levels difference; distinct by SHA-1 of the spec")
ASSUMPTIONS = ["oracle: exact (rational) Boehm knot insertion matrices and definition-based hierarchical bases "
               "(vp/ref/bspl.py, vp/ref/hier.py); a transfer matrix P is correct iff B_fine @ P == B_coarse for the "
               "basis matrices B represented on a common finest tensor-product level"]


# ---------------------------------------------------------------------------------------------
# 1. univariate transfers

def check_knots(spec, ctx):
    from pyiga import bspline
    kvs = spec["kv"]
    kn, p = gk.build_knots(kvs)
    new = sorted(spec["new"])
    fine = np.sort(np.concatenate([kn, np.array(new, dtype=float)]))
    kv1 = gk.pyiga_kv(kvs)
    kv2 = bspline.KnotVector(fine.copy(), p)
    R = rb.prolongation_matrix(kn, p, fine, exact=True)
    nrm = max(1.0, float(np.max(np.abs(R).sum(axis=1))))
    P = ctx.sut(bspline.prolongation, kv1, kv2, what="prolongation")
    ctx.require("prolongation_shape", P.shape == R.shape, "shape %r != %r" % (P.shape, R.shape))
    ctx.close("prolongation", P, R, rtol=0, atol=1e-10 * nrm)
    # refine(new) route gives the same fine knot vector
    kv2b = ctx.sut(kv1.refine, np.array(new, dtype=float), what="refine") if new else kv1
    if new:
        ctx.equal("refine_knots", np.asarray(kv2b.kv), fine, "refined knot vector")
    # chained single knot insertion
    cur = kv1
    M = np.eye(len(kn) - p - 1)
    t = kn.copy()
    for x in new:
        K = ctx.sut(bspline.knot_insertion, cur, x, what="knot_insertion")
        M = K.toarray() @ M
        t = np.sort(np.concatenate([t, [x]]))
        cur = bspline.KnotVector(t.copy(), p)
    ctx.close("knot_insertion", M, R, rtol=0, atol=1e-12 * nrm)
    # pointwise identity on a unisolvent point set (function values, independent evaluator)
    xs = np.unique(np.concatenate([rb.greville(fine, p), [fine[0], fine[-1]]]))
    Ec = rb.colloc(kn, p, xs)
    Ef = rb.colloc(fine, p, xs)
    ctx.close("pointwise_identity", Ef @ P.toarray(), Ec, rtol=0, atol=1e-10)
    coincide = any(x in set(kn.tolist()) for x in new) or len(set(new)) < len(new)
    ctx.flag("coinciding_knot" if coincide else None, "mult>1" if gk.has_multiple_knots(kvs) else None,
             "p0" if p == 0 else None, "p>=5" if p >= 5 else None, "no_new_knots" if not new else None)
    ctx.nontrivial = coincide or gk.has_multiple_knots(kvs) or p >= 5


@st.composite
def strat_knots(draw):
    kvs = draw(gk.knotvec(pmin=0, pmax=8, nmax=6, decades=3))
    p = kvs["p"]
    br = kvs["breaks"]
    a, b = br[0], br[-1]
    # multiplicity budget per value: at most p in total
    existing = {x: m for x, m in zip(br[1:-1], kvs["mults"])}
    new = []
    count = dict(existing)
    k = draw(st.integers(0, 6))
    for _ in range(k):
        if draw(st.booleans()) and len(br) > 2:
            x = br[draw(st.integers(1, len(br) - 2))]          # coincide with an existing interior knot
        else:
            s = draw(st.integers(0, len(br) - 2))
            f = draw(st.integers(1, 15)) / 16.0
            x = br[s] + f * (br[s + 1] - br[s])
        if not (a < x < b):
            continue
        if count.get(x, 0) + 1 > max(p, 1):
            continue
        if p == 0 and count.get(x, 0) >= 1:
            continue
        count[x] = count.get(x, 0) + 1
        new.append(x)
    return {"kv": kvs, "new": new}


# ---------------------------------------------------------------------------------------------
# helpers for hierarchical spaces

def virtual_basis(ref, k, truncate, L):
    """Basis of virtual level k in pyiga's virtual dof order (active functions of levels <= k in canonical
    order, then the deactivated functions of level k), represented on level L-1."""
    cols = []
    for l in range(k + 1):
        act, dea = ref.functions(l)
        funcs = sorted(act) + (sorted(dea) if l == k else [])
        idx = [ref.ravel(l, jj) for jj in funcs]
        n = int(np.prod(ref.ndofs(l)))
        M = np.eye(n)[:, idx]
        for m in range(l + 1, k + 1):
            M = ref.P(m - 1) @ M
            if truncate:
                a, d = ref.functions(m)
                rows = [ref.ravel(m, jj) for jj in (a | d)]
                M[rows, :] = 0.0
        cols.append(ref.rep(k, L - 1) @ M)
    return np.concatenate(cols, axis=1)


def _classes(ctx, spec, ref, info):
    L = ref.trimmed_levels()
    ctx.flag("dim%d" % spec["dim"], "levels%d" % L, "thb" if spec["truncate"] else "hb",
             "disparity_%s" % spec["disparity"], "disparity_added_cells" if info["disparity_added"] else None)
    return L


def check_virtual(spec, ctx):
    hs, ref, info = gh.replay(spec, ctx)
    if info["calls"] == 0:
        raise Skip("no effective refinement")
    L = _classes(ctx, spec, ref, info)
    # The queries below are observations of one object; none of them may change what a later one returns.  They are
    # run in a generated order, and the first one is repeated at the end.
    def q_tp():
        # level prolongators of the underlying tensor-product meshes
        for lv in range(L - 1):
            Ps = ctx.sut(hs.tp_prolongation, lv, what="tp_prolongation")
            for ax in range(ref.dim):
                ctx.close("tp_prolongation", Ps[ax], ref.P1(lv, ax), rtol=0, atol=1e-11)
            if lv == 0:
                Pk = ctx.sut(hs.tp_prolongation, lv, kron=True, what="tp_prolongation(kron)")
                ctx.close("tp_prolongation_kron", Pk, ref.P(lv), rtol=0, atol=1e-11)

    def q_virtual(trunc):
        name = "virtual_thb" if trunc else "virtual_hb"
        Ps = ctx.sut(hs.virtual_hierarchy_prolongators, truncate=trunc, what="virtual_hierarchy_prolongators")
        ctx.require(name, len(Ps) == L - 1, "number of prolongators %d for %d levels" % (len(Ps), L))
        V = [virtual_basis(ref, k, trunc, L) for k in range(L)]
        # finest virtual level = the space itself, in canonical order
        Ifull = ref.I_thb(L) if trunc else ref.I_hb(L)
        ctx.close("ref_consistency", V[L - 1], Ifull, rtol=0, atol=1e-12)
        comp = None
        for k in range(L - 1):
            Pk = Ps[k].toarray() if hasattr(Ps[k], "toarray") else np.asarray(Ps[k])
            ctx.require(name, Pk.shape == (V[k + 1].shape[1], V[k].shape[1]), "prolongator %d has shape %r, expected %r"
                        % (k, Pk.shape, (V[k + 1].shape[1], V[k].shape[1])))
            comp = Pk if comp is None else Pk @ comp
        # composition from every intermediate level k: same functions (=> columns span exactly level k's space)
        for k in range(L - 1):
            c = None
            for m in range(k, L - 1):
                Pm = Ps[m].toarray()
                c = Pm if c is None else Pm @ c
            try:
                ctx.close(name, Ifull @ c, V[k], rtol=0, atol=1e-10, what="composition from virtual level %d" % k)
            except Violation as v:
                v.detail["from_level"] = k
                v.detail["levels"] = L
                raise
            rk = np.linalg.matrix_rank(Ifull @ c)
            ctx.require(name, rk == V[k].shape[1], "columns from level %d have rank %d, expected %d" % (k, rk, V[k].shape[1]))

    def q_rep(trunc):
        R = ctx.sut(hs.represent_fine, truncate=trunc, what="represent_fine(truncate=%s)" % trunc)
        R = R.toarray() if hasattr(R, "toarray") else np.asarray(R)
        Lh = hs.numlevels
        Iref = (ref.I_thb(L) if trunc else ref.I_hb(L))
        if Lh > L:      # pyiga keeps an empty finest level after a finite-disparity refinement: compare on its finest mesh
            Iref = ref.rep(L - 1, Lh - 1) @ Iref
        ctx.close("represent_fine_thb" if trunc else "represent_fine_hb", R, Iref, rtol=0, atol=1e-11)

    def q_rep_lv(trunc):
        # represent_fine(lv=k): the basis of virtual level k (active functions of levels <= k, then the deactivated functions
        # of level k) in terms of the tensor-product basis of level k; prolongated exactly to the finest level it must be V_k
        for k in range(L):
            R = ctx.sut(hs.represent_fine, lv=k, truncate=trunc, what="represent_fine(lv=%d, truncate=%s)" % (k, trunc))
            R = R.toarray() if hasattr(R, "toarray") else np.asarray(R)
            Vk = virtual_basis(ref, k, trunc, L)
            n_k = int(np.prod(ref.ndofs(k)))
            ctx.require("represent_fine_lv_shape", R.shape == (n_k, Vk.shape[1]),
                        "represent_fine(lv=%d) has shape %r, expected %r" % (k, R.shape, (n_k, Vk.shape[1])))
            ctx.close("represent_fine_lv_thb" if trunc else "represent_fine_lv_hb", ref.rep(k, L - 1) @ R, Vk, rtol=0, atol=1e-11,
                      what="virtual level %d of %d" % (k, L))
        if L >= 3:
            ctx.flag("represent_fine_intermediate_level")

    def q_default():
        # default argument follows hs.truncate
        Pd = ctx.sut(hs.virtual_hierarchy_prolongators, what="virtual_hierarchy_prolongators()")
        Pe = hs.virtual_hierarchy_prolongators(truncate=spec["truncate"])
        for a, b in zip(Pd, Pe):
            ctx.close("virtual_default", a, b.toarray(), rtol=0, atol=0)
    queries = [q_tp, lambda: q_virtual(False), lambda: q_virtual(True), lambda: q_rep(False), lambda: q_rep(True), q_default,
               lambda: q_rep_lv(False), lambda: q_rep_lv(True)]
    order = [int(i) % len(queries) for i in (spec.get("order") or range(len(queries)))]
    if "order" in spec and not any(i >= 6 for i in order):
        order = order + [6, 7]          # (orders generated before these two queries existed)
    deferred = None     # a violation of the THB virtual prolongators (open finding) must not hide the other queries
    for i in order:
        try:
            queries[i]()
        except Violation as v:
            if v.oracle != "virtual_thb" or deferred is not None:
                raise
            deferred = v
    for i in order[:2]:
        if deferred is not None and i == 2:
            continue
        try:
            queries[i]()
        except Violation as v:
            raise Violation("observation_changed_state", "query %d gives a different answer when repeated after the other "
                            "transfer queries on the same object: %s" % (i, v), **v.detail)
    if deferred is not None:
        raise deferred
    if order != sorted(order):
        ctx.flag("permuted_query_order")
    ctx.nontrivial = L >= 3 or spec["disparity"] is not None


def check_prolongate_to(spec, ctx):
    cut = spec["cut"]
    if cut >= len(spec["steps"]):
        raise Skip("no further refinement")
    hs_c, ref_c, info_c = gh.replay(spec, ctx, upto=cut)
    hs_f, ref_f, info_f = gh.replay(spec, ctx)
    if info_f["calls"] == info_c["calls"]:
        raise Skip("fine space equals coarse space")
    Lc, Lf = ref_c.trimmed_levels(), ref_f.trimmed_levels()
    _classes(ctx, spec, ref_f, info_f)
    sub = ctx.sut(hs_c.is_subspace_of, hs_f, what="is_subspace_of")
    ctx.require("is_subspace_of", bool(sub), "coarse space not recognised as subspace of its refinement")
    P = ctx.sut(hs_c.prolongate_to, hs_f, what="prolongate_to")
    Ic = ref_c.I_hb(Lc)
    If = ref_f.I_hb(Lf)
    Up = ref_f.rep(Lc - 1, Lf - 1)
    Pd = P.toarray()
    ctx.require("prolongate_to", Pd.shape == (If.shape[1], Ic.shape[1]), "shape %r" % (Pd.shape,))
    try:
        ctx.close("prolongate_to", If @ Pd, Up @ Ic, rtol=0, atol=1e-10)
    except Violation as v:
        v.detail.update({"Lc": Lc, "Lf": Lf, "disparity": spec["disparity"]})
        raise
    # a space is a subspace of itself with the identity prolongation
    Pid = ctx.sut(hs_f.prolongate_to, hs_f, what="prolongate_to(self)")
    ctx.close("prolongate_to_self", Pid, np.eye(If.shape[1]), rtol=0, atol=1e-12)
    ctx.flag("leveldiff%d" % (Lf - Lc), "coarse_single_level" if Lc == 1 else None)
    ctx.nontrivial = Lf >= 3 or (spec["disparity"] is not None and Lf - Lc >= 2)


@st.composite
def strat_prolongate(draw):
    spec = draw(gh.history(dims=(1, 2), pmax=3, max_steps=4, disparities=(None, 1, 2), bdspecs_mode="none",
                           containers=("set",)))
    spec["cut"] = draw(st.integers(0, max(0, len(spec["steps"]) - 1)))
    return spec


def _boundary_ref(ref, axis, side, L):
    """Reference model of the restriction to a face: (dim-1)-dimensional nested cell sets."""
    kv0 = [kv for ax, kv in enumerate(ref.levels[0]) if ax != axis]
    rbd = rh.RefHSpace(kv0)
    rbd.ensure_levels(L)
    rbd.active = [set() for _ in range(L)]
    rbd.deact = [set() for _ in range(L)]
    for l in range(L):
        n = ref.ncells(l)[axis]
        idx = 0 if side == 0 else n - 1
        for c in ref.active[l]:
            if c[axis] == idx:
                rbd.active[l].add(c[:axis] + c[axis + 1:])
        for c in ref.deact[l]:
            if c[axis] == idx:
                rbd.deact[l].add(c[:axis] + c[axis + 1:])
    return rbd


def check_boundary(spec, ctx):
    hs, ref, info = gh.replay(spec, ctx)
    if info["calls"] == 0:
        raise Skip("no effective refinement")
    L = _classes(ctx, spec, ref, info)
    axis, side = spec["face"]
    axis = axis % ref.dim
    names = {(ref.dim - 1, 0): "left", (ref.dim - 1, 1): "right", (ref.dim - 2, 0): "bottom", (ref.dim - 2, 1): "top",
             (ref.dim - 3, 0): "front", (ref.dim - 3, 1): "back"}
    bd = names[(axis, side)] if spec.get("byname") and (axis, side) in names else (axis, side)
    hb, idx = ctx.sut(hs.boundary, bd, what="HSpace.boundary")
    idx = np.asarray(idx, dtype=int)
    rbd = _boundary_ref(ref, axis, side, L)
    Lb = rbd.trimmed_levels()
    ctx.require("boundary_levels", hb.numlevels == Lb, "boundary space has %d levels, expected %d" % (hb.numlevels, Lb))
    for l in range(Lb):
        ctx.equal("boundary_cells", set(tuple(int(x) for x in c) for c in hb.active_cells(l)), rbd.active[l], "active cells level %d" % l)
        a, d = rbd.functions(l)
        ctx.equal("boundary_functions", set(tuple(int(x) for x in j) for j in hb.active_functions(l)), a, "active functions level %d" % l)
    # index mapping: exactly the active functions that do not vanish on the face, in canonical order
    funcs = ref.canonical_functions(L)
    exp_idx = [i for i, (l, jj) in enumerate(funcs) if jj[axis] == (0 if side == 0 else ref.ndofs(l)[axis] - 1)]
    ctx.equal("boundary_index_set", sorted(idx.tolist()), exp_idx, "boundary dof indices")
    ctx.require("boundary_index_unique", len(set(idx.tolist())) == len(idx), "duplicate boundary dofs")
    # function identity on the face: restricting the finest-level TP coefficients to the face
    for trunc in (False, True):
        Ifull = ref.I_thb(L) if trunc else ref.I_hb(L)
        Ib = rbd.I_thb(Lb) if trunc else rbd.I_hb(Lb)
        n = Ifull.shape[1]
        u = np.array(spec["u"] * (n // len(spec["u"]) + 1))[:n]
        shape = ref.ndofs(L - 1)
        cf = (Ifull @ u).reshape(shape)
        face = np.take(cf, 0 if side == 0 else shape[axis] - 1, axis=axis)
        # boundary space may have fewer levels: lift its representation to level L-1
        lift = rbd.rep(Lb - 1, L - 1) if Lb < L else np.eye(Ib.shape[0])
        ub = u[idx]
        ctx.close("boundary_function_thb" if trunc else "boundary_function_hb", (lift @ (Ib @ ub)).reshape(face.shape), face,
                  rtol=0, atol=1e-11 * (1 + np.max(np.abs(u))))
    ctx.flag("face_axis%d_side%d" % (axis, side))
    ctx.nontrivial = L >= 3 or spec["truncate"] or spec["disparity"] is not None


@st.composite
def strat_boundary(draw):
    spec = draw(gh.history(dims=(2, 3), pmax=3, max_steps=3, disparities=(None, 1, 2), bdspecs_mode="any"))
    spec["face"] = [draw(st.integers(0, 2)), draw(st.integers(0, 1))]
    spec["byname"] = draw(st.booleans())
    spec["u"] = [draw(st.integers(-8, 8)) / 4.0 for _ in range(13)]
    return spec


def check_hsplinefunc(spec, ctx):
    from pyiga import hierarchical
    hs, ref, info = gh.replay(spec, ctx)
    if info["calls"] == 0:
        raise Skip("no effective refinement")
    L = _classes(ctx, spec, ref, info)
    dim = ref.dim
    n = hs.numdofs
    u = np.array(spec["u"] * (n // len(spec["u"]) + 1))[:n].astype(float)
    fin = ref.levels[L - 1]
    minp = min(p for _, p in fin)
    for trunc in (None, False, True):
        eff = spec["truncate"] if trunc is None else trunc
        I = ref.I_thb(L) if eff else ref.I_hb(L)
        co = (I @ u).reshape(ref.ndofs(L - 1))
        rs = rg.RefSpline(fin, co)
        f = ctx.sut(hierarchical.HSplineFunc, hs, u.copy(), truncate=trunc, what="HSplineFunc")
        grid = [np.array(g, dtype=float) for g in spec["grid"]]
        order = min(2, minp)
        R = rs.on_grid(grid, order)
        sc = np.max(np.abs(u)) + 1
        got = ctx.sut(f.grid_eval, grid, what="HSplineFunc.grid_eval")
        ctx.close("hspline_grid_eval", got, R[0], rtol=0, atol=1e-11 * sc)
        got2 = ctx.sut(hs.grid_eval, u.copy(), grid, truncate=trunc, what="HSpace.grid_eval")
        ctx.close("hspace_grid_eval", got2, R[0], rtol=0, atol=1e-11 * sc)
        kvspecs = spec["kvs"]
        # derivatives are compared away from knots of the finest level (midpoint grids), see generator
        if order >= 1:
            h = min(float(np.min(np.diff(np.unique(t)))) for t, _ in fin)
            J = ctx.sut(f.grid_jacobian, grid, what="HSplineFunc.grid_jacobian")
            ctx.close("hspline_grid_jacobian", J, R[1], rtol=0, atol=1e-10 * sc / h)
        if order >= 2:
            H = ctx.sut(f.grid_hessian, grid, what="HSplineFunc.grid_hessian")
            ctx.close("hspline_grid_hessian", H, rg.hess_linearized(R[2], dim), rtol=0, atol=1e-9 * sc / h ** 2)
        pt = [float(grid[dim - 1 - j][0]) for j in range(dim)]
        v = ctx.sut(f, *pt, what="HSplineFunc.__call__")
        ctx.close("hspline_call", np.asarray(v), R[0][tuple([0] * dim)], rtol=0, atol=1e-11 * sc)
        # levelwise contributions sum to the function
        fl = ctx.sut(hs.coeffs_to_levelwise_funcs, u.copy(), truncate=trunc, what="coeffs_to_levelwise_funcs")
        ctx.require("levelwise", len(fl) == L, "number of levelwise functions")
    ctx.nontrivial = L >= 3 or spec["truncate"] or spec["disparity"] is not None


@st.composite
def strat_hsplinefunc(draw):
    spec = draw(gh.history(dims=(1, 2, 3), pmax=3, max_steps=3, max_levels=3, disparities=(None, 1, 2), bdspecs_mode="none"))
    spec["u"] = [draw(st.integers(-8, 8)) / 4.0 for _ in range(13)]
    # evaluation grid: points strictly inside cells of the finest possible level (level 2 => 4 sub-cells per coarse cell):
    # relative position inside a level-0 cell = (2k+1)/16 ... never on a knot of levels 0..3
    grid = []
    for k in spec["kvs"]:
        br = k["breaks"]
        pts = []
        for _ in range(draw(st.integers(1, 3))):
            s = draw(st.integers(0, len(br) - 2))
            f = (2 * draw(st.integers(0, 15)) + 1) / 32.0
            pts.append(br[s] + f * (br[s + 1] - br[s]))
        # plus end points (values are continuous there; derivatives one-sided inside the domain)
        grid.append(sorted(set(pts)))
    spec["grid"] = grid
    return spec


@st.composite
def _virtual_strat(draw):
    spec = draw(gh.history(dims=(1, 2), pmax=3, max_steps=4, disparities=(None, 1, 2), bdspecs_mode="none", containers=("set",)))
    spec["order"] = draw(st.permutations(list(range(8))))
    return spec


def _virtual_strategy(tier):
    return _virtual_strat()


SUBCHECKS = [
    Sub("knots", check_knots, strategy=lambda tier: strat_knots(), quick=1000, thorough=30000, floor=50,
        rule="bspline.prolongation / knot_insertion / refine vs exact rational Boehm matrices"),
    Sub("virtual", check_virtual, strategy=_virtual_strategy, quick=160, thorough=5000, floor=20, timeout_q=400,
        rule="tp_prolongation factors; virtual_hierarchy_prolongators (HB and THB): composition from every virtual level "
             "reproduces that level's basis functions (=> spans exactly that space); represent_fine (HB/THB); the queries run "
             "in a generated order on one object and the first two are repeated at the end (observations do not change state)"),
    Sub("prolongate_to", check_prolongate_to, strategy=lambda tier: strat_prolongate(), quick=160, thorough=5000, floor=20,
        timeout_q=400, rule="coarse = history prefix, fine = full history: I_fine P = Up I_coarse on HB coefficients"),
    Sub("boundary", check_boundary, strategy=lambda tier: strat_boundary(), quick=128, thorough=4000, floor=20, timeout_q=400,
        rule="HSpace.boundary: face cells/functions, index mapping, function identity on the face (HB and THB)"),
    Sub("hsplinefunc", check_hsplinefunc, strategy=lambda tier: strat_hsplinefunc(), quick=128, thorough=4000, floor=20,
        timeout_q=400, rule="HSplineFunc grid_eval/jacobian/hessian/__call__ vs evaluation of represent_fine*u on the finest level"),
]


def _known_thb_virtual(spec, viol):
    """Open finding: the THB virtual-hierarchy prolongators are computed as
    (I + A_k) @ P_k^HB  (levelwise inverse truncation applied to each HB prolongator separately), which does
    not preserve functions on >= 3 levels.  The predicate matches only if pyiga's prolongators are still
    EXACTLY this known-wrong formula evaluated with reference quantities; any other deviation is reported."""
    if viol.oracle != "virtual_thb" or viol.detail.get("levels", 0) < 3:
        return False
    from ..core import Ctx
    hs, ref, info = gh.replay(spec, Ctx())
    L = ref.trimmed_levels()
    Ps = [P.toarray() for P in hs.virtual_hierarchy_prolongators(truncate=True)]
    Vhb = [virtual_basis(ref, k, False, L) for k in range(L)]
    nt = np.cumsum([len(ref.functions(l)[0]) for l in range(L)])
    for k in range(L - 1):
        Phb = np.linalg.lstsq(Vhb[k + 1], Vhb[k], rcond=None)[0]
        n1 = Vhb[k + 1].shape[1]
        A = np.zeros((n1, n1))
        actk1 = sorted(ref.functions(k + 1)[0])
        rows = [ref.ravel(k + 1, jj) for jj in actk1]
        col = 0
        for l in range(k + 1):
            act = sorted(ref.functions(l)[0])
            R = ref.rep(l, k + 1)
            for jj in act:
                A[nt[k]:nt[k] + len(rows), col] = R[rows, ref.ravel(l, jj)]
                col += 1
        pred = (np.eye(n1) + A) @ Phb
        if Ps[k].shape != pred.shape or np.max(np.abs(Ps[k] - pred)) > 1e-9:
            return False
    return True


KNOWN = {"thb_virtual_prolongators_order": _known_thb_virtual}

"""C18 - low-rank tensor formats are faithful to the full tensor they represent.

Sub-checks
  opseq      model-based operation sequences: a pool of (pyiga tensor, reference ndarray, rounding scale,
             accumulated absolute error) is evolved by a generated list of operations; after EVERY step the
             expansion of every pool entry is compared with the numpy reference.
  canop      Kronecker-rank operators (CanonicalOperator) against dense Kronecker sums.
  hosvd      hosvd / truncate / compress / find_truncation_rank guarantees.
  helpers    dense helper functions of pyiga.tensor (mode products, outer products, matricize, pad, ...).
  generator  TensorGenerator entry generators for every index expression; utils.cartesian_product.
  aca        aca / aca_lr / aca_3d on matrices / tensors of exact rank r.
  greedy     als1 / als / grou / gta: error histories, stopping rule, consistency of the returned tensor.
"""
import signal

import numpy as np
import scipy.sparse
import scipy.sparse.linalg
from hypothesis import strategies as st

from ..core import Sub, Violation, Skip
from ..ref import c18_dense as rd

LEVEL = "exploration"
RULE = ("generated JSON specs; tensor entries come from numpy RandomState(seed) with the seed drawn by "
        "Hypothesis; operation sequences are lists of relative operations (operand = index into the pool, "
        "index expressions / operators resolved against the actual shape at run time) so that the whole "
        "sequence shrinks as one value.  Non-trivial (opseq): >= 3 effective steps mixing two formats, or a "
        "stepped/negative slice, or a singleton axis, or a rank-0 term")
ASSUMPTIONS = ["numpy/scipy dense linear algebra (einsum-free tensordot expansions, SVD for singular values)",
               "documented data attributes Xs / Us / X of the tensor classes are read (never methods) where the "
               "reference of an operation is defined on the representation (truncate, join_tucker_bases)"]
EPS = float(np.finfo(float).eps)
K_ROUND = 512.0          # rounding allowance: K_ROUND * eps * (natural scale of the computation)
TINY = 1e-290


# =============================================================================================
# building tensors from descriptors
# =============================================================================================

def _vals(rs, shape, kind, scale):
    shape = tuple(int(n) for n in shape)
    if kind == "int":
        v = rs.randint(-3, 4, size=shape).astype(float)
    elif kind == "pos":
        v = rs.uniform(0.1, 1.0, size=shape)
    else:
        v = rs.uniform(-1.0, 1.0, size=shape)
    return v * scale


def _T():
    from pyiga import tensor
    return tensor


def fmt_of(obj):
    T = _T()
    if isinstance(obj, np.ndarray):
        return "full"
    if isinstance(obj, T.CanonicalTensor):
        return "canon"
    if isinstance(obj, T.TuckerTensor):
        return "tucker"
    if isinstance(obj, T.TensorSum):
        return "sum"
    if isinstance(obj, T.TensorProd):
        return "prod"
    return "other:" + type(obj).__name__


def build_tensor(desc, shape, ctx):
    """Returns dict(obj, ref, s, a).  `shape` overrides desc['shape'] (fresh operands)."""
    T = _T()
    shape = tuple(int(n) for n in (shape if shape is not None else desc["shape"]))
    d = len(shape)
    rs = np.random.RandomState(int(desc["seed"]))
    scale = 10.0 ** int(desc.get("scale_exp", 0))
    kind = desc.get("kind", "uni")
    fmt = desc["fmt"]
    if fmt == "full":
        A = _vals(rs, shape, kind, scale)
        return {"obj": A.copy(), "ref": A, "s": rd.fro(A), "a": 0.0}
    if fmt in ("canon", "cvec", "cterms"):
        R = int(desc.get("rank", 1))
        if fmt == "cvec":
            R = 1
        Xs = [_vals(rs, (n, R), kind, scale if j == 0 else 1.0) for j, n in enumerate(shape)]
        ref = rd.expand_canonical(Xs)
        s = rd.abs_canonical_scale(Xs)
        if fmt == "cvec":
            obj = ctx.sut(T.CanonicalTensor, tuple(X[:, 0].copy() for X in Xs), what="CanonicalTensor(vectors)")
            ctx.flag("init:canon_from_vectors")
        elif fmt == "cterms" and R >= 1:
            terms = [tuple(X[:, r].copy() for X in Xs) for r in range(R)]
            obj = ctx.sut(T.CanonicalTensor.from_terms, terms, what="CanonicalTensor.from_terms")
            ctx.flag("init:from_terms")
        else:
            obj = ctx.sut(T.CanonicalTensor, tuple(X.copy() for X in Xs), what="CanonicalTensor")
        if R == 0:
            ctx.flag("rank0")
        return {"obj": obj, "ref": ref, "s": s, "a": 0.0}
    if fmt == "tucker":
        ranks = [int(r) for r in desc.get("ranks", [1, 1, 1, 1, 1])]
        ranks = [ranks[j % len(ranks)] for j in range(d)]
        Us = [_vals(rs, (n, r), kind, 1.0) for n, r in zip(shape, ranks)]
        X = _vals(rs, ranks, kind, scale)
        bal = int(desc.get("balance", 0))
        if bal:
            # the same tensor with badly balanced factors: bases scaled by 2^bal, core by 2^(-bal*d) (exact in binary)
            Us = [U * 2.0 ** bal for U in Us]
            X = X * 2.0 ** (-bal * d)
            ctx.flag("tucker:unbalanced_factors")
        ref = rd.expand_tucker(Us, X).reshape(shape)
        obj = ctx.sut(T.TuckerTensor, tuple(U.copy() for U in Us), X.copy(), what="TuckerTensor")
        if 0 in ranks:
            ctx.flag("rank0")
        return {"obj": obj, "ref": ref, "s": rd.tucker_scale(Us, X), "a": 0.0}
    if fmt in ("czeros", "tzeros"):
        cls = T.CanonicalTensor if fmt == "czeros" else T.TuckerTensor
        obj = ctx.sut(cls.zeros, shape, what=cls.__name__ + ".zeros")
        ctx.flag("rank0", "init:zeros")
        return {"obj": obj, "ref": np.zeros(shape), "s": 0.0, "a": 0.0}
    if fmt in ("cones", "tones"):
        cls = T.CanonicalTensor if fmt == "cones" else T.TuckerTensor
        obj = ctx.sut(cls.ones, shape, what=cls.__name__ + ".ones")
        ctx.flag("init:ones")
        return {"obj": obj, "ref": np.ones(shape), "s": float(np.sqrt(np.prod(shape))), "a": 0.0}
    raise ValueError("unknown tensor descriptor %r" % (fmt,))


def _asarray(ctx, obj, what="asarray"):
    T = _T()
    got = ctx.sut(T.asarray, obj, what=what)
    return np.array(got, dtype=float, copy=True)


def _tol(it):
    return K_ROUND * EPS * it["s"] + it["a"] * (1 + 1e-9) + TINY


def check_item(ctx, it, oracle):
    obj, ref = it["obj"], it["ref"]
    if not hasattr(obj, "shape"):
        raise Violation(oracle + ":type", "result %r is not a tensor" % type(obj).__name__)
    if tuple(obj.shape) != ref.shape:
        raise Violation(oracle + ":shape", "shape %r, numpy reference has %r" % (tuple(obj.shape), ref.shape))
    if int(obj.ndim) != ref.ndim:
        raise Violation(oracle + ":ndim", "ndim %r != %d" % (obj.ndim, ref.ndim))
    got = _asarray(ctx, obj, what=oracle + ":asarray")
    if it["a"] > 0:
        oracle += "(incl. requested compression error)"
    ctx.close(oracle, got, ref, rtol=0.0, atol=_tol(it))
    rv = np.asarray(ctx.sut(obj.ravel, what=oracle + ":ravel"), dtype=float)
    ctx.close(oracle + ":ravel", rv, ref.ravel(), rtol=0.0, atol=_tol(it))
    it["last"] = got


def check_scalar(ctx, val, ref, tol, oracle):
    if not np.isscalar(val):
        raise Violation(oracle + ":type", "expected a scalar entry, got %s" % type(val).__name__)
    ctx.close(oracle, float(val), float(ref), rtol=0.0, atol=tol)


# =============================================================================================
# index expressions (relative description -> concrete index for a given shape)
# =============================================================================================

def resolve_index(ix, shape):
    """Returns (index tuple for [] , per-axis orthogonal description, class flags)."""
    d = len(shape)
    axes = ix["axes"]
    nidx = max(1, d - int(ix.get("drop", 0))) if d > 0 else 0
    kinds = []
    flags = set()
    have_list = False
    for k in range(nidx):
        n = shape[k]
        a = axes[k % len(axes)]
        if a[0] == "i" and n > 0:
            t = int(a[1]) % n
            if a[2]:
                t -= n
            kinds.append(["i", t, int(a[3])])
        elif a[0] == "l" and not have_list and n > 0:
            have_list = True
            L = []
            for t in a[1]:
                t = int(t)
                v = t % n
                if (t // n) % 2 == 1:
                    v -= n
                L.append(v)
            kinds.append(["l", L, bool(a[2])])
        elif a[0] == "s":
            kinds.append(["s", a[1], a[2], a[3]])
        else:
            kinds.append(["s", None, None, None])
    # numpy-compatible regime: with an index list, integer indices must be adjacent to it
    if have_list:
        kl = [k for k, c in enumerate(kinds) if c[0] == "l"][0]
        keep = {kl}
        k = kl - 1
        while k >= 0 and kinds[k][0] == "i":
            keep.add(k)
            k -= 1
        k = kl + 1
        while k < nidx and kinds[k][0] == "i":
            keep.add(k)
            k += 1
        for k in range(nidx):
            if kinds[k][0] == "i" and k not in keep:
                t = kinds[k][1] % shape[k]
                kinds[k] = ["s", t, t + 1, None]
                flags.add("idx:int_to_unit_slice")
    idx = []
    orth = []
    for k, c in enumerate(kinds):
        if c[0] == "i":
            t = c[1]
            v = [t, np.int64(t), np.int32(t)][c[2] % 3]
            idx.append(v)
            orth.append(int(t))
            flags.add("idx:int")
            if t < 0:
                flags.add("idx:negative_int")
            if c[2] % 3:
                flags.add("idx:numpy_int")
        elif c[0] == "l":
            idx.append(np.array(c[1], dtype=int) if c[2] else list(c[1]))
            orth.append(list(c[1]))
            flags.add("idx:list")
            if len(c[1]) == 0:
                flags.add("idx:empty_list")
            if any(v < 0 for v in c[1]):
                flags.add("idx:list_negative")
        else:
            sl = slice(c[1], c[2], c[3])
            idx.append(sl)
            orth.append(sl)
            if c[3] not in (None, 1):
                flags.add("idx:step")
            if c[3] is not None and c[3] < 0:
                flags.add("idx:negative_step")
            if (c[1] is not None and c[1] < 0) or (c[2] is not None and c[2] < 0):
                flags.add("idx:negative_bound")
            if len(range(shape[k])[sl]) == 0:
                flags.add("idx:empty_slice")
    if nidx < d:
        flags.add("idx:missing_trailing")
    orth = orth + [slice(None)] * (d - nidx)
    if nidx == 1 and ix.get("bare", False):
        index = idx[0]
        flags.add("idx:bare")
    else:
        index = tuple(idx)
    return index, orth, flags


def ref_index(ref, index, orth):
    """numpy's own indexing; cross-checked against the orthogonal definition (must coincide in the
    generated regime, otherwise the case is outside the domain)."""
    r1 = ref[index]
    r2 = rd.orth_index(ref, orth)
    if np.shape(r1) != np.shape(r2) or not np.array_equal(r1, r2):
        raise Skip("index expression outside the regime where numpy and orthogonal indexing coincide")
    return r1


@st.composite
def st_index(draw, allow_empty=True):
    axes = []
    for _ in range(5):
        kind = draw(st.sampled_from(["i", "i", "s", "s", "s", "l"]))
        if kind == "i":
            axes.append(["i", draw(st.integers(0, 7)), draw(st.booleans()), draw(st.sampled_from([0, 0, 1, 2]))])
        elif kind == "s":
            bnd = st.one_of(st.none(), st.integers(-6, 6))
            step = draw(st.sampled_from([None, None, 1, 2, 3, -1, -1, -2, -3]))
            axes.append(["s", draw(bnd), draw(bnd), step])
        else:
            L = draw(st.lists(st.integers(0, 15), min_size=0 if allow_empty else 1, max_size=4))
            axes.append(["l", L, draw(st.booleans())])
    return {"axes": axes, "drop": draw(st.sampled_from([0, 0, 0, 1, 2, 3])), "bare": draw(st.booleans())}


# =============================================================================================
# operators for mode products
# =============================================================================================

def build_mats(mdesc, shape, ctx=None):
    """Per-axis operators (pyiga side) and their dense versions; entry None = identity."""
    ops, dense = [], []
    nops = max(0, len(shape) - int(mdesc.get("drop", 0)))
    kinds = set()
    for k in range(nops):
        m = mdesc["mats"][k % len(mdesc["mats"])]
        n = int(shape[k])
        if m is None or m[0] == "none":
            ops.append(None)
            dense.append(None)
            kinds.add("op:none")
            continue
        kind, rows, seed = m[0], int(m[1]), int(m[2])
        rs = np.random.RandomState(seed)
        B = rs.randint(-2, 3, size=(rows, n)).astype(float) if m[3] else rs.uniform(-1, 1, size=(rows, n))
        if kind == "sparse":
            B = B * (rs.uniform(size=B.shape) < 0.6)
            ops.append(scipy.sparse.csr_matrix(B))
        elif kind == "csc":
            B = B * (rs.uniform(size=B.shape) < 0.6)
            ops.append(scipy.sparse.csc_matrix(B))
        elif kind == "linop":
            ops.append(scipy.sparse.linalg.aslinearoperator(B.copy()))
        else:
            ops.append(B.copy())
        dense.append(B)
        kinds.add("op:" + kind)
    return ops, dense, kinds


@st.composite
def st_mats(draw):
    mats = []
    for _ in range(5):
        kind = draw(st.sampled_from(["none", "dense", "dense", "sparse", "csc", "linop"]))
        if kind == "none":
            mats.append(["none"])
        else:
            mats.append([kind, draw(st.integers(1, 4)), draw(st.integers(0, 10 ** 6)), draw(st.booleans())])
    return {"mats": mats, "drop": draw(st.sampled_from([0, 0, 0, 1, 2]))}


# =============================================================================================
# opseq: the model-based operation sequence
# =============================================================================================

MAX_SIZE = 6000


def _pick(pool, i):
    return pool[int(i) % len(pool)]


def _same_shape_partner(pool, op, shape, ctx, allowed=None):
    """Second operand: the op['b']-th pool entry with this shape (and allowed format), else a fresh tensor."""
    b = op.get("b")
    if b is not None:
        cands = [it for it in pool if it["ref"].shape == tuple(shape)
                 and (allowed is None or fmt_of(it["obj"]) in allowed)]
        if cands:
            return cands[int(b) % len(cands)], False
    desc = dict(op["fresh"])
    if allowed is not None and _desc_fmt(desc) not in allowed:
        desc["fmt"] = "tucker" if "tucker" in allowed else sorted(allowed)[0]
    return build_tensor(desc, shape, ctx), True


def _desc_fmt(desc):
    f = desc["fmt"]
    if f in ("canon", "cvec", "cterms", "czeros", "cones"):
        return "canon"
    if f in ("tucker", "tzeros", "tones"):
        return "tucker"
    return "full"


def _lift(ctx, it):
    """ndarray entries take part in class operators through TensorSum(A)."""
    T = _T()
    if fmt_of(it["obj"]) == "full":
        ctx.flag("lift_ndarray_to_TensorSum")
        return dict(it, obj=ctx.sut(T.TensorSum, it["obj"], what="TensorSum(ndarray)"))
    return it


MAX_CORE = 20000
MAX_CRANK = 48


def _tucker_cost(obj, d):
    """Size of the Tucker core needed to hold `obj` (None: not a canonical/Tucker tensor)."""
    f = fmt_of(obj)
    if f == "canon":
        return [int(obj.R)] * d
    if f == "tucker":
        return [int(r) for r in obj.R]
    return None


def _too_big_sum(A, B):
    """True if A (+/-) B would create an unreasonably large representation (operation is skipped)."""
    d = A["ref"].ndim
    fa, fb = fmt_of(A["obj"]), fmt_of(B["obj"])
    if fa == "canon" and fb == "canon":
        return A["obj"].R + B["obj"].R > MAX_CRANK
    ca, cb = _tucker_cost(A["obj"], d), _tucker_cost(B["obj"], d)
    if ca is None or cb is None:
        return False
    return float(np.prod([x + y for x, y in zip(ca, cb)], dtype=float)) > MAX_CORE


EXPECT_ADD = {("canon", "canon"): "canon", ("canon", "tucker"): "tucker", ("canon", "full"): "full",
              ("tucker", "tucker"): "tucker", ("tucker", "canon"): "tucker", ("tucker", "full"): "full"}


def _factor_norms(mats_dense):
    p = 1.0
    for B in mats_dense:
        if B is not None:
            p *= max(rd.fro(B), 0.0)
    return p


def apply_op(op, pool, ctx, spec):
    """Executes one operation.  Returns (list of new pool entries, effective: bool)."""
    T = _T()
    name = op["op"]
    A = _pick(pool, op["a"])
    fa = fmt_of(A["obj"])

    if name == "neg":
        A = _lift(ctx, A)
        obj = ctx.sut(lambda: -A["obj"], what="__neg__")
        if fmt_of(obj) != fmt_of(A["obj"]):
            raise Violation("neg:type", "-%s gives %s" % (fmt_of(A["obj"]), fmt_of(obj)))
        return [{"obj": obj, "ref": -A["ref"], "s": A["s"], "a": A["a"], "why": "neg"}], True

    if name in ("add", "sub"):
        A = _lift(ctx, A)
        fa = fmt_of(A["obj"])
        B, fresh = _same_shape_partner(pool, op, A["ref"].shape, ctx)
        fb = fmt_of(B["obj"])
        if fa in ("canon", "tucker") and fb in ("sum", "prod"):
            A, B, fa, fb = B, A, fb, fa       # class operators of TensorSum/TensorProd accept any tensor
        if _too_big_sum(A, B):
            return [], False
        if name == "add":
            obj = ctx.sut(lambda: A["obj"] + B["obj"], what="__add__(%s,%s)" % (fa, fb))
            ref = A["ref"] + B["ref"]
        else:
            obj = ctx.sut(lambda: A["obj"] - B["obj"], what="__sub__(%s,%s)" % (fa, fb))
            ref = A["ref"] - B["ref"]
        exp = EXPECT_ADD.get((fa, fb), "sum")
        if fmt_of(obj) != exp:
            raise Violation(name + ":type", "%s %s %s gives %s, documented %s" % (fa, name, fb, fmt_of(obj), exp))
        ctx.flag("%s:%s,%s" % (name, fa, fb))
        if fa != fb:
            ctx.flag("mixed_format_arithmetic")
        return [{"obj": obj, "ref": ref, "s": A["s"] + B["s"], "a": A["a"] + B["a"], "why": name}], True

    if name == "getitem":
        A = _lift(ctx, A)
        fa = fmt_of(A["obj"])
        if A["ref"].ndim == 0:
            return [], False
        index, orth, flags = resolve_index(op["index"], A["ref"].shape)
        ref = ref_index(A["ref"], index, orth)
        ctx.flag(*flags)
        ctx.flag("getitem:" + fa)
        res = ctx.sut(lambda: A["obj"][index], what="__getitem__(%s)" % fa)
        spec_flags = flags & {"idx:step", "idx:negative_step", "idx:negative_bound", "idx:negative_int"}
        if spec_flags:
            ctx.notes["stepneg"] = True
        if np.ndim(ref) == 0:
            ctx.flag("getitem:scalar_entry")
            check_scalar(ctx, res, ref, _tol(A), "getitem:scalar")
            return [], True
        if fmt_of(res) != fa:
            raise Violation("getitem:type", "slicing a %s gives %s" % (fa, fmt_of(res)))
        return [{"obj": res, "ref": np.array(ref), "s": A["s"], "a": A["a"], "why": "getitem"}], True

    if name == "squeeze":
        if fa not in ("canon", "tucker"):
            return [], False
        shape = A["ref"].shape
        single = [k for k, n in enumerate(shape) if n == 1]
        mode = op.get("mode", "all")
        if mode == "invalid":
            non = [k for k, n in enumerate(shape) if n != 1]
            if not non:
                return [], False
            k = non[int(op.get("k", 0)) % len(non)]
            try:
                A["obj"].squeeze(k)
            except ValueError:
                ctx.flag("squeeze:invalid_axis_rejected")
                return [], True
            except Exception as e:
                raise Violation("squeeze:invalid_axis", "squeeze(%d) of shape %r raised %s instead of ValueError"
                                % (k, shape, type(e).__name__))
            raise Violation("squeeze:invalid_axis", "squeeze(%d) of shape %r did not raise" % (k, shape))
        if mode == "all" or not single:
            axis = None
            ref = np.squeeze(A["ref"])
        elif mode == "one":
            axis = single[int(op.get("k", 0)) % len(single)]
            ref = np.squeeze(A["ref"], axis=axis)
        else:
            m = int(op.get("k", 0))
            axis = tuple(k for j, k in enumerate(single) if (m >> j) & 1 or j == m % len(single))
            ref = np.squeeze(A["ref"], axis=axis)
        res = ctx.sut(lambda: A["obj"].squeeze() if axis is None else A["obj"].squeeze(axis), what="squeeze(%s)" % fa)
        ctx.flag("squeeze:" + fa)
        if single:
            ctx.flag("squeeze:with_singleton")
        if ref.ndim == 0:
            check_scalar(ctx, res, ref, _tol(A), "squeeze:scalar")
            return [], True
        if fmt_of(res) != fa:
            raise Violation("squeeze:type", "squeeze of %s gives %s" % (fa, fmt_of(res)))
        return [{"obj": res, "ref": np.array(ref), "s": A["s"], "a": A["a"], "why": "squeeze"}], True

    if name == "nway":
        ops, dense, kinds = build_mats(op["mats"], A["ref"].shape)
        ref = A["ref"]
        for k, B in enumerate(dense):
            if B is not None:
                ref = rd.mode_prod(ref, B, k)
        if ref.size > MAX_SIZE:
            return [], False
        if op.get("method", False) and fa != "full":
            res = ctx.sut(A["obj"].nway_prod, ops, what="nway_prod(%s)" % fa)
        else:
            res = ctx.sut(T.apply_tprod, ops, A["obj"], what="apply_tprod(%s)" % fa)
        if fmt_of(res) != fa:
            raise Violation("nway:type", "apply_tprod on %s gives %s" % (fa, fmt_of(res)))
        ctx.flag("nway:" + fa)
        ctx.flag(*kinds)
        f = _factor_norms(dense)
        return [{"obj": res, "ref": ref, "s": A["s"] * f, "a": A["a"] * f, "why": "nway"}], True

    if name == "pad":
        d = A["ref"].ndim
        if d == 0:
            return [], False
        widths = []
        for k in range(d):
            w = op["widths"][k % len(op["widths"])]
            widths.append(None if w is None else (int(w[0]), int(w[1])))
        ref = np.pad(A["ref"], [(0, 0) if w is None else w for w in widths], "constant")
        if ref.size > MAX_SIZE:
            return [], False
        res = ctx.sut(T.pad, A["obj"], widths, what="pad(%s)" % fa)
        if fmt_of(res) != fa:
            raise Violation("pad:type", "pad of %s gives %s" % (fa, fmt_of(res)))
        ctx.flag("pad:" + fa)
        return [{"obj": res, "ref": ref, "s": A["s"], "a": A["a"], "why": "pad"}], True

    if name == "to_tucker":
        if fa == "canon" and float(A["obj"].R) ** A["ref"].ndim > MAX_CORE:
            return [], False
        res = ctx.sut(T.TuckerTensor.from_tensor, A["obj"], what="TuckerTensor.from_tensor(%s)" % fa)
        if fmt_of(res) != "tucker":
            raise Violation("to_tucker:type", "from_tensor gives %s" % fmt_of(res))
        ctx.flag("to_tucker:" + fa)
        return [{"obj": res, "ref": A["ref"], "s": A["s"], "a": A["a"], "why": "to_tucker"}], True

    if name == "mksum":
        others = []
        for j in range(int(op.get("n", 1))):
            B, _ = _same_shape_partner(pool, dict(op, b=None if op.get("b") is None else int(op["b"]) + j),
                                       A["ref"].shape, ctx)
            others.append(B)
        items = [A] + others
        res = ctx.sut(T.TensorSum, *[it["obj"] for it in items], what="TensorSum")
        ctx.flag("mksum:%d" % len(items))
        return [{"obj": res, "ref": sum(it["ref"] for it in items), "s": sum(it["s"] for it in items),
                 "a": sum(it["a"] for it in items), "why": "mksum"}], True

    if name == "mkprod1":
        # product with a single factor ("an arbitrary number of tensors"), by default a plain ndarray, and a sum which has
        # that product as its FIRST term; the factor, the product and the sum all enter the pool, so every later step
        # re-expands all three
        if op.get("full", True) and fa != "full":
            F = {"obj": np.array(A["ref"], dtype=float, copy=True), "ref": A["ref"], "s": rd.fro(A["ref"]), "a": 0.0,
                 "why": "mkprod1:factor"}
            new = [F]
        else:
            F, new = A, []
        P = {"obj": ctx.sut(T.TensorProd, F["obj"], what="TensorProd(single factor)"), "ref": F["ref"], "s": F["s"],
             "a": F["a"], "why": "mkprod1"}
        new.append(P)
        B, _ = _same_shape_partner(pool, op, F["ref"].shape, ctx)
        if op.get("minus"):
            S = ctx.sut(lambda: P["obj"] - B["obj"], what="TensorProd - tensor")
            ref = F["ref"] - B["ref"]
        else:
            S = ctx.sut(lambda: P["obj"] + B["obj"], what="TensorProd + tensor")
            ref = F["ref"] + B["ref"]
        new.append({"obj": S, "ref": ref, "s": F["s"] + B["s"], "a": F["a"] + B["a"], "why": "mkprod1:sum"})
        ctx.flag("mkprod1:%s,%s" % (fmt_of(F["obj"]), fmt_of(B["obj"])))
        return new, True

    if name == "mkprod":
        B = _pick(pool, op.get("b") or 0)
        if op.get("vec") is not None:
            rs = np.random.RandomState(int(op["vec"][1]))
            v = rs.randint(-3, 4, size=int(op["vec"][0])).astype(float)
            B = {"obj": v.copy(), "ref": v, "s": rd.fro(v), "a": 0.0}
        if A["ref"].ndim + B["ref"].ndim > 5 or A["ref"].size * B["ref"].size > MAX_SIZE:
            return [], False
        res = ctx.sut(T.TensorProd, A["obj"], B["obj"], what="TensorProd")
        ref = np.multiply.outer(A["ref"], B["ref"])
        na, nb = rd.fro(A["ref"]), rd.fro(B["ref"])
        ctx.flag("mkprod:%s,%s" % (fa, fmt_of(B["obj"])))
        return [{"obj": res, "ref": ref, "s": A["s"] * B["s"],
                 "a": A["a"] * nb + na * B["a"] + A["a"] * B["a"], "why": "mkprod"}], True

    if name == "norm":
        got = ctx.sut(T.fro_norm, A["obj"], what="fro_norm(%s)" % fa)
        ref = rd.fro(A["ref"])
        ctx.flag("norm:" + fa)
        _check_norm(ctx, got, ref, A, "norm")
        return [], True

    if name == "copy":
        if fa not in ("canon", "tucker"):
            return [], False
        res = ctx.sut(A["obj"].copy, what="copy(%s)" % fa)
        if fmt_of(res) != fa:
            raise Violation("copy:type", "copy of %s gives %s" % (fa, fmt_of(res)))
        mats = res.Xs if fa == "canon" else res.Us
        orig = A["obj"].Xs if fa == "canon" else A["obj"].Us
        for M, O in zip(mats, orig):
            if np.shares_memory(M, O) and M.size:
                raise Violation("copy:deep", "copy() shares memory with the original")
        ctx.flag("copy:" + fa)
        return [{"obj": res, "ref": A["ref"], "s": A["s"], "a": A["a"], "why": "copy"}], True

    # ---- Tucker-only operations: other formats are converted first (conversion is itself checked) ----
    if name in ("orth", "compress", "truncate", "to_canon", "join"):
        if fa != "tucker":
            if A["ref"].ndim == 0 or (fa == "canon" and float(A["obj"].R) ** A["ref"].ndim > MAX_CORE):
                return [], False
            conv = ctx.sut(T.TuckerTensor.from_tensor, A["obj"], what="TuckerTensor.from_tensor(%s)" % fa)
            A = dict(A, obj=conv)
            ctx.flag("to_tucker:" + fa)
        TA = A["obj"]
        Us = [np.array(U, dtype=float) for U in TA.Us]
        X = np.array(TA.X, dtype=float)
        rep_scale = rd.tucker_scale(Us, X)
        s = max(A["s"], rep_scale)

        if name == "orth":
            res = ctx.sut(TA.orthogonalize, what="orthogonalize")
            if fmt_of(res) != "tucker":
                raise Violation("orth:type", "orthogonalize gives %s" % fmt_of(res))
            for k, U in enumerate(res.Us):
                U = np.asarray(U, dtype=float)
                G = U.T.dot(U)
                ctx.close("orth:UtU", G, np.eye(G.shape[0]), rtol=0.0, atol=1e-12 * max(1, U.shape[0]),
                          what="factor %d" % k)
                if U.shape[0] != Us[k].shape[0] or U.shape[1] > Us[k].shape[1]:
                    raise Violation("orth:shape", "factor %d has shape %r (was %r)" % (k, U.shape, Us[k].shape))
            ctx.flag("orth")
            return [{"obj": res, "ref": A["ref"], "s": s, "a": A["a"], "why": "orth"}], True

        if name == "compress":
            nrm = rd.fro(A["ref"])
            kw = {}
            tol_eff_parts = []
            if op.get("tol_exp") is not None:
                kw["tol"] = 10.0 ** int(op["tol_exp"]) * (nrm if op.get("tol_rel", True) and nrm > 0 else 1.0)
            if op.get("rtol_exp") is not None:
                kw["rtol"] = 10.0 ** int(op["rtol_exp"])
            tol = kw.get("tol", 1e-15)
            rtol = kw.get("rtol", 1e-15)
            bound = max(tol, rtol * (nrm + A["a"] + K_ROUND * EPS * s))
            res = ctx.sut(lambda: TA.compress(**kw), what="compress")
            if fmt_of(res) != "tucker":
                raise Violation("compress:type", "compress gives %s" % fmt_of(res))
            if tuple(res.shape) != A["ref"].shape:
                raise Violation("compress:shape", "shape %r != %r" % (tuple(res.shape), A["ref"].shape))
            got = _asarray(ctx, res, what="compress:asarray")
            err = rd.fro(got - A["ref"])
            allowed = bound * (1 + 1e-9) + A["a"] + K_ROUND * EPS * s + TINY
            ctx.ratio("compress:error/requested_tolerance(a bound, not a rounding tolerance)", err / allowed)
            if err > allowed:
                raise Violation("compress:tolerance", "error %.3g exceeds requested max(tol=%.3g, rtol=%.3g*|T|=%.3g)"
                                % (err, tol, rtol, rtol * nrm))
            for k, (rn, ro) in enumerate(zip(res.R, TA.R)):
                if rn > min(ro, A["ref"].shape[k]):
                    raise Violation("compress:rank", "mode-%d rank grew from %d to %d" % (k, ro, rn))
            # minimal rank: all singular values below bound/1000 (safely) are removed by the greedy truncation
            pert = A["a"] + K_ROUND * EPS * s
            if pert <= 1e-3 * bound and A["ref"].size:
                thr = 1e-3 * bound / max(1, A["ref"].ndim * max(A["ref"].shape))
                rks = [int(np.sum(rd.mode_singular_values(A["ref"], k) > thr)) for k in range(A["ref"].ndim)]
                if min(rks) == 0:
                    # the whole tensor is below the tolerance: the core must have been emptied
                    if 0 not in tuple(res.R):
                        raise Violation("compress:not_minimal", "tensor of norm %.3g not truncated to rank 0 "
                                        "(tol %.3g): rank %r" % (nrm, bound, tuple(res.R)))
                else:
                    for k in range(A["ref"].ndim):
                        if res.R[k] > rks[k]:
                            raise Violation("compress:not_minimal", "mode-%d rank %d kept although only %d singular "
                                            "values exceed tol/1000 (tol %.3g)" % (k, res.R[k], rks[k], bound))
                ctx.flag("compress:rank_checked")
            ctx.flag("compress", "compress:zero_tensor" if nrm == 0 else
                     "compress:reltol_decade_%d" % int(np.floor(np.log10(max(bound / nrm, 1e-20)))))
            return [{"obj": res, "ref": A["ref"], "s": s, "a": A["a"] + bound, "why": "compress"}], True

        if name == "truncate":
            d = len(Us)
            if op.get("scalar", True):
                k = int(op["k"][0])
                ks = [k] * d
                arg = k
            else:
                ks = [int(op["k"][j % len(op["k"])]) for j in range(d)]
                arg = tuple(ks) if op.get("as_tuple", True) else list(ks)
            U2 = [U[:, :kk] for U, kk in zip(Us, ks)]
            X2 = X[tuple(slice(None, kk) for kk in ks)]
            ref = rd.expand_tucker(U2, X2)
            res = ctx.sut(TA.truncate, arg, what="truncate")
            if fmt_of(res) != "tucker":
                raise Violation("truncate:type", "truncate gives %s" % fmt_of(res))
            exp_R = tuple(min(kk, r) for kk, r in zip(ks, X.shape))
            if tuple(res.R) != exp_R:
                raise Violation("truncate:rank", "truncate(%r) of rank %r gives rank %r" % (arg, X.shape, tuple(res.R)))
            ctx.flag("truncate")
            if any(kk < r for kk, r in zip(ks, X.shape)):
                ctx.flag("truncate:effective")
            return [{"obj": res, "ref": ref, "s": max(rd.tucker_scale(U2, X2), 0.0), "a": 0.0, "why": "truncate"}], True

        if name == "to_canon":
            if X.size > 600:
                return [], False
            res = ctx.sut(T.CanonicalTensor.from_tensor, TA, what="CanonicalTensor.from_tensor")
            if fmt_of(res) != "canon":
                raise Violation("to_canon:type", "from_tensor gives %s" % fmt_of(res))
            drop = 1e-15 * X.size
            for U in Us:
                drop *= max(rd.fro(U), 1e-300)
            ctx.flag("to_canon")
            return [{"obj": res, "ref": A["ref"], "s": s, "a": A["a"] + drop, "why": "to_canon"}], True

        if name == "join":
            B, fresh = _same_shape_partner(pool, op, A["ref"].shape, ctx, allowed={"tucker"})
            TB = B["obj"]
            if _too_big_sum(A, B):
                return [], False
            out = ctx.sut(T.join_tucker_bases, TA, TB, what="join_tucker_bases")
            try:
                U, X1, X2 = out
                U = [np.asarray(u, dtype=float) for u in U]
                X1 = np.asarray(X1, dtype=float)
                X2 = np.asarray(X2, dtype=float)
            except Exception:
                raise Violation("join:type", "join_tucker_bases did not return (U, X1, X2)")
            for k, u in enumerate(U):
                exp = np.hstack((Us[k], np.asarray(TB.Us[k], dtype=float)))
                if u.shape != exp.shape or not np.array_equal(u, exp):
                    raise Violation("join:basis", "joint basis %d is not the concatenation of the two bases" % k)
            if X1.shape != X2.shape:
                raise Violation("join:core_shape", "core shapes %r / %r" % (X1.shape, X2.shape))
            ctx.close("join:first", rd.expand_tucker(U, X1), A["ref"], rtol=0.0, atol=_tol(dict(A, s=s)))
            ctx.close("join:second", rd.expand_tucker(U, X2), B["ref"], rtol=0.0,
                      atol=_tol(dict(B, s=max(B["s"], rd.tucker_scale(TB.Us, TB.X)))))
            res = ctx.sut(T.TuckerTensor, tuple(U), X1 - X2, what="TuckerTensor(joint)")
            ctx.flag("join")
            return [{"obj": res, "ref": A["ref"] - B["ref"], "s": s + B["s"], "a": A["a"] + B["a"], "why": "join"}], True

    raise ValueError("unknown op %r" % (name,))


def _check_norm(ctx, got, ref, A, oracle):
    if not np.isscalar(got) and np.ndim(got) != 0:
        raise Violation(oracle + ":type", "norm is not a scalar")
    got = float(got)
    tol = _tol(A)
    # Gram-type norms lose half the digits under cancellation: accept the conditioning of  ||.||^2  as well
    sq_tol = K_ROUND * EPS * A["s"] ** 2 + 2 * A["a"] * (ref + A["a"]) + TINY
    lin = abs(got - ref) / tol if got == got else float("inf")
    sq = abs(got * got - ref * ref) / sq_tol if got == got else float("inf")
    r = min(lin, sq)
    ctx.ratio(oracle, r)
    if r > 1.0:
        raise Violation(oracle, "norm %r, numpy reference %r (scale %.3g)" % (got, ref, A["s"]))


def run_opseq(spec, ctx):
    pool = []
    for desc in spec["init"]:
        it = build_tensor(desc, None, ctx)
        it["why"] = "init"
        check_item(ctx, it, "init:" + fmt_of(it["obj"]))
        pool.append(it)
        if 1 in it["ref"].shape:
            ctx.flag("singleton_axis")
        ctx.flag("order%d" % it["ref"].ndim)
    effective = 0
    formats = set(fmt_of(it["obj"]) for it in pool)
    for step, op in enumerate(spec["ops"]):
        new, eff = apply_op(op, pool, ctx, spec)
        if not eff:
            ctx.flag("noop:" + op["op"])
            continue
        effective += 1
        ctx.flag("op:" + op["op"])
        for it in new:
            check_item(ctx, it, "step:" + op["op"])
            if 0 in it["ref"].shape:
                # tensors with an empty axis are checked as results but not used as operands
                ctx.flag("empty_axis_result")
                new = [x for x in new if x is not it]
                continue
            pool.append(it)
            formats.add(fmt_of(it["obj"]))
            if 1 in it["ref"].shape:
                ctx.flag("singleton_axis")
            if fmt_of(it["obj"]) == "canon" and it["obj"].R == 0:
                ctx.flag("rank0")
            if fmt_of(it["obj"]) == "tucker" and 0 in tuple(it["obj"].R):
                ctx.flag("rank0")
        # no operation may modify its operands: every pool entry still expands to the same array
        for it in pool[:len(pool) - len(new)]:
            again = _asarray(ctx, it["obj"], what="re-expansion")
            if again.shape != it["last"].shape or not np.array_equal(again, it["last"]):
                raise Violation("operand_modified", "an earlier tensor (created by %s) changed after operation %s"
                                % (it.get("why"), op["op"]))
    # ... and at the end every entry (incl. the newest) is expanded once more: a first expansion may not change the object
    for it in pool:
        again = _asarray(ctx, it["obj"], what="final re-expansion")
        if again.shape != it["last"].shape or not np.array_equal(again, it["last"]):
            raise Violation("operand_modified", "a tensor (created by %s) expands to a different array the second time / "
                            "after later expansions of tensors built from it" % it.get("why"))
    ctx.flag("effective_steps:%d" % min(effective, 9))
    flags = ctx.flags
    ctx.nontrivial = bool((effective >= 3 and len(formats) >= 2) or ctx.notes.get("stepneg")
                          or "singleton_axis" in flags or "rank0" in flags)


@st.composite
def st_shape(draw, sizes, orders=(1, 2, 2, 3, 3, 4)):
    n = draw(st.sampled_from(list(orders)))
    return draw(st.lists(st.sampled_from(list(sizes)), min_size=n, max_size=n))


FRESH_FMTS = ["canon", "canon", "canon", "tucker", "tucker", "tucker", "full", "czeros", "cones", "tzeros",
              "tones", "cvec", "cterms"]


@st.composite
def st_desc(draw, with_shape=True, maxorder=4):
    desc = {"fmt": draw(st.sampled_from(FRESH_FMTS)),
            "rank": draw(st.sampled_from([0, 1, 1, 2, 2, 3])),
            "ranks": draw(st.lists(st.sampled_from([0, 1, 2, 2, 3]), min_size=4, max_size=4)),
            "kind": draw(st.sampled_from(["int", "uni", "uni", "pos"])),
            "scale_exp": draw(st.sampled_from([0, 0, 0, 1, 3, -3])),
            "balance": draw(st.sampled_from([0, 0, 0, 0, -30, 30])),
            "seed": draw(st.integers(0, 10 ** 6))}
    if with_shape:
        desc["shape"] = draw(st_shape([1, 1, 2, 3, 3, 4, 5]))
    return desc


OPS_WEIGHTED = (["getitem"] * 6 + ["add"] * 4 + ["sub"] * 4 + ["neg"] * 2 + ["squeeze"] * 2 + ["nway"] * 3
                + ["pad"] * 2 + ["to_tucker"] * 2 + ["to_canon"] * 2 + ["orth"] * 2 + ["compress"] * 3
                + ["truncate"] * 2 + ["join"] * 2 + ["norm"] * 3 + ["copy"] + ["mksum"] * 2 + ["mkprod"] * 2 + ["mkprod1"] * 2)


@st.composite
def st_op(draw):
    name = draw(st.sampled_from(OPS_WEIGHTED))
    op = {"op": name, "a": draw(st.integers(-6, 11))}     # negative: counted from the newest pool entry
    if name in ("add", "sub", "join", "mksum", "mkprod1"):
        op["b"] = draw(st.one_of(st.none(), st.integers(-6, 11)))
        op["fresh"] = draw(st_desc(with_shape=False))
        if name == "mksum":
            op["n"] = draw(st.sampled_from([0, 1, 1, 2]))
        if name == "mkprod1":
            op["full"] = draw(st.sampled_from([True, True, True, False]))
            op["minus"] = draw(st.booleans())
    elif name == "getitem":
        op["index"] = draw(st_index())
    elif name == "squeeze":
        op["mode"] = draw(st.sampled_from(["all", "all", "one", "some", "invalid"]))
        op["k"] = draw(st.integers(0, 7))
    elif name == "nway":
        op["mats"] = draw(st_mats())
        op["method"] = draw(st.booleans())
    elif name == "pad":
        op["widths"] = draw(st.lists(st.one_of(st.none(), st.tuples(st.integers(0, 2), st.integers(0, 2))),
                                     min_size=5, max_size=5))
    elif name == "compress":
        op["tol_exp"] = draw(st.one_of(st.none(), st.integers(-14, -1)))
        op["rtol_exp"] = draw(st.one_of(st.none(), st.integers(-14, -1)))
        op["tol_rel"] = draw(st.booleans())
    elif name == "truncate":
        op["scalar"] = draw(st.booleans())
        op["as_tuple"] = draw(st.booleans())
        op["k"] = draw(st.lists(st.integers(0, 4), min_size=5, max_size=5))
    elif name == "mkprod":
        op["b"] = draw(st.integers(-6, 11))
        op["vec"] = draw(st.one_of(st.none(), st.tuples(st.integers(1, 4), st.integers(0, 10 ** 6))))
    return op


@st.composite
def st_opseq(draw, maxops=8):
    init = draw(st.lists(st_desc(), min_size=1, max_size=3))
    n = draw(st.sampled_from([1, 2, 3, 4, 5, 6, 7, 8, 8, 8, 6, 7][:12 if maxops >= 8 else 4]))
    ops = draw(st.lists(st_op(), min_size=n, max_size=n))
    return {"init": init, "ops": ops}



# =============================================================================================
# canop: Kronecker-rank operators
# =============================================================================================

def _dense(M):
    if scipy.sparse.issparse(M):
        return M.toarray().astype(float)
    return np.asarray(M, dtype=float)


def _op_dense(Aop):
    """Dense matrix of a CanonicalOperator from its documented `terms` attribute (own Kronecker sum)."""
    return rd.kron_sum([[_dense(t) for t in term] for term in Aop.terms])


def _mk_terms(rs, dims, R, termfmt, intvals):
    terms, dense = [], []
    for r in range(R):
        t, dt = [], []
        for (m, n) in dims:
            B = rs.randint(-2, 3, size=(m, n)).astype(float) if intvals else rs.uniform(-1, 1, size=(m, n))
            if termfmt != "dense":
                B = B * (rs.uniform(size=B.shape) < 0.7)
                if termfmt == "dia":
                    # scipy 1.18: dia @ dia raises RuntimeError/ValueError when an operand or the product has
                    # no stored diagonal -> keep DIA terms free of exact zeros
                    B = rs.uniform(0.1, 1.0, size=(m, n))
                M = scipy.sparse.csr_matrix(B).asformat(termfmt)
            else:
                M = B.copy()
            t.append(M)
            dt.append(B)
        terms.append(tuple(t))
        dense.append(dt)
    return terms, dense


def _term_scale(dense):
    tot = 0.0
    for dt in dense:
        p = 1.0
        for B in dt:
            p *= rd.fro(B)
        tot += p
    return tot


def _mk_x(T, rs, shape, xfmt, xrank, ctx):
    if xfmt == "canon":
        Xs = [rs.uniform(-1, 1, size=(n, xrank)) for n in shape]
        return ctx.sut(T.CanonicalTensor, tuple(Xs), what="CanonicalTensor"), rd.expand_canonical(Xs) if xrank else np.zeros(shape)
    if xfmt == "tucker":
        Us = [rs.uniform(-1, 1, size=(n, xrank)) for n in shape]
        C = rs.uniform(-1, 1, size=(xrank,) * len(shape))
        return ctx.sut(T.TuckerTensor, tuple(Us), C, what="TuckerTensor"), rd.expand_tucker(Us, C)
    if xfmt == "sum":
        Xs = [rs.uniform(-1, 1, size=(n, max(1, xrank))) for n in shape]
        A = rs.uniform(-1, 1, size=shape)
        C = ctx.sut(T.CanonicalTensor, tuple(Xs), what="CanonicalTensor")
        return ctx.sut(T.TensorSum, C, A.copy(), what="TensorSum"), rd.expand_canonical(Xs) + A
    if xfmt == "prod" and len(shape) >= 2:
        Xs = [rs.uniform(-1, 1, size=(n, max(1, xrank))) for n in shape[:1]]
        A = rs.uniform(-1, 1, size=shape[1:])
        C = ctx.sut(T.CanonicalTensor, tuple(Xs), what="CanonicalTensor")
        return ctx.sut(T.TensorProd, C, A.copy(), what="TensorProd"), np.multiply.outer(rd.expand_canonical(Xs), A)
    A = rs.uniform(-1, 1, size=shape)
    return A.copy(), A


def run_canop(spec, ctx):
    T = _T()
    rs = np.random.RandomState(int(spec["seed"]))
    d = int(spec["d"])
    dims = [tuple(int(v) for v in spec["dims"][j]) for j in range(d)]
    if spec["square"]:
        dims = [(m, m) for (m, n) in dims]
    termfmt = spec["termfmt"]
    sparse_terms = termfmt != "dense"
    shapeout = tuple(m for m, n in dims)
    shapein = tuple(n for m, n in dims)
    tA, dA = _mk_terms(rs, dims, int(spec["R"]), termfmt, spec["intvals"])
    tB, dB = _mk_terms(rs, dims, int(spec["R2"]), termfmt, spec["intvals"])
    A = ctx.sut(T.CanonicalOperator, tA, what="CanonicalOperator")
    B = ctx.sut(T.CanonicalOperator, tB, what="CanonicalOperator")
    MA, MB = rd.kron_sum(dA), rd.kron_sum(dB)
    sA, sB = _term_scale(dA), _term_scale(dB)
    ctx.flag("terms:" + termfmt, "d=%d" % d, "square" if all(m == n for m, n in dims) else "rectangular")
    ctx.equal("shape", (tuple(A.shape[0]), tuple(A.shape[1])), (shapeout, shapein), "shape")
    ctx.equal("R", int(A.R), int(spec["R"]), "R")
    ctx.equal("ndim", int(A.ndim), d, "ndim")

    def mat(Op, ref, scale, oracle, fmt=None):
        """compare an operator with its dense definition (own Kronecker sum of `terms`, and asmatrix)."""
        ctx.close(oracle + ":terms", _op_dense(Op), ref, rtol=0.0, atol=K_ROUND * EPS * scale + TINY)
        if sparse_terms:
            M = ctx.sut(Op.asmatrix, what=oracle + ":asmatrix") if fmt is None else \
                ctx.sut(Op.asmatrix, format=fmt, what=oracle + ":asmatrix")
            if not scipy.sparse.issparse(M):
                raise Violation(oracle + ":asmatrix", "asmatrix() returned %s" % type(M).__name__)
            ctx.close(oracle + ":asmatrix", M.toarray(), ref, rtol=0.0, atol=K_ROUND * EPS * scale + TINY)

    mat(A, MA, sA, "construct", fmt=spec["asformat"])
    # application to tensors in every format
    X, xref = _mk_x(T, rs, shapein, spec["xfmt"], int(spec["xrank"]), ctx)
    yref = MA.dot(xref.ravel()).reshape(shapeout)
    sx = sA * max(rd.fro(xref), 1.0) * max(1, int(spec["xrank"])) ** d
    Y = ctx.sut(A.apply, X, what="apply(%s)" % spec["xfmt"])
    ctx.close("apply", _asarray(ctx, Y), yref, rtol=0.0, atol=K_ROUND * EPS * sx + TINY)
    Y2 = ctx.sut(lambda: A @ X, what="__matmul__(tensor)")
    ctx.close("matmul_tensor", _asarray(ctx, Y2), yref, rtol=0.0, atol=K_ROUND * EPS * sx + TINY)
    ctx.flag("apply:" + spec["xfmt"])
    if spec["xfmt"] in ("canon", "tucker") and fmt_of(Y) != spec["xfmt"] and int(spec["R"]) == 1:
        raise Violation("apply:type", "rank-1 operator applied to %s gives %s" % (spec["xfmt"], fmt_of(Y)))
    # transpose
    At = ctx.sut(lambda: A.T, what="T")
    ctx.equal("T:shape", (tuple(At.shape[0]), tuple(At.shape[1])), (shapein, shapeout), "shape of transpose")
    mat(At, MA.T, sA, "T")
    # arithmetic
    mat(ctx.sut(lambda: A + B, what="__add__"), MA + MB, sA + sB, "add")
    mat(ctx.sut(lambda: A - B, what="__sub__"), MA - MB, sA + sB, "sub")
    mat(ctx.sut(lambda: -A, what="__neg__"), -MA, sA, "neg")
    ctx.equal("add:R", int((A + B).R), int(spec["R"]) + int(spec["R2"]), "rank of sum")
    # composition  A * C  with C : inner -> shapein
    inner = [int(v) for v in spec["inner"]][:d]
    dimsC = [(n, inner[j % len(inner)]) for j, (m, n) in enumerate(dims)]
    tC, dC = _mk_terms(rs, dimsC, int(spec["R2"]), termfmt, spec["intvals"])
    C = ctx.sut(T.CanonicalOperator, tC, what="CanonicalOperator")
    MC = rd.kron_sum(dC)
    AC = ctx.sut(lambda: A * C, what="__mul__")
    mat(AC, MA.dot(MC), sA * _term_scale(dC), "compose")
    ctx.equal("compose:R", int(AC.R), int(spec["R"]) * int(spec["R2"]), "rank of composition")
    mat(ctx.sut(lambda: A @ C, what="__matmul__(operator)"), MA.dot(MC), sA * _term_scale(dC), "matmul_operator")
    Z, zref = _mk_x(T, rs, tuple(n for m, n in dimsC), spec["xfmt"], int(spec["xrank"]), ctx)
    y1 = _asarray(ctx, ctx.sut(AC.apply, Z, what="(A*C).apply"))
    y2 = _asarray(ctx, ctx.sut(lambda: A.apply(C.apply(Z)), what="A.apply(C.apply)"))
    sz = sA * _term_scale(dC) * max(rd.fro(zref), 1.0) * max(1, int(spec["xrank"])) ** d
    ctx.close("compose:apply", y1, MA.dot(MC.dot(zref.ravel())).reshape(shapeout), rtol=0.0,
              atol=K_ROUND * EPS * sz + TINY)
    ctx.close("compose:apply_twice", y2, MA.dot(MC.dot(zref.ravel())).reshape(shapeout), rtol=0.0,
              atol=K_ROUND * EPS * sz + TINY)
    # Kronecker extension
    if MA.size * MB.size <= 250000:
        AB = ctx.sut(A.kron, B, what="kron")
        mat(AB, np.kron(MA, MB), sA * sB, "kron")
        ctx.equal("kron:shape", (tuple(AB.shape[0]), tuple(AB.shape[1])), (shapeout + shapeout, shapein + shapein),
                  "shape of kron")
        ctx.equal("kron:ndim", int(AB.ndim), 2 * d, "ndim of kron")
        ctx.flag("kron")
    # slicing (same limits for rows and columns of every factor)
    lim = []
    for j, (m, n) in enumerate(dims):
        q = min(m, n)
        a, b = spec["limits"][j % len(spec["limits"])]
        l0 = int(a) % q
        l1 = l0 + 1 + int(b) % (q - l0)
        lim.append((l0, l1))
    if termfmt in ("csr", "csc", "dense"):
        # (scipy's dia/coo matrices are not subscriptable: slicing such terms is a clean TypeError, out of domain)
        S = ctx.sut(A.slice, lim, what="slice")
        mat(S, rd.kron_sum([[Bm[l0:l1, l0:l1] for Bm, (l0, l1) in zip(dt, lim)] for dt in dA]), sA, "slice")
        ctx.equal("slice:shape", tuple(S.shape[0]), tuple(l1 - l0 for l0, l1 in lim), "shape of slice")
        ctx.flag("slice")
    # identity
    ns = shapein
    Id = ctx.sut(T.CanonicalOperator.eye, ns, what="eye")
    N = int(np.prod(ns))
    ctx.close("eye:asmatrix", ctx.sut(Id.asmatrix, what="eye:asmatrix").toarray(), np.eye(N), rtol=0.0, atol=0.0)
    ctx.close("eye:apply", _asarray(ctx, ctx.sut(Id.apply, X, what="eye.apply")), xref, rtol=0.0,
              atol=K_ROUND * EPS * max(rd.fro(xref), 1.0) * max(1, int(spec["xrank"])) ** d)
    ctx.close("eye:neg", _op_dense(ctx.sut(lambda: -Id, what="-eye")), -np.eye(N), rtol=0.0, atol=0.0)
    if all(m == n for m, n in dims) and sparse_terms:
        mat(ctx.sut(lambda: A - Id, what="A - eye"), MA - np.eye(N), sA + 1.0, "sub_eye")
        mat(ctx.sut(lambda: Id - A, what="eye - A"), np.eye(N) - MA, sA + 1.0, "eye_sub")
        ctx.flag("arith_with_eye")
    # operands unchanged
    ctx.close("operands_unchanged", _op_dense(A), MA, rtol=0.0, atol=0.0)
    ctx.nontrivial = d >= 2 or int(spec["R"]) >= 2


@st.composite
def st_canop(draw):
    d = draw(st.sampled_from([1, 2, 2, 3]))
    return {"d": d, "dims": draw(st.lists(st.tuples(st.integers(1, 4), st.integers(1, 4)), min_size=3, max_size=3)),
            "square": draw(st.booleans()), "R": draw(st.integers(1, 3)), "R2": draw(st.integers(1, 2)),
            "termfmt": draw(st.sampled_from(["csr", "csr", "csc", "dia", "coo", "dense"])),
            "asformat": draw(st.sampled_from([None, "csr", "csc", "coo"])),
            "intvals": draw(st.booleans()), "seed": draw(st.integers(0, 10 ** 6)),
            "xfmt": draw(st.sampled_from(["full", "canon", "tucker", "sum", "prod"])), "xrank": draw(st.integers(0, 2)),
            "inner": draw(st.lists(st.integers(1, 3), min_size=3, max_size=3)),
            "limits": draw(st.lists(st.tuples(st.integers(0, 5), st.integers(0, 5)), min_size=3, max_size=3))}


# =============================================================================================
# hosvd / truncate / compress / find_truncation_rank
# =============================================================================================

def _mk_dense_tensor(spec):
    rs = np.random.RandomState(int(spec["seed"]))
    shape = tuple(int(n) for n in spec["shape"])
    scale = 10.0 ** int(spec.get("scale_exp", 0))
    kind = spec["kind"]
    if kind == "full":
        return rs.uniform(-1, 1, size=shape) * scale
    ranks = [min(int(spec["ranks"][j % len(spec["ranks"])]), n) for j, n in enumerate(shape)]
    if kind == "canon":
        R = max(1, ranks[0])
        return rd.expand_canonical([rs.uniform(-1, 1, size=(n, R)) for n in shape]) * scale
    Us = [rs.uniform(-1, 1, size=(n, r)) for n, r in zip(shape, ranks)]
    C = rs.uniform(-1, 1, size=ranks)
    if kind == "decay":
        # geometrically decaying core: a meaningful target for every tolerance decade
        Us = [np.linalg.qr(rs.uniform(-1, 1, size=(n, n)))[0] for n in shape]
        C = rs.uniform(-1, 1, size=shape)
        for k, n in enumerate(shape):
            w = 10.0 ** (-float(spec.get("decay", 2)) * np.arange(n))
            C = C * w.reshape([-1 if j == k else 1 for j in range(len(shape))])
    return rd.expand_tucker(Us, C) * scale


def run_hosvd(spec, ctx):
    T = _T()
    X = _mk_dense_tensor(spec)
    d = X.ndim
    nX = rd.fro(X)
    ctx.flag("kind:" + spec["kind"], "order%d" % d)
    if 1 in X.shape:
        ctx.flag("singleton_axis")
    H = ctx.sut(T.hosvd, X.copy(), what="hosvd")
    if fmt_of(H) != "tucker":
        raise Violation("hosvd:type", "hosvd returns %s" % fmt_of(H))
    ctx.equal("hosvd:shape", tuple(H.shape), X.shape, "shape")
    Us = [np.asarray(U, dtype=float) for U in H.Us]
    C = np.asarray(H.X, dtype=float)
    tol12 = 1e-12 * nX + TINY
    ctx.close("hosvd:exact(asarray)", _asarray(ctx, H), X, rtol=0.0, atol=tol12)
    ctx.close("hosvd:exact(own expansion of Us,X)", rd.expand_tucker(Us, C), X, rtol=0.0, atol=tol12)
    for k, U in enumerate(Us):
        ctx.close("hosvd:UtU", U.T.dot(U), np.eye(U.shape[1]), rtol=0.0, atol=1e-12 * max(1, U.shape[0]),
                  what="factor %d" % k)
        others = int(np.prod([n for j, n in enumerate(X.shape) if j != k]))
        ctx.equal("hosvd:factor_shape", U.shape, (X.shape[k], min(X.shape[k], others)), "factor %d" % k)
        sv = rd.mode_singular_values(X, k)
        got = np.array([rd.fro(np.take(C, i, axis=k)) for i in range(C.shape[k])])
        ctx.close("hosvd:core_slices_are_singular_values", got, sv[:len(got)], rtol=0.0, atol=1e-11 * nX + TINY,
                  what="mode %d" % k)
    ctx.close("hosvd:norm", float(ctx.sut(H.norm, what="norm")), nX, rtol=0.0, atol=1e-12 * nX + TINY)
    svs = [rd.mode_singular_values(X, k) for k in range(d)]

    # truncate(k)
    ks = [max(0, min(int(spec["k"][j % len(spec["k"])]), C.shape[j])) for j in range(d)]
    arg = ks[0] if spec["k_scalar"] else tuple(ks)
    if spec["k_scalar"]:
        ks = [min(ks[0], C.shape[j]) for j in range(d)]
    Tk = ctx.sut(H.truncate, arg, what="truncate")
    ctx.equal("truncate:rank", tuple(Tk.R), tuple(ks), "rank after truncate(%r)" % (arg,))
    err = rd.fro(X - _asarray(ctx, Tk))
    kept = C[tuple(slice(None, kk) for kk in ks)]
    exact = float(np.sqrt(max(nX ** 2 - rd.fro(kept) ** 2, 0.0)))
    slack = 1e-7 * nX + TINY       # sqrt of a difference of squares: half precision
    sq_slack = 1e-12 * nX ** 2 + TINY
    ctx.ratio("truncate:error=discarded_core", abs(err ** 2 - exact ** 2) / sq_slack)
    if abs(err ** 2 - exact ** 2) > sq_slack:
        raise Violation("truncate:error=discarded_core", "truncation error %.6g, norm of discarded core %.6g" % (err, exact))
    upper = float(np.sqrt(sum(float(np.sum(svs[j][ks[j]:] ** 2)) for j in range(d))))
    lower = max(float(np.sqrt(np.sum(svs[j][ks[j]:] ** 2))) for j in range(d))
    if err > upper * (1 + 1e-9) + slack:
        raise Violation("truncate:quasi_optimal", "error %.6g exceeds sqrt(sum of discarded singular values^2) = %.6g"
                        % (err, upper))
    if err < lower * (1 - 1e-9) - slack:
        raise Violation("truncate:lower_bound", "error %.6g below the best mode-wise rank-k error %.6g" % (err, lower))
    if any(kk < c for kk, c in zip(ks, C.shape)):
        ctx.flag("truncate:effective")

    # compress with absolute / relative tolerance, starting from a non-orthogonal representation
    rs = np.random.RandomState(int(spec["seed"]) + 1)
    Ms = [rs.uniform(-1, 1, size=(U.shape[1], U.shape[1])) + 2 * np.eye(U.shape[1]) for U in Us]
    if spec["skew"]:
        G = ctx.sut(T.TuckerTensor, tuple(U.dot(M) for U, M in zip(Us, Ms)),
                    rd.expand_tucker([np.linalg.inv(M) for M in Ms], C), what="TuckerTensor")
        ctx.flag("compress:non_orthogonal_input")
    else:
        G = H
    kw = {}
    if spec["tol_exp"] is not None:
        kw["tol"] = 10.0 ** int(spec["tol_exp"]) * nX
    if spec["rtol_exp"] is not None:
        kw["rtol"] = 10.0 ** int(spec["rtol_exp"])
    bound = max(kw.get("tol", 1e-15), kw.get("rtol", 1e-15) * nX)
    Cp = ctx.sut(lambda: G.compress(**kw), what="compress")
    cerr = rd.fro(X - _asarray(ctx, Cp))
    cond = 1.0
    if spec["skew"]:
        for M in Ms:
            cond *= np.linalg.cond(M) if M.size else 1.0
    round_ = 1e-13 * nX * cond + TINY
    ctx.ratio("compress:error/requested_tolerance(a bound, not a rounding tolerance)", cerr / (bound * (1 + 1e-9) + round_))
    if cerr > bound * (1 + 1e-9) + round_:
        raise Violation("compress:tolerance", "error %.6g exceeds max(tol, rtol*|X|) = %.6g" % (cerr, bound))
    if nX > 0:
        ctx.flag("compress:reltol_decade_%d" % int(np.floor(np.log10(max(bound / nX, 1e-20)))))
    for k in range(d):
        if Cp.R[k] > C.shape[k]:
            raise Violation("compress:rank", "mode-%d rank %d exceeds %d" % (k, Cp.R[k], C.shape[k]))
    if round_ <= 1e-3 * bound and nX > 0:
        thr = 1e-3 * bound / max(1, d * max(X.shape))
        rks = [int(np.sum(svs[k] > thr)) for k in range(d)]
        if min(rks) == 0:
            if 0 not in tuple(Cp.R):
                raise Violation("compress:not_minimal", "tensor below the tolerance not truncated to rank 0")
        else:
            for k in range(d):
                if Cp.R[k] > rks[k]:
                    raise Violation("compress:not_minimal", "mode-%d rank %d kept although only %d singular values "
                                    "exceed tol/1000 (tol %.3g)" % (k, Cp.R[k], rks[k], bound))
        if any(r < c for r, c in zip(Cp.R, C.shape)):
            ctx.flag("compress:rank_reduced")

    # find_truncation_rank on the HOSVD core: guarantee and greedy maximality
    tolf = 10.0 ** int(spec["ftol_exp"]) * nX
    r = ctx.sut(T.find_truncation_rank, C.copy(), tolf, what="find_truncation_rank")
    r = tuple(int(v) for v in r)
    if len(r) != d or any(v < 0 or v > c for v, c in zip(r, C.shape)):
        raise Violation("find_truncation_rank:shape", "returned %r for a core of shape %r" % (r, C.shape))
    keptr = C[tuple(slice(None, v) for v in r)]
    disc2 = max(rd.fro(C) ** 2 - rd.fro(keptr) ** 2, 0.0)
    fr_slack = 1e-13 * nX ** 2
    if disc2 > tolf ** 2 * (1 + 1e-9) + fr_slack:
        raise Violation("find_truncation_rank:tolerance", "discarded part %.6g exceeds tol %.6g" % (np.sqrt(disc2), tolf))
    if keptr.size > 0:
        nxt = min(rd.fro(np.take(keptr, keptr.shape[k] - 1, axis=k)) ** 2 for k in range(d))
        if disc2 + nxt < tolf ** 2 * (1 - 1e-9) - fr_slack:
            raise Violation("find_truncation_rank:greedy", "a further slice (norm %.3g) could be removed within tol %.3g "
                            "(discarded so far %.3g)" % (np.sqrt(nxt), tolf, np.sqrt(disc2)))
    if r != C.shape:
        ctx.flag("find_truncation_rank:reduced")
    ctx.nontrivial = d >= 2 and nX > 0


@st.composite
def st_hosvd(draw):
    return {"shape": draw(st_shape([1, 2, 3, 3, 4, 5, 6])),
            "kind": draw(st.sampled_from(["full", "tucker", "tucker", "canon", "decay", "decay"])),
            "ranks": draw(st.lists(st.integers(1, 3), min_size=4, max_size=4)),
            "decay": draw(st.sampled_from([1, 2, 3, 4])),
            "scale_exp": draw(st.sampled_from([0, 0, 3, -3])), "seed": draw(st.integers(0, 10 ** 6)),
            "k": draw(st.lists(st.integers(0, 6), min_size=4, max_size=4)), "k_scalar": draw(st.booleans()),
            "skew": draw(st.booleans()),
            "tol_exp": draw(st.one_of(st.none(), st.integers(-12, -1))),
            "rtol_exp": draw(st.one_of(st.none(), st.integers(-12, -1))),
            "ftol_exp": draw(st.integers(-14, 0))}


# =============================================================================================
# helpers: dense helper functions of pyiga.tensor and utils
# =============================================================================================

def run_helpers(spec, ctx):
    T = _T()
    from pyiga import utils
    rs = np.random.RandomState(int(spec["seed"]))
    shape = tuple(int(n) for n in spec["shape"])
    d = len(shape)
    X = rs.randint(-4, 5, size=shape).astype(float) if spec["intvals"] else rs.uniform(-1, 1, size=shape)
    nX = max(rd.fro(X), 1.0)
    X0 = X.copy()
    k = int(spec["k"]) % d
    ops, dense, kinds = build_mats(spec["mats"], shape)
    ctx.flag(*kinds)
    # modek_tprod
    mk = spec["mats"]["mats"][k % len(spec["mats"]["mats"])]
    if k < len(ops) and ops[k] is not None:
        got = ctx.sut(T.modek_tprod, ops[k], k, X, what="modek_tprod(%s)" % mk[0])
        ctx.close("modek_tprod", got, rd.mode_prod(X, dense[k], k), rtol=0.0,
                  atol=K_ROUND * EPS * nX * max(rd.fro(dense[k]), 1.0))
        ctx.flag("modek_tprod")
    # apply_tprod on ndarrays, fewer operators than axes allowed
    ref = X
    for j, B in enumerate(dense):
        if B is not None:
            ref = rd.mode_prod(ref, B, j)
    got = ctx.sut(T.apply_tprod, ops, X, what="apply_tprod(ndarray)")
    ctx.close("apply_tprod", got, ref, rtol=0.0, atol=K_ROUND * EPS * nX * max(_factor_norms(dense), 1.0))
    if len(ops) < d:
        ctx.flag("apply_tprod:trailing_axes")
    # matricize: rows are the slices along axis k
    M = np.asarray(ctx.sut(T.matricize, X, k, what="matricize"))
    others = int(np.prod([n for j, n in enumerate(shape) if j != k]))
    ctx.equal("matricize:shape", M.shape, (shape[k], others), "shape")
    for i in range(shape[k]):
        ctx.equal("matricize:rows", np.sort(M[i]), np.sort(np.take(X, i, axis=k).ravel()), "row %d" % i)
    if d >= 2:
        j2 = (k + 1) % d
        # columns are consistent across rows: every column is a fibre of X along axis k
        fib = set(tuple(v) for v in np.moveaxis(X, k, -1).reshape(-1, shape[k]).tolist())
        for c in range(M.shape[1]):
            if tuple(M[:, c].tolist()) not in fib:
                raise Violation("matricize:columns", "column %d is not a mode-%d fibre of X" % (c, k))
    # outer / array_outer
    vs = [rs.randint(-3, 4, size=n).astype(float) for n in shape]
    ctx.equal("outer", np.asarray(ctx.sut(T.outer, *vs, what="outer")), rd.expand_canonical([v[:, None] for v in vs]), "outer")
    parts = []
    cut = int(spec["cut"]) % (d + 1)
    for sl in (slice(0, cut), slice(cut, d)):
        shp = shape[sl]
        if len(shp):
            parts.append(rs.randint(-3, 4, size=shp).astype(float))
    refo = parts[0]
    for Pp in parts[1:]:
        refo = np.multiply.outer(refo, Pp)
    ctx.equal("array_outer", np.asarray(ctx.sut(T.array_outer, *parts, what="array_outer")), refo, "array_outer")
    # norms / asarray pass-through
    ctx.close("fro_norm", float(ctx.sut(T.fro_norm, X, what="fro_norm")), rd.fro(X), rtol=64 * EPS, atol=TINY)
    ctx.equal("asarray", np.asarray(ctx.sut(T.asarray, X, what="asarray")), X, "asarray(ndarray)")
    # pad
    widths = []
    for j in range(d):
        w = spec["widths"][j % len(spec["widths"])]
        widths.append(None if w is None else (int(w[0]), int(w[1])))
    ctx.close("pad", ctx.sut(T.pad, X, widths, what="pad(ndarray)"),
              np.pad(X, [(0, 0) if w is None else w for w in widths], "constant"), rtol=0.0, atol=0.0)
    # multi_kron_sparse
    mats = [scipy.sparse.csr_matrix(rs.randint(-2, 3, size=(int(a), int(b))).astype(float)) for a, b in spec["kron"]]
    Kp = ctx.sut(utils.multi_kron_sparse, mats, format=spec["kfmt"], what="multi_kron_sparse")
    ctx.equal("multi_kron_sparse", Kp.toarray(), rd.dense_kron([m.toarray() for m in mats]), "multi_kron_sparse")
    if Kp.format != spec["kfmt"]:
        raise Violation("multi_kron_sparse:format", "format %s requested, got %s" % (spec["kfmt"], Kp.format))
    ctx.equal("operand_unchanged", X, X0, "input array modified")
    ctx.nontrivial = d >= 2


@st.composite
def st_helpers(draw):
    return {"shape": draw(st_shape([1, 2, 3, 3, 4])),
            "intvals": draw(st.booleans()), "seed": draw(st.integers(0, 10 ** 6)), "k": draw(st.integers(0, 3)),
            "mats": draw(st_mats()), "cut": draw(st.integers(0, 4)),
            "widths": draw(st.lists(st.one_of(st.none(), st.tuples(st.integers(0, 2), st.integers(0, 2))),
                                    min_size=4, max_size=4)),
            "kron": draw(st.lists(st.tuples(st.integers(1, 3), st.integers(1, 3)), min_size=1, max_size=3)),
            "kfmt": draw(st.sampled_from(["csr", "csc", "coo"]))}


# =============================================================================================
# generator: TensorGenerator
# =============================================================================================

def run_generator(spec, ctx):
    from pyiga import lowrank, utils
    rs = np.random.RandomState(int(spec["seed"]))
    shape = tuple(int(n) for n in spec["shape"])
    d = len(shape)
    X = rs.uniform(-1, 1, size=shape)
    mode = spec["mode"]
    calls = {"n": 0}
    if mode == "from_array":
        g = ctx.sut(lowrank.TensorGenerator.from_array, X, what="from_array")
    elif mode == "entryfunc":
        def entry(I):
            calls["n"] += 1
            return X[tuple(int(i) for i in I)]
        g = ctx.sut(lowrank.TensorGenerator, shape, entry, what="TensorGenerator(entryfunc)")
    else:
        def multi(indices):
            idx = np.array([tuple(int(i) for i in I) for I in indices], dtype=int).reshape(-1, d)
            return X[tuple(idx.T)]
        g = ctx.sut(lowrank.TensorGenerator, shape, multientryfunc=multi, what="TensorGenerator(multientryfunc)")
    ctx.flag("mode:" + mode, "order%d" % d)
    ctx.equal("shape", tuple(g.shape), shape, "shape")
    ctx.equal("ndim", int(g.ndim), d, "ndim")
    ctx.equal("asarray", np.asarray(ctx.sut(g.asarray, what="asarray")), X, "asarray()")
    stepneg = False
    for ix in spec["indices"]:
        index, orth, flags = resolve_index(ix, shape)
        ref = ref_index(X, index, orth)
        ctx.flag(*flags)
        got = ctx.sut(lambda: g[index], what="__getitem__")
        if np.ndim(ref) == 0:
            ctx.flag("getitem:scalar_entry")
            if np.ndim(got) != 0:
                raise Violation("getitem:scalar", "all-integer index returns shape %r" % (np.shape(got),))
        ctx.equal("getitem", np.asarray(got), np.asarray(ref), "g[%r]" % (index,))
        stepneg = stepneg or bool(flags & {"idx:step", "idx:negative_step", "idx:negative_bound", "idx:negative_int"})
    # single entries and lists of entries
    multi = [tuple(int(t) % n for t, n in zip(I, shape)) for I in spec["entries"]]
    for I in multi[:3]:
        ctx.equal("entry", float(ctx.sut(g.entry, I, what="entry")), float(X[I]), "entry(%r)" % (I,))
    got = np.asarray(ctx.sut(g.compute_entries, list(multi), what="compute_entries"))
    ctx.equal("compute_entries", got, np.array([X[I] for I in multi]), "compute_entries")
    # matrix slices
    if d >= 2:
        a0 = int(spec["axes"][0]) % d
        a1 = (a0 + 1 + int(spec["axes"][1]) % (d - 1)) % d
        I0 = list(multi[0]) if multi else [0] * d
        mg = ctx.sut(g.matrix_at, tuple(I0), (a0, a1), what="matrix_at")
        ref = np.empty((shape[a0], shape[a1]))
        for i in range(shape[a0]):
            for j in range(shape[a1]):
                J = list(I0)
                J[a0], J[a1] = i, j
                ref[i, j] = X[tuple(J)]
        ctx.equal("matrix_at:shape", tuple(mg.shape), ref.shape, "shape")
        ctx.equal("matrix_at:asarray", np.asarray(ctx.sut(mg.asarray, what="matrix_at.asarray")), ref, "matrix_at")
        index, orth, flags = resolve_index(spec["indices"][0], ref.shape)
        ctx.equal("matrix_at:getitem", np.asarray(ctx.sut(lambda: mg[index], what="matrix_at[]")),
                  np.asarray(ref_index(ref, index, orth)), "matrix_at(...)[%r]" % (index,))
        ctx.flag("matrix_at" + (":axes_descending" if a0 > a1 else ""))
    # utils.cartesian_product
    arrs = [np.array(a, dtype=int) for a in spec["cart"]]
    import itertools
    cp = np.asarray(ctx.sut(utils.cartesian_product, arrs, what="cartesian_product"))
    refcp = np.array(list(itertools.product(*[a.tolist() for a in arrs])), dtype=int).reshape(-1, len(arrs))
    ctx.equal("cartesian_product", cp, refcp, "cartesian_product")
    ctx.nontrivial = stepneg or 1 in shape or d >= 3


@st.composite
def st_generator(draw):
    return {"shape": draw(st_shape([1, 2, 3, 4, 5])),
            "seed": draw(st.integers(0, 10 ** 6)),
            "mode": draw(st.sampled_from(["from_array", "entryfunc", "multientry"])),
            "indices": draw(st.lists(st_index(), min_size=1, max_size=4)),
            "entries": draw(st.lists(st.lists(st.integers(0, 9), min_size=4, max_size=4), min_size=1, max_size=5)),
            "axes": [draw(st.integers(0, 3)), draw(st.integers(0, 3))],
            "cart": draw(st.lists(st.lists(st.integers(-5, 5), min_size=0, max_size=3), min_size=1, max_size=3))}


# =============================================================================================
# aca: cross approximation of exact rank-r matrices / tensors
# =============================================================================================

def _lowrank_data(spec):
    rs = np.random.RandomState(int(spec["seed"]))
    shape = tuple(int(n) for n in spec["shape"])
    r = min(int(spec["r"]), min(shape))
    kind = spec["kind"]
    fs = []
    for n in shape:
        if kind == "pos":
            fs.append(rs.uniform(0.0, 1.0, size=(n, r)))
        elif kind == "normal":
            fs.append(rs.normal(size=(n, r)))
        else:
            fs.append(rs.uniform(-1, 1, size=(n, r)))
    return (rd.expand_canonical(fs) if r > 0 else np.zeros(shape)), r


def run_aca(spec, ctx):
    from pyiga import lowrank
    A, r = _lowrank_data(spec)
    nA = rd.fro(A)
    algo = spec["algo"]
    maxiter = 100 if spec["extra"] is None else r + int(spec["extra"])
    tol = 0.0 if spec["tol_exp"] is None else 10.0 ** int(spec["tol_exp"])
    arg = A.copy() if spec["input"] == "array" or algo.startswith("aca_3d") and spec["input"] == "array" \
        else lowrank.TensorGenerator.from_array(A.copy())
    ctx.flag("algo:" + algo, "rank%d" % r, "input:" + spec["input"], "maxiter:" + ("default" if spec["extra"] is None else "r+k"))
    np.random.seed(int(spec["npseed"]))
    if algo == "aca":
        X = np.asarray(ctx.sut(lowrank.aca, arg, tol=tol, maxiter=maxiter, verbose=0, what="aca"))
    elif algo == "aca_lr":
        crosses = ctx.sut(lowrank.aca_lr, arg, tol=tol, maxiter=maxiter, verbose=0, what="aca_lr")
        crosses = list(crosses)
        if len(crosses) > maxiter:
            raise Violation("aca_lr:maxiter", "%d crosses with maxiter=%d" % (len(crosses), maxiter))
        X = np.zeros(A.shape)
        for c, rw in crosses:
            X = X + np.multiply.outer(np.asarray(c, dtype=float), np.asarray(rw, dtype=float))
        if len(crosses) < r:
            ctx.flag("aca_lr:fewer_crosses_than_rank")
    elif algo == "aca_3d":
        X = np.asarray(ctx.sut(lowrank.aca_3d, arg, tol=tol, maxiter=maxiter, verbose=0, what="aca_3d"))
    else:
        L = ctx.sut(lowrank.aca_3d, arg, tol=tol, maxiter=maxiter, verbose=0, lr=True, what="aca_3d(lr=True)")
        if tuple(L.shape) != A.shape:
            raise Violation("aca_3d_lr:shape", "shape %r" % (tuple(L.shape),))
        X = _asarray(ctx, L)
    if X.shape != A.shape:
        raise Violation("aca:shape", "result shape %r != %r" % (X.shape, A.shape))
    err = rd.fro(X - A)
    allowed = 1e-9 * nA + TINY
    ctx.ratio("aca:exact_rank_reproduced", err / allowed)
    if not err <= allowed:
        raise Violation("aca:exact_rank_reproduced", "%s on a %s tensor of exact rank %d (maxiter %d): error %.3g "
                        "(|A| = %.3g)" % (algo, "x".join(map(str, A.shape)), r, maxiter, err, nA))
    ctx.nontrivial = r >= 2


@st.composite
def st_aca(draw):
    algo = draw(st.sampled_from(["aca", "aca_lr", "aca_3d", "aca_3d_lr"]))
    nd = 3 if algo.startswith("aca_3d") else 2
    hi = 8 if nd == 3 else 14
    return {"algo": algo, "shape": draw(st.lists(st.integers(1, hi), min_size=nd, max_size=nd)),
            "r": draw(st.sampled_from([2, 3, 1, 4, 2, 3, 5, 1, 4, 0])),
            "kind": draw(st.sampled_from(["pos", "uni", "normal"])),
            "seed": draw(st.integers(0, 10 ** 6)), "npseed": draw(st.integers(0, 10 ** 6)),
            "extra": draw(st.one_of(st.none(), st.integers(3, 10))),
            "tol_exp": draw(st.sampled_from([None, None, -14, -13])),
            "input": draw(st.sampled_from(["array", "generator"]))}


# =============================================================================================
# greedy: als1 / als / grou / gta
# =============================================================================================

class _Alarm:
    """A non-terminating ALS iteration (no iteration cap in the API) is *inconclusive*, not a violation."""
    def __init__(self, seconds, ctx):
        self.seconds, self.ctx = seconds, ctx

    def _fire(self, *a):
        raise Skip("ALS iteration did not terminate within %d s (inconclusive)" % self.seconds)

    def __enter__(self):
        self.old = signal.signal(signal.SIGALRM, self._fire)
        signal.alarm(self.seconds)

    def __exit__(self, *a):
        signal.alarm(0)
        signal.signal(signal.SIGALRM, self.old)
        return False


def _as_format(T, A, fs, fmt, ctx):
    if fmt == "canon" and fs is not None:
        return ctx.sut(T.CanonicalTensor, tuple(f.copy() for f in fs), what="CanonicalTensor")
    if fmt == "tucker":
        return ctx.sut(T.hosvd, A.copy(), what="hosvd")
    return A.copy()


def run_greedy(spec, ctx):
    T = _T()
    rs = np.random.RandomState(int(spec["seed"]))
    shape = tuple(int(n) for n in spec["shape"])
    d = len(shape)
    r = max(1, min(int(spec["r"]), min(shape)))
    fs = [rs.uniform(0.1, 1.0, size=(n, r)) if spec["kind"] == "pos" else rs.normal(size=(n, r)) for n in shape]
    A = rd.expand_canonical(fs)
    if spec["noise_exp"] is not None:
        A = A + 10.0 ** int(spec["noise_exp"]) * rs.normal(size=shape)
        fs = None
    nA = rd.fro(A)
    algo = spec["algo"]
    fmt = spec["fmt"] if fs is not None or spec["fmt"] != "canon" else "full"
    obj = _as_format(T, A, fs, fmt, ctx)
    ctx.flag("algo:" + algo, "input:" + fmt, "order%d" % d, "rank%d" % r + ("+noise" if fs is None else ""))
    Rmax = min(shape)
    R = 1 + int(spec["R"]) % Rmax
    tol_rel = 10.0 ** int(spec["tol_exp"])
    ctx.flag("tol_decade_%d" % int(spec["tol_exp"]))
    mono = 1e-12 * nA

    def history(errors, limit, oracle):
        errors = [float(e) for e in errors]
        if not (1 <= len(errors) <= limit):
            raise Violation(oracle + ":history_length", "%d entries for rank limit %d" % (len(errors), limit))
        for i in range(1, len(errors)):
            if not errors[i] <= errors[i - 1] + mono:
                raise Violation(oracle + ":history_monotone", "error history increases: %r" % (errors,))
        return errors

    np.random.seed(int(spec["npseed"]))
    with _Alarm(30, ctx):
        if algo == "als1":
            xs = ctx.sut(T.als1, obj, what="als1")
            ctx.equal("als1:lengths", tuple(len(x) for x in xs), shape, "vector lengths")
            B = rd.expand_canonical([np.asarray(x, dtype=float)[:, None] for x in xs])
            err = rd.fro(A - B)
            if not err <= nA * (1 + 1e-9):
                raise Violation("als1:not_worse_than_zero", "rank-1 approximation error %.6g exceeds |A| = %.6g" % (err, nA))
            if fs is not None and r == 1:
                ctx.ratio("als1:exact_rank1", err / (1e-10 * nA))
                if err > 1e-10 * nA:
                    raise Violation("als1:exact_rank1", "rank-1 tensor not reproduced: error %.3g (|A| %.3g)" % (err, nA))
                ctx.flag("als1:exact_rank1")
            # best approximation is at least as good as the best single term of the generating factors
            if fs is not None:
                best_sv = max(rd.mode_singular_values(A, 0)[0] if d >= 1 else 0.0, 0.0)
                lower2 = max(nA ** 2 - best_sv ** 2, 0.0)
                if err ** 2 < lower2 * (1 - 1e-7) - 1e-12 * nA ** 2:
                    raise Violation("als1:below_lower_bound", "error %.6g below sqrt(|A|^2 - sigma_1^2) = %.6g"
                                    % (err, np.sqrt(lower2)))
        elif algo == "grou":
            tol = tol_rel * nA
            X, errors = ctx.sut(T.grou, obj, R, tol=tol, return_errors=True, what="grou")
            errors = history(errors, R, "grou")
            if fmt_of(X) != "canon":
                raise Violation("grou:type", "grou returns %s" % fmt_of(X))
            ctx.equal("grou:shape", tuple(X.shape), shape, "shape")
            ctx.equal("grou:rank", int(X.R), len(errors), "rank == number of updates")
            err = rd.fro(A - _asarray(ctx, X))
            ctx.close("grou:history_is_true_error", errors[-1], err, rtol=0.0, atol=1e-10 * nA)
            if len(errors) < R and not errors[-1] < tol * (1 + 1e-9):
                raise Violation("grou:stopped_early", "stopped after %d < %d updates with error %.3g >= tol %.3g"
                                % (len(errors), R, errors[-1], tol))
            if any(e < tol * (1 - 1e-9) for e in errors[:-1]):
                raise Violation("grou:continued_below_tol", "continued although error < tol: %r, tol %.3g" % (errors, tol))
            ctx.flag("grou:ended_" + ("below_tol" if errors[-1] < tol else "at_rank_limit"))
            if fs is not None and r == 1:
                if errors[0] > 1e-10 * nA:
                    raise Violation("grou:exact_rank1", "rank-1 tensor: first error %.3g" % errors[0])
        elif algo == "gta":
            tol = tol_rel * nA if spec["use_tol"] else 1e-300
            rtol = 10.0 ** int(spec["rtol_exp"]) if not spec["use_tol"] else 1e-300
            gobj = obj
            Tk, errors = ctx.sut(T.gta, gobj, R, tol=tol, rtol=rtol, return_errors=True, what="gta")
            errors = history(errors, R, "gta")
            if fmt_of(Tk) != "tucker":
                raise Violation("gta:type", "gta returns %s" % fmt_of(Tk))
            ctx.equal("gta:shape", tuple(Tk.shape), shape, "shape")
            if any(rr > len(errors) for rr in Tk.R):
                raise Violation("gta:rank", "multilinear rank %r after %d iterations" % (tuple(Tk.R), len(errors)))
            err = rd.fro(A - _asarray(ctx, Tk))
            ctx.close("gta:history_is_true_error", errors[-1], err, rtol=0.0, atol=1e-10 * nA)
            thr = max(tol, rtol * nA)
            if len(errors) < R and not errors[-1] < thr * (1 + 1e-9):
                raise Violation("gta:stopped_early", "stopped after %d < %d iterations with error %.3g >= %.3g"
                                % (len(errors), R, errors[-1], thr))
            if any(e < thr * (1 - 1e-9) for e in errors[:-1]):
                raise Violation("gta:continued_below_tol", "continued although error < tol: %r, tol %.3g" % (errors, thr))
            ctx.flag("gta:ended_" + ("below_tol" if errors[-1] < thr else "at_rank_limit"))
            if errors[0] > nA * (1 + 1e-9):
                raise Violation("gta:first_error", "first error %.6g exceeds |A| %.6g" % (errors[0], nA))
            if fs is not None and r == 1 and errors[0] > 1e-10 * nA:
                raise Violation("gta:exact_rank1", "rank-1 tensor: first error %.3g" % errors[0])
        else:   # als
            if fs is None or d < 2:
                raise Skip("als: needs exact factors and order >= 2")
            Ra = r
            if spec["startval"] == "tensor":
                sv = ctx.sut(T.CanonicalTensor, tuple(f.copy() for f in fs), what="CanonicalTensor")
            else:
                sv = tuple(f.copy() for f in fs)
            B = ctx.sut(T.als, obj, Ra, tol=1e-10, maxiter=int(spec["maxiter"]), startval=sv,
                        accept=(np.linalg.LinAlgError,), what="als(startval=exact)")
            if fmt_of(B) != "canon":
                raise Violation("als:type", "als returns %s" % fmt_of(B))
            ctx.equal("als:rank", int(B.R), Ra, "rank")
            ctx.equal("als:shape", tuple(B.shape), shape, "shape")
            err = rd.fro(A - _asarray(ctx, B))
            cond = 1.0
            for f in fs:
                cond *= np.linalg.cond(f) if f.shape[1] else 1.0
            allowed = 1e-12 * nA * cond ** 2 + TINY
            if allowed <= 1e-4 * nA:
                ctx.ratio("als:exact_factors_are_a_fixed_point", err / allowed)
                if err > allowed:
                    raise Violation("als:exact_factors_are_a_fixed_point", "started at the exact rank-%d factors, "
                                    "als returns error %.3g (|A| %.3g)" % (Ra, err, nA))
                ctx.flag("als:fixed_point_checked")
            # random start: well defined, finite, last least-squares step cannot be worse than zero
            np.random.seed(int(spec["npseed"]))
            B2 = ctx.sut(T.als, obj, Ra, tol=1e-8, maxiter=int(spec["maxiter"]), accept=(np.linalg.LinAlgError,),
                         what="als(random start)")
            ctx.equal("als:rank", int(B2.R), Ra, "rank")
            arr = _asarray(ctx, B2)
            if np.all(np.isfinite(arr)):
                e2 = rd.fro(A - arr)
                if e2 > nA * (1 + 1e-6) * max(1.0, 1e-10 * cond ** 2):
                    raise Violation("als:not_worse_than_zero", "als result has error %.6g > |A| = %.6g" % (e2, nA))
            else:
                ctx.flag("als:nonfinite_random_start")
    ctx.nontrivial = d >= 2


@st.composite
def st_greedy(draw):
    algo = draw(st.sampled_from(["als1", "grou", "grou", "gta", "gta", "als"]))
    return {"algo": algo, "shape": draw(st_shape([1, 2, 3, 4, 5, 6], orders=(1, 2, 3, 3, 3, 4) if algo != "als" else (2, 3, 3, 4))),
            "r": draw(st.sampled_from([1, 1, 2, 2, 3])), "kind": draw(st.sampled_from(["pos", "normal"])),
            "noise_exp": draw(st.sampled_from([None, None, -1, -3, -6])) if algo != "als" else None,
            "fmt": draw(st.sampled_from(["full", "canon", "tucker"])),
            "R": draw(st.integers(0, 5)), "tol_exp": draw(st.integers(-12, -2)), "rtol_exp": draw(st.integers(-12, -2)),
            "use_tol": draw(st.booleans()), "startval": draw(st.sampled_from(["tensor", "matrices"])),
            "maxiter": draw(st.sampled_from([1, 5, 30])),
            "seed": draw(st.integers(0, 10 ** 6)), "npseed": draw(st.integers(0, 10 ** 6))}


SUBCHECKS = [
    Sub("opseq", run_opseq, strategy=lambda tier: st_opseq(8),
        quick=1000, thorough=20000, floor=100,
        rule="pool of tensors (canonical, Tucker, ndarray, TensorSum, TensorProd; orders 1-4, singleton axes, "
             "rank 0) evolved by <= 8 generated operations, every pool entry re-expanded after every step"),
    Sub("canop", run_canop, strategy=lambda tier: st_canop(), quick=400, thorough=8000, floor=40,
        rule="CanonicalOperator with 1-3 factors, Kronecker rank 1-3, sparse (csr/csc/dia/coo) or dense terms, "
             "rectangular factors; every operation against the dense Kronecker sum; non-trivial: d>=2 or R>=2"),
    Sub("hosvd", run_hosvd, strategy=lambda tier: st_hosvd(), quick=400, thorough=8000, floor=40,
        rule="hosvd exactness/orthonormality/singular values, truncate error identities, compress and "
             "find_truncation_rank guarantees for tolerances over 12 decades; non-trivial: order>=2, nonzero"),
    Sub("helpers", run_helpers, strategy=lambda tier: st_helpers(), quick=300, thorough=6000, floor=30,
        rule="modek_tprod/apply_tprod/matricize/outer/array_outer/pad/fro_norm on ndarrays, multi_kron_sparse"),
    Sub("generator", run_generator, strategy=lambda tier: st_generator(), quick=500, thorough=10000, floor=50,
        rule="TensorGenerator (from_array / entryfunc / multientryfunc), orders 1-4: every index expression "
             "returns exactly X[index]; entry, compute_entries, matrix_at, asarray; utils.cartesian_product"),
    Sub("aca", run_aca, strategy=lambda tier: st_aca(), quick=600, thorough=12000, floor=50,
        rule="aca/aca_lr on m x n (<=14) and aca_3d (lr or full) on <=8^3 tensors of exact rank r<=5 with dense "
             "random factors, maxiter >= r+3, numpy RNG seeded from the spec; non-trivial: r>=2"),
    Sub("greedy", run_greedy, strategy=lambda tier: st_greedy(), quick=300, thorough=5000, floor=30,
        timeout_q=400, rule="als1/grou/gta/als on low-rank (+noise) tensors of order 1-4, input as ndarray / canonical / "
             "Tucker, rank limit <= min(shape), tolerances over 10 decades, numpy RNG seeded from the spec"),
]

KNOWN = {}

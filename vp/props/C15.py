"""C15 - multi-level structured matrices behave as the sparse matrices they denote.

Oracle: the dense Kronecker definition (vp/ref/c15_ml.py: index formula cross-checked against numpy.kron
in every case), reference B-spline supports taken from the raw knot arrays, numpy.unravel_index /
ravel_multi_index for the index maps.  Structures are built through the documented constructors
(MLStructure(...), from_matrix, from_kronecker, multi_banded, dense, from_kvs, join, slice, reorder,
transpose, make_mlmatrix).
"""
import itertools

import numpy as np
import scipy.sparse as sp
from hypothesis import strategies as st

from ..core import Sub, Violation, Skip
from ..gen import knots as gk
from ..gen import c15_patterns as gp
from ..ref import c15_ml as rm

LEVEL = "exploration"
RULE = ("multi-level structures given as per-level (block size, ordered nonzero list, constructor) specs; "
        "non-trivial: >= 4 levels, or a rectangular block, or a level whose first nonzero is not (0,0), or "
        "lower_tri, or an unsorted row/column subset (from_kvs: different knot vectors; kron_partial: >= 2 "
        "factors; index maps: rectangular blocks / >= 2 levels); distinct by SHA-1 of the case spec")
ASSUMPTIONS = ["numpy.kron / ravel_multi_index / unravel_index and scipy.sparse toarray() are correct",
               "the per-level index list `bidx` of a structure is its definition of the compact data layout "
               "(its content as a set is checked against the spec for every constructor)",
               "data tensors and vectors hold small dyadic rationals, so every reference product is exact"]
EPS = np.finfo(float).eps

# kinds of right-hand sides given to MLMatrix.dot (a scipy LinearOperator): contiguous float64 vector,
# strided float64 view, integer vector, (N,2) block (LinearOperator.matmat -> column views -> _matvec).
# ((N,1) columns are deprecated input for LinearOperator.matvec in scipy >= 1.18 and are not used.)
VECTOR_KINDS = ["f64", "f64", "f64", "strided", "int", "block"]


# ---------------------------------------------------------------------------------------------
# building structures from specs

def _bidx_array(entries):
    return np.ascontiguousarray(np.array(entries, dtype=np.uint32).reshape(-1, 2))


def _level_matrix(lv):
    m, n, E = lv["m"], lv["n"], lv["entries"]
    P = np.zeros((m, n))
    for (i, j) in E:
        P[i, j] = 1.0
    kind = lv["kind"]
    if kind == "densemat":
        return P
    if kind == "csr":
        return sp.csr_matrix(P)
    if kind == "csc":
        return sp.csc_matrix(P)
    if kind == "coo":
        I = np.array([e[0] for e in E], dtype=np.int64)
        J = np.array([e[1] for e in E], dtype=np.int64)
        return sp.coo_matrix((np.ones(len(E)), (I, J)), shape=(m, n))
    raise AssertionError("not a matrix kind: %r" % kind)


def _build_level(lv, ctx):
    from pyiga import mlmatrix as ml
    m, n, kind = lv["m"], lv["n"], lv["kind"]
    if kind == "direct":
        return ctx.sut(ml.MLStructure, ((m, n),), (_bidx_array(lv["entries"]),), what="MLStructure")
    if kind == "banded":
        return ctx.sut(ml.MLStructure.multi_banded, (m,), (lv["bw"],), what="multi_banded")
    if kind == "dense":
        return ctx.sut(ml.MLStructure.dense, (m, n), what="dense")
    return ctx.sut(ml.MLStructure.from_matrix, _level_matrix(lv), what="from_matrix")


def build_structure(sspec, ctx):
    """Returns (S, levels) with levels = [(m, n, E)] : E = the structure's own bidx (layout order), after
    checking block sizes and, per level, that bidx holds exactly the spec's positions (no duplicates)."""
    from pyiga import mlmatrix as ml
    lvs = sspec["levels"]
    join = sspec.get("join", "left")
    if join == "kron":
        S = ctx.sut(ml.MLStructure.from_kronecker, [_level_matrix(lv) for lv in lvs], what="from_kronecker")
    else:
        parts = [_build_level(lv, ctx) for lv in lvs]
        if join == "left":
            S = parts[0]
            for Pn in parts[1:]:
                S = ctx.sut(S.join, Pn, what="join")
        else:
            S = parts[-1]
            for Pn in parts[-2::-1]:
                S = ctx.sut(Pn.join, S, what="join")
    L = len(lvs)
    ctx.equal("structure_L", int(S.L), L, "number of levels")
    ctx.equal("structure_bs", [[int(a), int(b)] for (a, b) in S.bs], [[lv["m"], lv["n"]] for lv in lvs], "bs")
    levels = []
    M = N = 1
    for k, lv in enumerate(lvs):
        bx = np.asarray(S.bidx[k])
        want = np.array(lv["entries"], dtype=np.int64).reshape(-1, 2)
        ctx.require("level_bidx", bx.ndim == 2 and bx.shape[1] == 2 and bx.dtype.kind in "ui",
                    "level %d: bidx has shape %r dtype %s" % (k, bx.shape, bx.dtype))
        got = bx.astype(np.int64)
        ctx.equal("level_bidx", rm.sorted_pairs(got[:, 0], got[:, 1]).tolist(),
                  rm.sorted_pairs(want[:, 0], want[:, 1]).tolist(), "level %d positions (as a set)" % k)
        if lv["kind"] in ("direct", "banded"):
            ctx.equal("level_bidx_order", got.tolist(), want.tolist(), "level %d positions in order" % k)
        levels.append((lv["m"], lv["n"], got))
        M *= lv["m"]
        N *= lv["n"]
    ctx.equal("structure_shape", (int(S.shape[0]), int(S.shape[1])), (M, N), "shape")
    return S, levels


def _as_index_arrays(oracle, res, ctx, n=2):
    ctx.require(oracle, isinstance(res, tuple) and len(res) == n, "expected a %d-tuple of index arrays" % n)
    out = []
    for a in res:
        a = np.asarray(a)
        ctx.require(oracle, a.ndim == 1 and (a.dtype.kind in "ui" or a.size == 0),
                    "index array with shape %r dtype %s" % (a.shape, a.dtype))
        if a.dtype.kind == "u" and a.size and int(a.max()) > 2 ** 62:
            raise Violation(oracle, "index %d out of range" % int(a.max()))
        out.append(a.astype(np.int64))
    ctx.require(oracle, all(len(a) == len(out[0]) for a in out), "index arrays of different lengths")
    return out


def _check_positions(oracle, res, refI, refJ, ctx, what):
    I, J = _as_index_arrays(oracle, res, ctx)
    if len(I) != len(refI) or not (np.array_equal(I, refI) and np.array_equal(J, refJ)):
        k = 0
        n = min(len(I), len(refI))
        while k < n and I[k] == refI[k] and J[k] == refJ[k]:
            k += 1
        gotk = (int(I[k]), int(J[k])) if k < len(I) else None
        refk = (int(refI[k]), int(refJ[k])) if k < len(refI) else None
        raise Violation(oracle, "%s: %d positions, expected %d; first difference at layout index %d: got %r "
                        "expected %r" % (what, len(I), len(refI), k, gotk, refk))


def _check_pairs_as_set(oracle, I, J, refI, refJ, ctx, what):
    got = rm.sorted_pairs(I, J)
    ref = rm.sorted_pairs(refI, refJ)
    if got.shape != ref.shape or not np.array_equal(got, ref):
        gs = set(map(tuple, got.tolist()))
        rs = set(map(tuple, ref.tolist()))
        raise Violation(oracle, "%s: %d pairs, expected %d; missing %r, unexpected %r%s"
                        % (what, len(got), len(ref), sorted(rs - gs)[:4], sorted(gs - rs)[:4],
                           "" if len(gs) == len(got) else " (duplicates returned)"))


def _structure_flags(sspec, ctx):
    lvs = sspec["levels"]
    L = len(lvs)
    rect = any(lv["m"] != lv["n"] for lv in lvs)
    off00 = any(lv["entries"] and lv["entries"][0] != [0, 0] for lv in lvs)
    firstcols = set(lv["entries"][0][1] for lv in lvs if lv["entries"])
    ctx.flag("L=%d" % L)
    if rect:
        ctx.flag("rectangular_block")
    if off00:
        ctx.flag("first_nonzero_off_(0,0)")
    if len(firstcols) > 1:
        ctx.flag("first_columns_differ_between_levels")
    if any(not lv["entries"] for lv in lvs):
        ctx.flag("empty_level")
    for lv in lvs:
        ctx.flag("ctor_" + lv["kind"])
    ctx.flag("join_" + sspec.get("join", "left"))
    return L >= 4 or rect or off00


def _rowcol_queries(S, levels, refI, refJ, rows, cols, rows_as, ctx, renumber=True):
    """nonzeros_for_rows / nonzeros_for_columns against the reference subsets."""
    def conv(ix):
        return list(ix) if rows_as == "list" else np.array(ix, dtype=np.int64)
    if rows is not None:
        sel = np.isin(refI, np.array(rows, dtype=np.int64))
        res = ctx.sut(S.nonzeros_for_rows, conv(rows), what="nonzeros_for_rows")
        I, J = _as_index_arrays("nonzeros_for_rows", res, ctx)
        _check_pairs_as_set("nonzeros_for_rows", I, J, refI[sel], refJ[sel], ctx, "rows %r" % (rows[:8],))
        if renumber:
            res = ctx.sut(S.nonzeros_for_rows, conv(rows), renumber_rows=True, what="nonzeros_for_rows")
            I, J, K = _as_index_arrays("nonzeros_for_rows_renumber", res, ctx, n=3)
            _check_pairs_as_set("nonzeros_for_rows_renumber", I, J, refI[sel], refJ[sel], ctx,
                                "rows %r (renumber_rows)" % (rows[:8],))
            if len(K):
                ctx.require("nonzeros_for_rows_renumber", K.min() >= 0 and K.max() < len(rows),
                            "renumbered row index out of range")
                ctx.equal("nonzeros_for_rows_renumber", np.array(rows, dtype=np.int64)[K].tolist(), I.tolist(),
                          "rows[I_idx] == I")
    if cols is not None:
        sel = np.isin(refJ, np.array(cols, dtype=np.int64))
        res = ctx.sut(S.nonzeros_for_columns, conv(cols), what="nonzeros_for_columns")
        I, J = _as_index_arrays("nonzeros_for_columns", res, ctx)
        _check_pairs_as_set("nonzeros_for_columns", I, J, refI[sel], refJ[sel], ctx, "columns %r" % (cols[:8],))


# ---------------------------------------------------------------------------------------------
# subcheck 1: exhaustive small patterns

def _enum_one(blocks, masks, ctx):
    from pyiga import mlmatrix as ml
    L = len(blocks)
    lvs = [{"m": m, "n": n, "kind": "direct", "entries": gp.mask_entries(m, n, mk)}
           for (m, n), mk in zip(blocks, masks)]
    tag = "blocks %r masks %r" % (blocks, list(masks))
    bs = tuple((m, n) for (m, n) in blocks)
    S = ctx.sut(ml.MLStructure, bs, tuple(_bidx_array(lv["entries"]) for lv in lvs), what="MLStructure")
    levels = [(lv["m"], lv["n"], np.array(lv["entries"], dtype=np.int64).reshape(-1, 2)) for lv in lvs]
    refI, refJ = rm.positions(levels)
    M, N = rm.shape_of(levels)
    ctx.equal("structure_shape", (int(S.shape[0]), int(S.shape[1])), (M, N), "shape " + tag)
    _check_positions("nonzero", ctx.sut(S.nonzero, what="nonzero"), refI, refJ, ctx, tag)
    if L >= 2:
        lt = refJ <= refI
        _check_positions("nonzero_lower_tri", ctx.sut(S.nonzero, lower_tri=True, what="nonzero(lower_tri)"),
                         refI[lt], refJ[lt], ctx, tag)
    # matrix with distinct entries: layout errors become value errors
    nnzs = tuple(len(lv[2]) for lv in levels)
    D = (np.arange(int(np.prod(nnzs)), dtype=float) + 1.0).reshape(nnzs)
    A = np.zeros((M, N))
    A[refI, refJ] = D.ravel()
    X = ctx.sut(S.make_mlmatrix, data=D, what="make_mlmatrix")
    ctx.close("asmatrix", ctx.sut(X.asmatrix, what="asmatrix"), A, rtol=0, atol=0, what=tag)
    x = ((np.arange(N) * 7 + 3) % 11 - 5).astype(float)
    y = ctx.sut(X.dot, x, what="dot")
    ctx.close("dot", y, A @ x, rtol=8 * (N + 1) * EPS, atol=1e-300, scale=np.abs(A) @ np.abs(x), what=tag)
    T = ctx.sut(S.transpose, what="transpose")
    _check_positions("transpose_nonzero", ctx.sut(T.nonzero, what="transpose.nonzero"), refJ, refI, ctx, tag)
    rows = list(range(M))[::-1]
    cols = list(range(N))
    _rowcol_queries(S, levels, refI, refJ, rows, cols, "list", ctx, renumber=False)
    return lvs


def check_enum(spec, ctx):
    blocks = [tuple(b) for b in spec["blocks"]]
    masks = list(spec["masks"])
    L = len(blocks)
    if len(masks) == L:
        lvs = _enum_one(blocks, masks, ctx)
        ctx.nontrivial = _structure_flags({"levels": lvs, "join": "left"}, ctx)
        ctx.flag("lower_tri" if L >= 2 else None)
        ctx.nontrivial = ctx.nontrivial or L >= 2
        return
    # batch: all masks of the last level
    m, n = blocks[-1]
    for mk in range(1, 2 ** (m * n)):
        lvs = _enum_one(blocks, masks + [mk], ctx)
    ctx.flag("L=%d" % L, "batch_over_last_level")
    ctx.nontrivial = True


def _all_masks(b):
    return range(1, 2 ** (b[0] * b[1]))


def enum_small(tier):
    out = []

    def family(blocks, batch=False):
        blocks = [list(b) for b in blocks]
        lead = blocks[:-1] if batch else blocks
        for masks in itertools.product(*[_all_masks(b) for b in lead]):
            out.append({"blocks": blocks, "masks": list(masks)})

    B22, B23, B32, B33, B12, B21 = (2, 2), (2, 3), (3, 2), (3, 3), (1, 2), (2, 1)
    for L in (1, 2, 3):
        family([B22] * L)
    for b in (B23, B32, B33):
        family([b])
    for pair in ((B23, B23), (B22, B23), (B23, B22), (B23, B32), (B32, B23)):
        family(pair)
    # generic n-level kernel: all structures with 1x2 / 2x1 blocks
    for L in ((4, 5) if tier == "quick" else (4, 5, 6)):
        for blocks in itertools.product((B12, B21), repeat=L):
            family(blocks, batch=(L == 6))
    if tier != "quick":
        family([B23] * 3, batch=True)
        family([B33] * 2, batch=True)
        family([B32, B32], batch=True)
        family([B22] * 4, batch=True)
        family([B22, B23, B32], batch=True)
    return out


# ---------------------------------------------------------------------------------------------
# subcheck 2: structure-level queries on random structures

def check_structure_queries(spec, ctx):
    sspec = spec["structure"]
    S, levels = build_structure(sspec, ctx)
    L = len(levels)
    rm.self_check(levels)
    refI, refJ = rm.positions(levels)
    M, N = rm.shape_of(levels)
    nt = _structure_flags(sspec, ctx)

    _check_positions("nonzero", ctx.sut(S.nonzero, what="nonzero"), refI, refJ, ctx, "nonzero()")
    if spec["lower_tri"] and L >= 2:
        lt = refJ <= refI
        _check_positions("nonzero_lower_tri", ctx.sut(S.nonzero, lower_tri=True, what="nonzero(lower_tri)"),
                         refI[lt], refJ[lt], ctx, "nonzero(lower_tri=True)")
        ctx.flag("lower_tri")
        nt = True
    rows, cols = spec["rows"], spec["cols"]
    _rowcol_queries(S, levels, refI, refJ, rows, cols, spec["rows_as"], ctx)
    for nm, ix in (("rows", rows), ("cols", cols)):
        if not ix:
            ctx.flag(nm + "_empty")
        elif ix != sorted(ix):
            ctx.flag(nm + "_unsorted")
            nt = True

    # transpose: same layout order, rows and columns swapped; involution
    T = ctx.sut(S.transpose, what="transpose")
    ctx.equal("transpose_bs", [[int(a), int(b)] for (a, b) in T.bs], [[n, m] for (m, n, _) in levels], "bs")
    _check_positions("transpose_nonzero", ctx.sut(T.nonzero, what="transpose.nonzero"), refJ, refI, ctx,
                     "transpose().nonzero()")
    TT = ctx.sut(T.transpose, what="transpose")
    for k in range(L):
        ctx.equal("transpose_involution", np.asarray(TT.bidx[k]).astype(np.int64).tolist(), levels[k][2].tolist(),
                  "transpose().transpose().bidx[%d]" % k)

    # reorder (level permutation) of the structure
    axes = spec["axes"]
    R = ctx.sut(S.reorder, tuple(axes), what="reorder")
    plevels = [levels[a] for a in axes]
    pI, pJ = rm.positions(plevels)
    _check_positions("reorder_nonzero", ctx.sut(R.nonzero, what="reorder.nonzero"), pI, pJ, ctx,
                     "reorder(%r).nonzero()" % (axes,))
    if axes != sorted(axes):
        ctx.flag("nontrivial_level_permutation")

    # slice / join
    a, b = spec["slice"]
    Sl = ctx.sut(S.slice, a, what="slice") if b is None else ctx.sut(S.slice, a, b, what="slice")
    sub = levels[a:(a + 1 if b is None else b)]
    ctx.equal("slice_bs", [[int(x), int(y)] for (x, y) in Sl.bs], [[m, n] for (m, n, _) in sub], "slice bs")
    sI, sJ = rm.positions(sub)
    _check_positions("slice_nonzero", ctx.sut(Sl.nonzero, what="slice.nonzero"), sI, sJ, ctx,
                     "slice(%r,%r).nonzero()" % (a, b))
    c = spec["cut"]
    if 0 < c < L:
        Jn = ctx.sut(ctx.sut(S.slice, 0, c, what="slice").join, ctx.sut(S.slice, c, L, what="slice"), what="join")
        _check_positions("slice_join_nonzero", ctx.sut(Jn.nonzero, what="join.nonzero"), refI, refJ, ctx,
                         "slice(0,%d).join(slice(%d,%d)).nonzero()" % (c, c, L))
    ctx.nontrivial = nt


@st.composite
def strat_structure_queries(draw):
    sspec = draw(gp.structure())
    L = len(sspec["levels"])
    M, N = gp.shape_of_spec(sspec)
    a = draw(st.integers(0, L - 1))
    b = draw(st.sampled_from([None] + list(range(a + 1, L + 1))))
    return {"structure": sspec, "lower_tri": draw(st.booleans()),
            "rows": draw(gp.subset(M)), "cols": draw(gp.subset(N)),
            "rows_as": draw(st.sampled_from(["list", "array"])),
            "axes": list(draw(st.permutations(list(range(L))))), "slice": [a, b],
            "cut": draw(st.integers(0, L))}


# ---------------------------------------------------------------------------------------------
# subcheck 3: MLMatrix operations on random structures

def _dyadic(rng, shape, lo=-16, hi=16, den=4.0):
    return rng.randint(lo, hi + 1, size=shape).astype(float) / den


def _make_data(dspec, levels):
    """Returns (D, factors): data tensor (C order) and, for rank-1 data, the dense factor matrices."""
    nnzs = tuple(len(E) for (_, _, E) in levels)
    rng = np.random.RandomState(dspec["seed"])
    if dspec["kind"] == "distinct":
        return (np.arange(int(np.prod(nnzs)), dtype=float) + 1.0).reshape(nnzs), None
    if dspec["kind"] == "random":
        return _dyadic(rng, nnzs), None
    factors = []
    D = np.ones((1,) * len(levels))
    for k, (m, n, E) in enumerate(levels):
        V = np.zeros((m, n))
        vals = _dyadic(rng, len(E), -8, 8, 4.0)
        vals[vals == 0] = 0.25
        if len(E):
            V[E[:, 0], E[:, 1]] = vals
        factors.append(V)
        shp = [1] * len(levels)
        shp[k] = len(E)
        D = D * vals.reshape(shp)
    return D, factors


def _layout_variant(D, order):
    if order == "F":
        return np.asfortranarray(D)
    if order == "strided":
        big = np.zeros(tuple(2 * s for s in D.shape))
        view = big[tuple(slice(None, None, 2) for _ in D.shape)]
        view[...] = D
        return view
    return np.ascontiguousarray(D)


def check_matrix_ops(spec, ctx):
    from pyiga import mlmatrix as ml
    sspec = spec["structure"]
    S, levels = build_structure(sspec, ctx)
    L = len(levels)
    rm.self_check(levels)
    refI, refJ = rm.positions(levels)
    M, N = rm.shape_of(levels)
    nt = _structure_flags(sspec, ctx)
    D, factors = _make_data(spec["data"], levels)
    A = rm.dense_matrix(levels, D)
    if factors is not None:
        K = rm.kron_all(factors)
        if not np.array_equal(K, A):
            raise AssertionError("harness: rank-1 data does not reproduce numpy.kron of the factors")
    ctx.flag("data_" + spec["data"]["kind"], "data_order_" + spec["data"]["order"])

    Din = _layout_variant(D, spec["data"]["order"])
    if spec["init"] == "data":
        X = ctx.sut(S.make_mlmatrix, data=Din, what="make_mlmatrix(data)")
    elif spec["init"] == "setter":
        X = ctx.sut(S.make_mlmatrix, what="make_mlmatrix()")

        def setdata():
            X.data = Din
        ctx.sut(setdata, what="data setter")
    elif spec["init"] == "dense":
        X = ctx.sut(ml.MLMatrix, S, matrix=A.copy(), what="MLMatrix(matrix=ndarray)")
    else:
        X = ctx.sut(ml.MLMatrix, S, matrix=sp.csr_matrix(A), what="MLMatrix(matrix=csr)")
    ctx.flag("init_" + spec["init"])
    ctx.equal("mlmatrix_shape", (int(X.shape[0]), int(X.shape[1])), (M, N), "shape")
    ctx.equal("mlmatrix_nnz", int(X.nnz), int(D.size), "nnz")
    ctx.close("mlmatrix_data", np.asarray(X.data), D, rtol=0, atol=0, what="data tensor")
    _check_positions("mlmatrix_nonzero", ctx.sut(X.nonzero, what="MLMatrix.nonzero"), refI, refJ, ctx,
                     "MLMatrix.nonzero()")

    fmt = spec["format"]
    Asp = ctx.sut(X.asmatrix, fmt, what="asmatrix")
    ctx.require("asmatrix_format", sp.issparse(Asp) and Asp.format == fmt, "asmatrix(%r) returned %s"
                % (fmt, getattr(Asp, "format", type(Asp).__name__)))
    ctx.close("asmatrix", Asp, A, rtol=0, atol=0, what="asmatrix(%r)" % fmt)

    # matrix-vector product
    xs = spec["x"]
    rng = np.random.RandomState(xs["seed"])
    kind = xs["kind"]
    if kind == "int":
        x = rng.randint(-9, 10, size=N)
    elif kind == "block":
        x = _dyadic(rng, (N, 2))
    elif kind == "strided":
        x = np.zeros(2 * N)[::2]
        x[:] = _dyadic(rng, N)
    else:
        x = _dyadic(rng, N)
    ctx.flag("x_" + kind)
    xr = np.array(x, dtype=float)            # independent copy taken before the call
    y = ctx.sut(X.dot, x, what="dot[%s]" % kind)
    ctx.close("dot", y, A @ xr, rtol=8 * (N + 1) * EPS, atol=1e-300, scale=np.abs(A) @ np.abs(xr),
              what="dot (x kind %s)" % kind)
    ctx.close("dot_input_unchanged", x, xr, rtol=0, atol=0)

    # level permutation = perfect-shuffle similarity
    axes = spec["axes"]
    R = ctx.sut(X.reorder, tuple(axes), what="MLMatrix.reorder")
    AR = rm.permute_levels_dense(A, levels, axes)
    if factors is not None:
        KR = rm.kron_all([factors[a] for a in axes])
        if not np.array_equal(KR, AR):
            raise AssertionError("harness: perfect shuffle disagrees with numpy.kron of permuted factors")
    ctx.close("reorder", ctx.sut(R.asmatrix, what="reorder.asmatrix"), AR, rtol=0, atol=0,
              what="reorder(%r).asmatrix()" % (axes,))
    if axes != sorted(axes):
        ctx.flag("nontrivial_level_permutation")
    if L in (2, 3) or spec["dot_reordered"]:
        xr1 = _dyadic(rng, N)
        ctx.close("reorder_dot", ctx.sut(R.dot, xr1, what="reorder.dot"), AR @ xr1, rtol=8 * (N + 1) * EPS,
                  atol=1e-300, scale=np.abs(AR) @ np.abs(xr1))

    # transposition: same data tensor on the transposed structure
    T = ctx.sut(S.transpose, what="transpose")
    XT = ctx.sut(T.make_mlmatrix, data=D, what="transpose.make_mlmatrix")
    ctx.close("transpose", ctx.sut(XT.asmatrix, what="transpose.asmatrix"), A.T, rtol=0, atol=0,
              what="transpose().make_mlmatrix(data).asmatrix()")
    z = _dyadic(rng, M)
    ctx.close("transpose_dot", ctx.sut(XT.dot, z, what="transpose.dot"), A.T @ z, rtol=8 * (M + 1) * EPS,
              atol=1e-300, scale=np.abs(A.T) @ np.abs(z))

    # history on the one object X: what it denotes must not depend on what the caller did with earlier results
    # (in-place modification of a returned sparse matrix / product), nor may earlier results change when the object is used again
    y_keep = np.array(y, dtype=float, copy=True)
    for step in spec.get("history", []):
        if step == "asmatrix":
            A1 = ctx.sut(X.asmatrix, what="asmatrix (again)")
            ctx.close("asmatrix_again", A1, A, rtol=0, atol=0, what="asmatrix() after earlier uses of the same object")
            if sp.issparse(A1):
                A1.data[:] = -7.0            # the caller owns the returned matrix
        elif step == "asmatrix_fmt":
            A1 = ctx.sut(X.asmatrix, fmt, what="asmatrix (again)")
            ctx.close("asmatrix_again", A1, A, rtol=0, atol=0, what="asmatrix(%r) after earlier uses of the same object" % fmt)
            if sp.issparse(A1):
                A1.data *= 0.5
        elif step == "dot":
            y2 = ctx.sut(X.dot, x, what="dot (again)")
            ctx.close("dot_again", y2, A @ xr, rtol=8 * (N + 1) * EPS, atol=1e-300, scale=np.abs(A) @ np.abs(xr),
                      what="dot after earlier uses of the same object")
            y2 = np.asarray(y2)
            if y2.flags.writeable:
                y2[...] = 3.0
        elif step == "cdot":
            xc = xr * (1 + 2j)
            y2 = ctx.sut(X.dot, xc, what="dot[complex]")
            ctx.close("dot_complex_re", np.real(y2), A @ xr, rtol=8 * (N + 1) * EPS, atol=1e-300, scale=np.abs(A) @ np.abs(xr))
            ctx.close("dot_complex_im", np.imag(y2), 2 * (A @ xr), rtol=16 * (N + 1) * EPS, atol=1e-300,
                      scale=2 * np.abs(A) @ np.abs(xr))
        elif step == "setdata":
            D2 = D * 2.0 - 1.0
            A = rm.dense_matrix(levels, D2)

            def setdata2():
                X.data = _layout_variant(D2, spec["data"]["order"])
            ctx.sut(setdata2, what="data setter (again)")
        ctx.flag("history_" + step)
    if spec.get("history"):
        ctx.close("earlier_result_unchanged", y, y_keep, rtol=0, atol=0, what="first product after later uses of the object")
    ctx.nontrivial = nt


@st.composite
def strat_matrix_ops(draw):
    sspec = draw(gp.structure(lweights=[1, 2, 2, 2, 3, 3, 3, 4, 4, 5, 6]))
    L = len(sspec["levels"])
    init = draw(st.sampled_from(["data", "data", "setter", "dense", "csr"]))
    if init == "csr" and any(not lv["entries"] for lv in sspec["levels"]):
        # scipy: fancy-indexing a sparse matrix with empty index arrays yields a (1,0) sparse matrix; the
        # `matrix=` initialiser is only used with non-empty structures or dense input
        init = "dense"
    return {"structure": sspec, "init": init,
            "data": {"kind": draw(st.sampled_from(["distinct", "random", "rank1"])),
                     "seed": draw(st.integers(0, 2 ** 31 - 1)),
                     "order": draw(st.sampled_from(["C", "C", "F", "strided"]))},
            "format": draw(st.sampled_from(["csr", "csc", "coo"])),
            "x": {"kind": draw(st.sampled_from(VECTOR_KINDS)), "seed": draw(st.integers(0, 2 ** 31 - 1))},
            "axes": list(draw(st.permutations(list(range(L))))),
            "dot_reordered": draw(st.booleans()),
            "history": draw(st.lists(st.sampled_from(["asmatrix", "asmatrix", "asmatrix_fmt", "dot", "cdot", "setdata"]),
                                     min_size=0, max_size=5))}


# ---------------------------------------------------------------------------------------------
# subcheck 4: pattern derived from two spline spaces

def check_from_kvs(spec, ctx):
    from pyiga import mlmatrix as ml
    dims = spec["dims"]
    kvs0 = [gk.pyiga_kv(d["kv0"]) for d in dims]
    kvs1 = [gk.pyiga_kv(d["kv1"]) for d in dims]
    S = ctx.sut(ml.MLStructure.from_kvs, kvs0, kvs1, what="from_kvs")
    L = len(dims)
    ctx.equal("from_kvs_L", int(S.L), L, "levels")
    levels = []
    pats = []
    for k, d in enumerate(dims):
        t0, p0 = gk.build_knots(d["kv0"])
        t1, p1 = gk.build_knots(d["kv1"])
        # rows: functions of kvs1 (test space), columns: functions of kvs0 (trial space)
        nr, nc, ref = rm.support_overlap_pattern(t1.tolist(), p1, t0.tolist(), p0)
        ctx.equal("from_kvs_bs", (int(S.bs[k][0]), int(S.bs[k][1])), (nr, nc), "block size of level %d" % k)
        bx = np.asarray(S.bidx[k])
        ctx.require("from_kvs_bidx", bx.ndim == 2 and bx.shape[1] == 2 and bx.dtype == np.uint32
                    and bx.flags.c_contiguous, "bidx[%d] shape %r dtype %s" % (k, bx.shape, bx.dtype))
        got = bx.astype(np.int64)
        refa = np.array(ref, dtype=np.int64).reshape(-1, 2)
        _check_pairs_as_set("from_kvs_pattern", got[:, 0], got[:, 1], refa[:, 0], refa[:, 1], ctx,
                            "dim %d (%s)" % (k, d["rel"]))
        # the helper itself, with the arguments in the order from_kvs uses
        c = np.asarray(ctx.sut(ml.compute_sparsity_ij, kvs0[k], kvs1[k], what="compute_sparsity_ij"))
        c = c.astype(np.int64).reshape(-1, 2)
        _check_pairs_as_set("compute_sparsity_ij", c[:, 0], c[:, 1], refa[:, 0], refa[:, 1], ctx, "dim %d" % k)
        levels.append((nr, nc, got))
        pats.append(rm.level_pattern(nr, nc, refa))
        ctx.flag("rel_" + d["rel"])
        if p0 != p1:
            ctx.flag("different_degrees")
        if gk.has_multiple_knots(d["kv0"]) or gk.has_multiple_knots(d["kv1"]):
            ctx.flag("repeated_knots")
        if nr != nc:
            ctx.flag("rectangular_block")
    ctx.flag("dim=%d" % L)
    # the multi-level pattern is the Kronecker product of the per-direction overlap patterns
    refI, refJ = rm.positions(levels)
    _check_positions("from_kvs_nonzero", ctx.sut(S.nonzero, what="nonzero"), refI, refJ, ctx, "nonzero()")
    P = rm.kron_all(pats)
    Q = np.zeros_like(P)
    Q[refI, refJ] = 1
    ctx.require("from_kvs_kron", np.array_equal(P, Q), "pattern differs from numpy.kron of the overlap patterns")
    if spec["lower_tri"] and L >= 2:
        lt = refJ <= refI
        _check_positions("from_kvs_lower_tri", ctx.sut(S.nonzero, lower_tri=True, what="nonzero(lower_tri)"),
                         refI[lt], refJ[lt], ctx, "nonzero(lower_tri=True)")
        ctx.flag("lower_tri")
    ctx.nontrivial = any(d["rel"] != "same" for d in dims)


@st.composite
def _kv_pair(draw, nmax):
    kv0 = draw(gk.knotvec(pmin=0, pmax=4, nmin=1, nmax=nmax, decades=3, interval="mixed"))
    rel = draw(st.sampled_from(["same", "same_mesh", "same_mesh", "nested", "nested", "unrelated"]))
    if rel == "same":
        return {"kv0": kv0, "kv1": kv0, "rel": rel}
    p1 = draw(st.integers(0, 4))
    br0 = kv0["breaks"]
    if rel == "same_mesh":
        br1 = list(br0)
    elif rel == "nested":
        br1 = list(br0)
        for s in range(len(br0) - 1):
            k = draw(st.sampled_from([0, 0, 1, 1, 2, 3]))
            for q in range(1, k + 1):
                x = br0[s] + (br0[s + 1] - br0[s]) * (q / (k + 1.0))
                if br0[s] < x < br0[s + 1]:
                    br1.append(x)
        br1 = sorted(set(br1))
    else:
        n1 = draw(st.integers(1, nmax))
        fr = sorted(set(draw(st.lists(st.integers(1, 63), min_size=n1 - 1, max_size=n1 - 1))))
        a, b = br0[0], br0[-1]
        br1 = [a] + [x for x in (a + (b - a) * (f / 64.0) for f in fr) if a < x < b] + [b]
        br1 = sorted(set(br1))
    mults = []
    for _ in range(len(br1) - 2):
        if p1 >= 2 and draw(st.integers(0, 2)) == 0:
            mults.append(draw(st.integers(2, p1)))
        else:
            mults.append(1)
    kv1 = {"p": p1, "breaks": br1, "mults": mults}
    if draw(st.booleans()):
        kv0, kv1 = kv1, kv0
    return {"kv0": kv0, "kv1": kv1, "rel": rel}


@st.composite
def strat_from_kvs(draw):
    dim = draw(st.sampled_from([1, 1, 2, 2, 3]))
    nmax = {1: 7, 2: 4, 3: 3}[dim]
    return {"dims": [draw(_kv_pair(nmax)) for _ in range(dim)], "lower_tri": draw(st.booleans())}


# ---------------------------------------------------------------------------------------------
# subcheck 5: partial Kronecker products

def _sparse_factor(fs):
    m, n = fs["m"], fs["n"]
    E = fs["entries"]
    I = np.array([e[0] for e in E], dtype=np.int64)
    J = np.array([e[1] for e in E], dtype=np.int64)
    V = np.array([e[2] for e in E], dtype=float)
    A = sp.coo_matrix((V, (I, J)), shape=(m, n))
    return (A.tocsr() if fs["fmt"] == "csr" else A.tocsc()), A.toarray()


def check_kron_partial(spec, ctx):
    from pyiga import utils
    As = []
    dense = []
    for fs in spec["mats"]:
        a, d = _sparse_factor(fs)
        As.append(a)
        dense.append(d)
    Kfull = rm.kron_all(dense)
    rows = spec["rows"]
    rows_arg = list(rows) if spec["rows_as"] == "list" else np.array(rows, dtype=np.int64)
    restrict = spec["restrict"]
    R = ctx.sut(utils.kron_partial, tuple(As), rows_arg, restrict=restrict, format=spec["format"],
                what="kron_partial")
    ctx.require("kron_partial_type", sp.issparse(R), "result is %s" % type(R).__name__)
    if restrict:
        ref = Kfull[np.array(rows, dtype=np.int64), :] if rows else np.zeros((0, Kfull.shape[1]))
    else:
        ref = np.zeros_like(Kfull)
        if rows:
            ref[np.array(rows, dtype=np.int64), :] = Kfull[np.array(rows, dtype=np.int64), :]
    L = len(As)
    ctx.close("kron_partial", R, ref, rtol=4 * (L + 1) * EPS, atol=0.0,
              scale=np.maximum(np.abs(ref), 1e-300), what="restrict=%r rows=%r" % (restrict, rows[:8]))
    for a, d in zip(As, dense):
        ctx.close("kron_partial_inputs_unchanged", a, d, rtol=0, atol=0)
    ctx.flag("factors=%d" % L, "restrict" if restrict else "full_shape", "format_" + spec["format"])
    if not rows:
        ctx.flag("rows_empty")
    elif rows != sorted(rows):
        ctx.flag("rows_unsorted")
    if any(fs["m"] != fs["n"] for fs in spec["mats"]):
        ctx.flag("rectangular_factor")
    if rows and not np.any(ref):
        ctx.flag("selected_rows_all_zero")
    ctx.nontrivial = L >= 2


@st.composite
def strat_kron_partial(draw):
    L = draw(st.sampled_from([1, 2, 2, 3, 3, 4]))
    sizes = gp._cap_sizes([[draw(st.integers(1, 5)), draw(st.integers(1, 5))] for _ in range(L)], 1 << 14)
    mats = []
    M = 1
    for (m, n) in sizes:
        lv = draw(gp.level(m, n, ["coo"], allow_empty=draw(st.integers(0, 7)) == 0))
        ents = []
        for (i, j) in lv["entries"]:
            v = draw(st.integers(-8, 8))
            if v == 0 and draw(st.integers(0, 3)) != 0:
                v = 3
            ents.append([i, j, v / 4.0])
        mats.append({"m": m, "n": n, "entries": ents, "fmt": draw(st.sampled_from(["csr", "csr", "csc"]))})
        M *= m
    return {"mats": mats, "rows": draw(gp.subset(M, max_len=16)),
            "rows_as": draw(st.sampled_from(["list", "array"])),
            "restrict": draw(st.booleans()), "format": draw(st.sampled_from(["csr", "csc", "coo"]))}


# ---------------------------------------------------------------------------------------------
# subcheck 6: index maps

def _bs_arg(bs, how):
    if how == "tuple":
        return tuple((int(m), int(n)) for (m, n) in bs)
    return np.array(bs, dtype=np.int64).reshape(-1, 2)


def check_index_maps(spec, ctx):
    from pyiga import mlmatrix as ml
    op = spec["op"]
    ctx.flag("op_" + op)
    if op == "seq":
        dims = tuple(spec["dims"])
        tot = int(np.prod(dims))
        seen = set()
        for i in range(tot):
            I = ctx.sut(ml.from_seq, i, dims, what="from_seq")
            ref = [int(v) for v in np.unravel_index(i, dims)]
            ctx.equal("from_seq", [int(v) for v in I], ref, "from_seq(%d, %r)" % (i, dims))
            back = ctx.sut(ml.to_seq, I, dims, what="to_seq")
            ctx.equal("to_seq", int(back), int(np.ravel_multi_index(tuple(ref), dims)), "to_seq(%r, %r)" % (ref, dims))
            ctx.equal("seq_roundtrip", int(back), i, "to_seq(from_seq(i)) == i")
            seen.add(tuple(int(v) for v in I))
        ctx.equal("seq_bijection", len(seen), tot, "number of distinct multi-indices")
        ctx.nontrivial = len(dims) >= 2
        return
    if op == "multilevel":
        bs = [list(b) for b in spec["bs"]]
        L = len(bs)
        ms = tuple(b[0] for b in bs)
        ns = tuple(b[1] for b in bs)
        M, N = int(np.prod(ms)), int(np.prod(ns))
        bs_to = _bs_arg(bs, spec["bs_as"])
        bs_arr = _bs_arg(bs, "array")
        ctx.flag("bs_as_" + spec["bs_as"])
        seen = set()
        for i in range(M):
            Iu = np.unravel_index(i, ms)
            for j in range(N):
                Ju = np.unravel_index(j, ns)
                ref = tuple(int(Iu[k]) * ns[k] + int(Ju[k]) for k in range(L))
                got = ctx.sut(ml.reindex_to_multilevel, i, j, bs_to, what="reindex_to_multilevel")
                got = tuple(int(v) for v in got)
                ctx.equal("reindex_to_multilevel", got, ref, "(%d,%d) bs=%r" % (i, j, bs))
                back = ctx.sut(ml.reindex_from_multilevel, got, bs_arr, what="reindex_from_multilevel")
                ctx.equal("reindex_from_multilevel", (int(back[0]), int(back[1])), (i, j),
                          "from_multilevel(to_multilevel(%d,%d)) bs=%r" % (i, j, bs))
                seen.add(got)
        ctx.equal("multilevel_bijection", len(seen), M * N, "number of distinct multi-indices")
        # every multi-index in the product range is hit: surjectivity of from_multilevel's domain
        ctx.require("multilevel_range", all(0 <= g[k] < ms[k] * ns[k] for g in seen for k in range(L)),
                    "multi-index component out of range")
        if any(b[0] != b[1] for b in bs):
            ctx.flag("rectangular_block")
        ctx.nontrivial = L >= 2 or bs[0][0] != bs[0][1]
        return
    if op == "reordered":
        m1, n1, m2, n2 = spec["m1"], spec["n1"], spec["m2"], spec["n2"]
        X = np.arange(m1 * m2 * n1 * n2, dtype=float).reshape(m1 * m2, n1 * n2)
        Y = np.asarray(ctx.sut(ml.reorder, X, m1, n1, what="reorder"))
        ref = X.reshape(m1, m2, n1, n2).transpose(0, 2, 1, 3).reshape(m1 * n1, m2 * n2)
        ctx.close("reorder_dense", Y, ref, rtol=0, atol=0, what="reorder(X,%d,%d)" % (m1, n1))
        seen = set()
        for i in range(m1 * n1):
            for j in range(m2 * n2):
                ii, jj = ctx.sut(ml.reindex_from_reordered, i, j, m1, n1, m2, n2, what="reindex_from_reordered")
                ii, jj = int(ii), int(jj)
                ctx.require("reindex_from_reordered", 0 <= ii < m1 * m2 and 0 <= jj < n1 * n2,
                            "(%d,%d) -> (%d,%d) out of range" % (i, j, ii, jj))
                ctx.equal("reindex_from_reordered", float(X[ii, jj]), float(ref[i, j]),
                          "X[reindex(%d,%d)] vs reordered entry, sizes %r" % (i, j, (m1, n1, m2, n2)))
                seen.add((ii, jj))
        ctx.equal("reordered_bijection", len(seen), m1 * m2 * n1 * n2, "distinct images")
        # Van Loan / Pitsianis: the reordering of a Kronecker product is the outer product of the vec's
        rng = np.random.RandomState(spec["seed"])
        A = _dyadic(rng, (m1, n1))
        B = _dyadic(rng, (m2, n2))
        ctx.close("reorder_kron_rank1", ctx.sut(ml.reorder, np.kron(A, B), m1, n1, what="reorder"),
                  np.outer(A.ravel(), B.ravel()), rtol=0, atol=0)
        if m1 != n1 or m2 != n2:
            ctx.flag("rectangular_block")
        ctx.nontrivial = (m1 != n1 or m2 != n2)
        return
    if op == "transpose_idx":
        E = [list(e) for e in spec["entries"]]
        bidx = _bidx_array(E)
        t = np.asarray(ctx.sut(ml.get_transpose_idx_for_bidx, bidx, what="get_transpose_idx_for_bidx"))
        ctx.require("transpose_idx", t.shape == (len(E),) and t.dtype.kind in "ui", "shape %r dtype %s"
                    % (t.shape, t.dtype))
        t = t.astype(np.int64)
        ctx.equal("transpose_idx_permutation", sorted(t.tolist()), list(range(len(E))), "is a permutation")
        ctx.equal("transpose_idx", bidx[t].astype(np.int64).tolist(), [[e[1], e[0]] for e in E],
                  "bidx[t[k]] == reversed(bidx[k])")
        ctx.equal("transpose_idx_involution", t[t].tolist(), list(range(len(E))), "t[t[k]] == k")
        ctx.nontrivial = E != sorted(E)
        return
    if op == "seqbidx":
        sspec = spec["structure"]
        S, levels = build_structure(sspec, ctx)
        nt = _structure_flags(sspec, ctx)
        refI, refJ = rm.positions(levels)
        sb = ctx.sut(S.sequential_bidx, what="sequential_bidx")
        ctx.equal("sequential_bidx_len", [len(s) for s in sb], [len(E) for (_, _, E) in levels], "lengths")
        for k, (m, n, E) in enumerate(levels):
            ref = (E[:, 0] * n + E[:, 1]).tolist()      # == np.ravel_multi_index((i,j),(m,n))
            ctx.equal("sequential_bidx", [int(v) for v in sb[k]], ref, "level %d (block %dx%d)" % (k, m, n))
        bs_arr = np.array([[m, n] for (m, n, _) in levels], dtype=np.int64)
        nnzs = [len(E) for (_, _, E) in levels]
        tot = int(np.prod(nnzs))
        picks = sorted(set([0, tot - 1] + [p % tot for p in spec["picks"]])) if tot else []
        for flat in picks:
            K = np.unravel_index(flat, nnzs)
            Mi = [int(sb[k][K[k]]) for k in range(len(levels))]
            ij = ctx.sut(ml.reindex_from_multilevel, Mi, bs_arr, what="reindex_from_multilevel")
            ctx.equal("seqbidx_to_global", (int(ij[0]), int(ij[1])), (int(refI[flat]), int(refJ[flat])),
                      "data index %r" % ([int(v) for v in K],))
        # generator of the reordered tensor: entry (k_1..k_L) is the matrix entry at the denoted position
        M, N = rm.shape_of(levels)
        if tot and tot <= 4096:
            Aval = np.arange(M * N, dtype=float).reshape(M, N) + 1.0

            def multiasm(indices):
                return np.array([Aval[int(i), int(j)] for (i, j) in indices])
            G = ctx.sut(ml.ReorderedTensorGenerator, multiasm, S, what="ReorderedTensorGenerator")
            ctx.equal("tensor_generator_shape", tuple(int(v) for v in G.shape), tuple(nnzs), "shape")
            full = ctx.sut(G.asarray, what="ReorderedTensorGenerator.asarray")
            ctx.close("tensor_generator", np.asarray(full).ravel(), Aval[refI, refJ], rtol=0, atol=0,
                      what="generated data tensor")
            ctx.flag("tensor_generator")
        ctx.nontrivial = nt
        return
    raise AssertionError("unknown op %r" % op)


def enum_index_maps(tier):
    out = []
    smax = 4 if tier == "quick" else 5
    for L in (1, 2, 3):
        for dims in itertools.product(range(1, smax + 1), repeat=L):
            out.append({"op": "seq", "dims": list(dims)})
    out.append({"op": "seq", "dims": [2, 3, 1, 2, 3, 2]})
    out.append({"op": "seq", "dims": [3, 1, 4, 1, 5]})
    rng = range(1, 4)
    for how in ("array", "tuple"):
        for b in itertools.product(rng, repeat=2):
            out.append({"op": "multilevel", "bs": [list(b)], "bs_as": how})
        for b in itertools.product(rng, repeat=4):
            out.append({"op": "multilevel", "bs": [list(b[:2]), list(b[2:])], "bs_as": how})
        for b in itertools.product((1, 2), repeat=6):
            out.append({"op": "multilevel", "bs": [list(b[:2]), list(b[2:4]), list(b[4:])], "bs_as": how})
    r2 = range(1, 5 if tier == "quick" else 6)
    for (m1, n1, m2, n2) in itertools.product(r2, repeat=4):
        out.append({"op": "reordered", "m1": m1, "n1": n1, "m2": m2, "n2": n2, "seed": m1 + 7 * n1 + 49 * m2 + n2})
    return out


@st.composite
def strat_index_maps(draw):
    op = draw(st.sampled_from(["seq", "multilevel", "multilevel", "transpose_idx", "transpose_idx",
                               "seqbidx", "seqbidx", "seqbidx"]))
    if op == "seq":
        L = draw(st.integers(1, 6))
        dims = [d[0] for d in gp._cap_sizes([[draw(st.integers(1, 6)), 1] for _ in range(L)], 600)]
        return {"op": op, "dims": dims}
    if op == "multilevel":
        L = draw(st.integers(1, 5))
        bs = gp._cap_sizes([[draw(st.integers(1, 5)), draw(st.integers(1, 5))] for _ in range(L)], 900)
        return {"op": op, "bs": bs, "bs_as": draw(st.sampled_from(["array", "tuple"]))}
    if op == "transpose_idx":
        n = draw(st.integers(1, 6))
        half = gp.mask_entries(n, n, draw(st.integers(1, 2 ** (n * n) - 1)))
        sym = sorted(set(tuple(e) for e in half) | set((e[1], e[0]) for e in half))
        E = [list(e) for e in sym]
        if len(E) > 1 and draw(st.booleans()):
            E = list(draw(st.permutations(E)))
        return {"op": op, "n": n, "entries": E}
    sspec = draw(gp.structure(cap=1 << 13, allow_empty=False))
    return {"op": op, "structure": sspec,
            "picks": draw(st.lists(st.integers(0, 10 ** 6), min_size=0, max_size=12))}


# ---------------------------------------------------------------------------------------------

SUBCHECKS = [
    Sub("enum_small", check_enum, enum=enum_small, quick=0, thorough=0, isolate=True, floor=500,
        rule="exhaustive: every non-empty pattern of 2x2 blocks (1-3 levels), 2x3/3x2/3x3 (1 level), pairs of "
             "2x2/2x3/3x2 blocks, all 4-5 level structures with 1x2/2x1 blocks (thorough adds 2x3^3, 3x3^2, 2x2^4, "
             "6 levels; batch specs loop over every pattern of the last level); each with nonzero, lower_tri, "
             "asmatrix, dot, transpose, all rows / columns", timeout_q=400),
    Sub("structure_queries", check_structure_queries, strategy=lambda tier: strat_structure_queries(),
        quick=2400, thorough=30000, isolate=True, floor=200,
        rule="random 1-6 levels, blocks 1-4 x 1-4, all constructors, orders; nonzero / lower_tri / row and column "
             "subsets / transpose / reorder / slice / join"),
    Sub("matrix_ops", check_matrix_ops, strategy=lambda tier: strat_matrix_ops(), quick=2400, thorough=30000,
        isolate=True, floor=200,
        rule="random structures + data tensors (C/F/strided, distinct/random/rank-1): data/matrix initialisers, "
             "asmatrix formats, dot for several vector kinds, reorder, transposition"),
    Sub("from_kvs", check_from_kvs, strategy=lambda tier: strat_from_kvs(), quick=1200, thorough=12000,
        isolate=True, floor=100, shards=8,
        rule="1-3 directions, pairs of knot vectors: identical, same mesh (other degree / multiplicities), nested "
             "meshes (either direction), unrelated meshes on the same interval"),
    Sub("kron_partial", check_kron_partial, strategy=lambda tier: strat_kron_partial(), quick=1200,
        thorough=12000, isolate=True, floor=100, shards=8,
        rule="1-4 sparse factors (csr/csc, rectangular, explicit zeros), row subsets, restrict flag, formats"),
    Sub("index_maps_enum", check_index_maps, enum=enum_index_maps, quick=0, thorough=0, floor=100, shards=8,
        rule="exhaustive small shapes: from_seq/to_seq, reindex_to/from_multilevel, reorder/reindex_from_reordered"),
    Sub("index_maps_random", check_index_maps, strategy=lambda tier: strat_index_maps(), quick=1200,
        thorough=12000, isolate=True, floor=100, shards=8,
        rule="random shapes for the index maps, get_transpose_idx_for_bidx on symmetric patterns in random order, "
             "sequential_bidx + reindex_from_multilevel + ReorderedTensorGenerator against nonzero()"),
]

KNOWN = {}

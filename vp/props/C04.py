"""C04 - hierarchical spaces stay well-formed under every refinement history."""
import itertools
import numpy as np
from hypothesis import strategies as st

from ..core import Sub, Violation, Skip
from ..gen import knots as gk
from ..gen import hspaces as gh
from ..ref import hier as rh

LEVEL = "exploration"
RULE = ("refinement histories (sequences of refine / refine_region calls with single- and multi-level marks given as "
        "set/list/tuple) replayed on pyiga.HSpace and on a reference model of nested cell sets; non-trivial: >= 2 calls, "
        "or a multi-level mark, or finite disparity that added cells, or a refine_region call; distinct by SHA-1 of the spec")
ASSUMPTIONS = ["reference model vp/ref/hier.py: activity by the support definition, representation matrices by exact "
               "Boehm knot insertion, THB truncation by definition",
               "for finite disparity the cells returned by refine() are taken as the actual marks (the marking "
               "algorithm itself is not modelled); returned >= requested and the disparity bound are checked"]


def _cells_equal(ctx, name, got_levels, ref_levels, what):
    L = max(len(got_levels), len(ref_levels))
    for l in range(L):
        g = set(tuple(int(x) for x in c) for c in got_levels[l]) if l < len(got_levels) else set()
        r = ref_levels[l] if l < len(ref_levels) else set()
        if g != r:
            raise Violation(name, "%s on level %d: extra %r, missing %r" % (what, l, sorted(g - r)[:4], sorted(r - g)[:4]))


def check_disparity(ref, ctx, spec, L):
    """No active function of level k is nonzero on an active cell of level > k + d (finite disparity, default marking)."""
    d = spec["disparity"]
    if d is None:
        return
    for k in range(L):
        deep = [(l, c) for l in range(k + d + 1, L) for c in ref.active[l]]
        if not deep:
            continue
        anc = set(ref.ancestor(c, l - k) for l, c in deep)
        act, _ = ref.functions(k)
        for jj in act:
            hit = ref.func_cells(k, jj) & anc
            if hit:
                raise Violation("disparity", "active function %r of level %d is nonzero on an active cell of level > %d (inside its "
                                "level-%d cell %r) although disparity=%d" % (jj, k, k + d, k, sorted(hit)[0], d))


def check_state(hs, ref, ctx, spec, full=True):
    dim = ref.dim
    L = ref.trimmed_levels()
    ctx.require("numlevels", hs.numlevels == L, "numlevels %d != %d" % (hs.numlevels, L))
    # 1. cells
    _cells_equal(ctx, "active_cells", hs.active_cells(), ref.active[:L], "active cells")
    _cells_equal(ctx, "deactivated_cells", hs.deactivated_cells(), ref.deact[:L], "deactivated cells")
    for l in range(L):
        _cells_equal(ctx, "active_cells", [hs.active_cells(l)], [ref.active[l]], "active_cells(lv)")
    # 2. tiling: every finest-level cell is covered exactly once by the reported active cells
    fin = ref.ncells(L - 1)
    cover = np.zeros(fin, dtype=int)
    for l, cells in enumerate(hs.active_cells()):
        f = 1 << (L - 1 - l)
        for c in cells:
            sl = tuple(slice(ci * f, (ci + 1) * f) for ci in c)
            cover[sl] += 1
    if not np.all(cover == 1):
        raise Violation("tiling", "active cells cover some finest-level cell %d times" % int(cover.flat[np.argmax(cover != 1)]))
    ctx.require("total_active_cells", hs.total_active_cells == sum(len(a) for a in ref.active[:L]), "total_active_cells")
    # 3. functions by the support definition (both directions)
    refA, refD = [], []
    for l in range(L):
        a, d = ref.functions(l)
        refA.append(a)
        refD.append(d)
    _cells_equal(ctx, "active_functions", hs.active_functions(), refA, "active functions")
    _cells_equal(ctx, "deactivated_functions", hs.deactfun, refD, "deactivated functions")
    ctx.require("numdofs", hs.numdofs == sum(len(a) for a in refA), "numdofs %d" % hs.numdofs)
    ctx.equal("numactive", tuple(hs.numactive), tuple(len(a) for a in refA), "numactive")
    # 4. canonical order
    flatf = [(int(l), tuple(int(x) for x in jj)) for l, jj in hs.active_functions(flat=True)]
    ctx.equal("canonical_order_functions", flatf, ref.canonical_functions(L), "active_functions(flat=True)")
    flatc = [(int(l), tuple(int(x) for x in c)) for l, c in hs.active_cells(flat=True)]
    ctx.equal("canonical_order_cells", flatc, ref.canonical_cells(L), "active_cells(flat=True)")
    if not full:
        check_disparity(ref, ctx, spec, L)
        return
    n = hs.numdofs
    # 5./6. representation matrix and linear independence
    Ih = ref.I_hb(L)
    R = ctx.sut(hs.represent_fine, truncate=False, what="represent_fine(HB)")
    ctx.close("represent_fine_hb", R, Ih, rtol=0, atol=1e-11)
    rk = np.linalg.matrix_rank(R.toarray()) if R.shape[1] else 0
    ctx.require("linear_independence", rk == n, "rank of represent_fine is %d for %d active functions" % (rk, n))
    # 7. truncated basis
    It = ref.I_thb(L)
    Rt = ctx.sut(hs.represent_fine, truncate=True, what="represent_fine(THB)")
    ctx.close("represent_fine_thb", Rt, It, rtol=0, atol=1e-11)
    Rtd = Rt.toarray()
    ctx.require("thb_nonnegative", Rtd.size == 0 or Rtd.min() >= -1e-13, "negative THB coefficient %g" % (Rtd.min() if Rtd.size else 0))
    ctx.close("thb_partition_of_unity", Rtd.sum(axis=1), np.ones(Rtd.shape[0]), rtol=0, atol=1e-11)
    # default truncate flag is honoured
    Rdef = ctx.sut(hs.represent_fine, what="represent_fine()")
    ctx.close("represent_fine_default", Rdef, It if spec["truncate"] else Ih, rtol=0, atol=1e-11)
    # 8. coefficient transforms
    T = ctx.sut(hs.thb_to_hb, what="thb_to_hb")
    Ti = ctx.sut(hs.hb_to_thb, what="hb_to_thb")
    Td = T.toarray() if hasattr(T, "toarray") else np.asarray(T)
    Tid = Ti.toarray() if hasattr(Ti, "toarray") else np.asarray(Ti)
    ctx.close("thb_hb_inverse", Td @ Tid, np.eye(n), rtol=0, atol=1e-10)
    ctx.close("thb_hb_inverse", Tid @ Td, np.eye(n), rtol=0, atol=1e-10)
    ctx.close("thb_same_space", Rtd, R.toarray() @ Td, rtol=0, atol=1e-10)
    Tref, res, _ = ref.thb_to_hb(L)
    ctx.require("ref_consistency", res < 1e-10, "reference THB functions not in the HB span (%g)" % res)
    ctx.close("thb_to_hb", Td, Tref, rtol=0, atol=1e-9)
    # 9. disparity bound
    check_disparity(ref, ctx, spec, L)
    # 10. incidence matrix
    Z = ctx.sut(hs.incidence_matrix, what="incidence_matrix")
    funcs = ref.canonical_functions(L)
    cells = ref.canonical_cells(L)
    Zr = np.zeros((len(funcs), len(cells)), dtype=int)
    fcells = {(k, jj): ref.func_cells(k, jj) for (k, jj) in funcs}
    for i, (k, jj) in enumerate(funcs):
        for j, (l, c) in enumerate(cells):
            if l >= k:
                hit = ref.ancestor(c, l - k) in fcells[(k, jj)]
            else:
                hit = any(ref.ancestor(fc, k - l) == c for fc in fcells[(k, jj)])
            Zr[i, j] = 1 if hit else 0
    ctx.equal("incidence_matrix", Z.toarray(), Zr, "incidence matrix")
    # 11. support / extent queries
    for (k, jj) in funcs[:: max(1, len(funcs) // 12)]:
        got = ctx.sut(hs.function_support, k, jj, what="function_support")
        ctx.equal("function_support", tuple((float(a), float(b)) for a, b in got), ref.func_support(k, jj), "function_support")
    for (l, c) in cells[:: max(1, len(cells) // 12)]:
        got = ctx.sut(hs.cell_extents, l, c, what="cell_extents")
        ctx.equal("cell_extents", tuple((float(a), float(b)) for a, b in got), ref.cell_extents(l, c), "cell_extents")
    # compute_supports of a sample of functions: exactly the active cells meeting their supports
    pick = funcs[:: max(1, len(funcs) // 5)][:5]
    arg = [[] for _ in range(L)]
    for (k, jj) in pick:
        arg[k].append(jj)
    got = ctx.sut(hs.compute_supports, arg, what="compute_supports")
    exp = {}
    for i, (k, jj) in enumerate(funcs):
        if (k, jj) in pick:
            for j, (l, c) in enumerate(cells):
                if Zr[i, j]:
                    exp.setdefault(l, set()).add(c)
    gotn = {int(l): set(tuple(int(x) for x in c) for c in cs) for l, cs in got.items() if cs}
    ctx.equal("compute_supports", gotn, exp, "compute_supports")


def check_history(spec, ctx):
    every = spec.get("check_every_step", True)

    def on_step(hs, ref, info):
        if every:
            check_state(hs, ref, ctx, spec, full=True)
    hs, ref, info = gh.replay(spec, ctx, on_step=on_step)
    if info["calls"] == 0:
        raise Skip("no effective refinement call")
    if not every:
        check_state(hs, ref, ctx, spec, full=True)
    # copy(): continuing on the copy must not touch the original
    snapA = [set(s) for s in hs.active_cells()]
    snapF = [set(s) for s in hs.active_functions()]
    hs2 = ctx.sut(hs.copy, what="copy")
    ref2 = ref.copy()
    marks = gh.resolve_marks(ref2, [[0, [0]]], spec["max_levels"])
    if marks:
        ret = ctx.sut(hs2.refine, {l: set(cs) for l, cs in marks.items()}, what="copy.refine")
        ref2.refine({int(l): [tuple(c) for c in cs] for l, cs in ret.items() if cs})
        check_state(hs2, ref2, ctx, spec, full=False)
        ctx.require("copy_independent", [set(s) for s in hs.active_cells()] == snapA
                    and [set(s) for s in hs.active_functions()] == snapF, "refining a copy changed the original")
    ctx.flag("dim%d" % spec["dim"], "disparity_%s" % spec["disparity"], "truncate" if spec["truncate"] else "hb",
             "multilevel_mark" if info["multilevel"] else None, "disparity_added_cells" if info["disparity_added"] else None,
             "refine_region" if info["region"] else None, "levels%d" % ref.trimmed_levels(),
             *("marks_as_" + c for c in info["containers"]))
    ctx.nontrivial = info["calls"] >= 2 or info["multilevel"] or info["disparity_added"] or info["region"]


# ---------------------------------------------------------------------------------------------
# exhaustive enumeration of small histories

def _subsets(items):
    for r in range(1, len(items) + 1):
        for s in itertools.combinations(items, r):
            yield s


def _enum_from(ref, k, max_levels, prefix, out, base):
    cand = [(l, c) for l in range(ref.numlevels()) if l + 2 <= max_levels for c in sorted(ref.active[l])]
    for sub in _subsets(cand):
        marks = {}
        for l, c in sub:
            marks.setdefault(str(l), []).append(list(c))
        hist = prefix + [{"kind": "explicit", "marks": marks, "container": ("set", "list", "tuple", "live")[len(out) % 4]}]
        spec = dict(base)
        spec["steps"] = hist
        out.append(spec)
        if k > 1:
            r2 = ref.copy()
            r2.refine({int(l): [tuple(c) for c in cs] for l, cs in marks.items()})
            _enum_from(r2, k - 1, max_levels, hist, out, base)


def enum_histories(tier):
    out = []
    configs = []
    for p in (1, 2, 3):
        for disp in (None, 1, 2):
            for trunc in (False, True):
                configs.append((p, disp, trunc))
    for (p, disp, trunc) in configs:
        # 1D meshes
        for n in (1, 2, 3) if tier == "quick" else (1, 2, 3, 4):
            kvs = [{"p": p, "breaks": [i / n for i in range(n + 1)], "mults": [1] * (n - 1)}]
            base = {"dim": 1, "kvs": kvs, "max_levels": 3 if (tier == "quick" or n == 4) else 4, "disparity": disp,
                    "truncate": trunc, "bdspecs": None, "check_every_step": False}
            ref = rh.RefHSpace([gk.build_knots(k) for k in kvs])
            depth = 2 if (tier == "quick" or n >= 3) else 3
            _enum_from(ref, depth, base["max_levels"], [], out, base)
        # 2D 2x2 mesh
        kvs = [{"p": p, "breaks": [0.0, 0.5, 1.0], "mults": [1]} for _ in range(2)]
        base = {"dim": 2, "kvs": kvs, "max_levels": 2 if tier == "quick" else 3, "disparity": disp, "truncate": trunc,
                "bdspecs": None, "check_every_step": False}
        ref = rh.RefHSpace([gk.build_knots(k) for k in kvs])
        if tier == "quick":
            _enum_from(ref, 1, 2, [], out, base)
        else:
            # two calls: all first calls, second calls restricted to subsets of at most 3 cells
            first = []
            _enum_from(ref, 1, 3, [], first, base)
            out.extend(first)
            for sp in first:
                r2 = ref.copy()
                r2.refine({int(l): [tuple(c) for c in cs] for l, cs in sp["steps"][0]["marks"].items()})
                cand = [(l, c) for l in range(r2.numlevels()) if l + 2 <= 3 for c in sorted(r2.active[l])]
                for r in (1, 2):
                    for sub in itertools.combinations(cand, r):
                        marks = {}
                        for l, c in sub:
                            marks.setdefault(str(l), []).append(list(c))
                        s2 = dict(base)
                        s2["steps"] = sp["steps"] + [{"kind": "explicit", "marks": marks, "container": "set"}]
                        out.append(s2)
    return out


# explicit marks are handled by a thin wrapper around the selector replayer
_orig_resolve = gh.resolve_marks


def _replay_explicit(spec, ctx, on_step=None):
    """Histories with explicit marks: cells that are no longer active (already refined because of a
    finite disparity) are dropped from the request."""
    conv = dict(spec)
    steps = []
    for s in spec["steps"]:
        steps.append(s)
    conv["steps"] = steps
    return conv


def check_enum(spec, ctx):
    # translate explicit marks into the replayer's vocabulary on the fly
    hs, ref = ctx.sut(gh.make_hspace, spec, what="HSpace")
    calls = 0
    multilevel = False
    added = False
    for step in spec["steps"]:
        marks = {}
        for l, cs in step["marks"].items():
            l = int(l)
            keep = [tuple(c) for c in cs if l < ref.numlevels() and tuple(c) in ref.active[l]]
            if keep:
                marks[l] = keep
        if not marks:
            continue
        live_info = {"containers": set()}
        arg = {l: gh._container(step["container"], cs, hs, l, live_info) for l, cs in marks.items()}
        if "live" in live_info["containers"]:
            ctx.flag("marks_as_live_active_cells_set")
        ret = ctx.sut(hs.refine, arg, what="HSpace.refine")
        actual = {int(l): [tuple(int(x) for x in c) for c in cs] for l, cs in ret.items() if cs}
        for l, cs in marks.items():
            if not set(cs) <= set(actual.get(l, [])):
                raise Violation("refine_return", "returned cells do not contain the requested ones")
        if spec["disparity"] is None and {l: set(c) for l, c in actual.items()} != {l: set(c) for l, c in marks.items()}:
            raise Violation("refine_return", "infinite disparity: refined cells differ from the marked ones")
        if any(set(actual[l]) - set(marks.get(l, [])) for l in actual):
            added = True
        try:
            ref.refine(actual)
        except ValueError as e:
            raise Violation("refine_inactive_cell", str(e))
        calls += 1
        multilevel = multilevel or len(marks) > 1
    if calls == 0:
        raise Skip("no effective call")
    check_state(hs, ref, ctx, spec, full=True)
    ctx.flag("dim%d" % spec["dim"], "disparity_%s" % spec["disparity"], "calls%d" % calls,
             "multilevel_mark" if multilevel else None, "disparity_added_cells" if added else None,
             "marks_as_" + spec["steps"][0]["container"])
    ctx.nontrivial = calls >= 2 or multilevel or added


def check_deep(spec, ctx):
    """Point-directed refinement: repeatedly refine the finest active cell containing a generic point (and sometimes a
    neighbour), which builds deep hierarchies (up to 8 levels in 1D) where the disparity-preserving marking has to
    propagate over several hops."""
    hs, ref = ctx.sut(gh.make_hspace, spec, what="HSpace")
    dim = spec["dim"]
    added = False
    calls = 0
    for step in range(spec["depth"]):
        # finest active cell containing the point
        L = ref.numlevels()
        target = None
        for l in reversed(range(L)):
            n = ref.ncells(l)
            c = tuple(min(int(spec["point"][ax] * n[ax]), n[ax] - 1) for ax in range(dim))
            if c in ref.active[l]:
                target = (l, c)
                break
        if target is None:
            break
        l, c = target
        cells = [c]
        ex = spec["extra"][step % len(spec["extra"])]
        if ex:
            nb = tuple(min(max(ci + e, 0), ref.ncells(l)[ax] - 1) for ax, (ci, e) in enumerate(zip(c, ex)))
            if nb in ref.active[l] and nb not in cells:
                cells.append(nb)
        arg = {l: gh._container(spec["container"], cells)}
        ret = ctx.sut(hs.refine, arg, what="HSpace.refine")
        actual = {int(k): [tuple(int(x) for x in cc) for cc in v] for k, v in ret.items() if v}
        if not set(cells) <= set(actual.get(l, [])):
            raise Violation("refine_return", "returned cells do not contain the requested ones")
        if any(set(actual[k]) - (set(cells) if k == l else set()) for k in actual):
            added = True
        try:
            ref.refine(actual)
        except ValueError as e:
            raise Violation("refine_inactive_cell", str(e))
        calls += 1
        check_state(hs, ref, ctx, spec, full=False)
    if calls == 0:
        raise Skip("no call")
    ctx.flag("dim%d" % dim, "disparity_%s" % spec["disparity"], "levels%d" % ref.trimmed_levels(),
             "disparity_added_cells" if added else None, "marks_as_" + spec["container"])
    ctx.nontrivial = calls >= 2


@st.composite
def strat_deep(draw):
    dim = draw(st.sampled_from([1, 1, 2]))
    p = draw(st.integers(1, 3))
    n0 = draw(st.integers(1, 4 if dim == 1 else 2))
    kvs = [{"p": p, "breaks": [i / n0 for i in range(n0 + 1)], "mults": [1] * (n0 - 1)} for _ in range(dim)]
    disp = draw(st.sampled_from([1, 2, 2, 3] if dim == 1 else [1, 2, 2]))
    depth = draw(st.integers(4, 8 if dim == 1 else 5))
    point = [draw(st.integers(1, 62)) / 63.0 for _ in range(dim)]
    extra = [draw(st.sampled_from([None, None, [1] * dim, [-1] * dim, [1] + [0] * (dim - 1)])) for _ in range(4)]
    return {"dim": dim, "kvs": kvs, "disparity": disp, "truncate": draw(st.booleans()), "bdspecs": None, "point": point,
            "depth": depth, "extra": extra, "container": draw(st.sampled_from(["set", "list", "tuple"])), "max_levels": 10}


SUBCHECKS = [
    Sub("enum", check_enum, enum=enum_histories, quick=0, thorough=0, floor=200, timeout_q=400, timeout_t=6000,
        rule="exhaustive: all sequences of <=2 (quick) / <=3 (thorough) refine calls over all non-empty subsets of active cells "
             "(multi-level marks included) for 1D meshes with <=3(4) cells and the 2D 2x2 mesh x p in {1,2,3} x disparity "
             "{inf,1,2} x truncate"),
    Sub("random", check_history, strategy=lambda tier: gh.history(dims=(1, 2, 3), pmax=4, max_steps=4, disparities=(None, 1, 2, 3)),
        quick=400, thorough=8000, floor=50, timeout_q=400, timeout_t=6000,
        rule="random histories dims 1-3, p 1-4, disparity {inf,1,2,3}, marks as set/list/tuple, refine_region; invariants "
             "after every step; copy independence"),
    Sub("deep", check_deep, strategy=lambda tier: strat_deep(), quick=320, thorough=6000, floor=30, timeout_q=400, timeout_t=6000,
        rule="point-directed refinement up to 8 levels (1D) / 5 levels (2D) with finite disparity 1-3: cells, functions, canonical "
             "order and the disparity bound after every call (added after seeded change C04)"),
]
KNOWN = {}

"""Coverage-guided fuzzing of the vform middle-end (pyiga/vform.py) with the C06 oracle inside the target.

libFuzzer (through atheris) mutates a byte string; Hypothesis' `fuzz_one_input` decodes it into a form of the typed vform
grammar (`vp.gen.forms.form` / `st_form`), so every input is a well-formed program; the target is `C06.check_program`:
source-semantics interpreter vs interpreter of the finalized form.  The coverage feedback comes from the instrumented
`pyiga.vform` module only.  The first violating spec is written to <out>/violation.json before the process stops.

    python vp/fuzz_c06.py <seed> <runs> <outdir> [spacetime]
"""
import json
import os
import sys

for _v in ("OMP_NUM_THREADS", "OPENBLAS_NUM_THREADS", "MKL_NUM_THREADS"):
    os.environ.setdefault(_v, "1")

VERIF = os.path.dirname(os.path.dirname(os.path.abspath(__file__)))
sys.path.insert(0, VERIF)
sys.path.insert(0, os.path.join(VERIF, ".deps"))
REPO = os.environ.get("VERIF_REPO", "/repo")
sys.path.insert(0, REPO)


def main():
    seed, runs, out = int(sys.argv[1]), int(sys.argv[2]), sys.argv[3]
    spacetime = len(sys.argv) > 4 and sys.argv[4] == "spacetime"
    os.makedirs(out, exist_ok=True)
    import atheris
    with atheris.instrument_imports(include=["pyiga.vform"]):
        import pyiga.vform  # noqa: F401
    from hypothesis import given, settings, HealthCheck
    from vp.core import Ctx, Violation, Skip, jsonable
    from vp.gen import forms as gf
    from vp.props import C06
    stats = {"executions": 0, "checked": 0, "skipped": 0, "nontrivial": 0}
    strat = gf.st_form(depth=2, max_terms=2) if spacetime else gf.form(depth=2, max_terms=2)

    @settings(database=None, deadline=None, suppress_health_check=list(HealthCheck))
    @given(strat)
    def target(spec):
        stats["executions"] += 1
        spec = jsonable(spec)
        ctx = Ctx()
        try:
            C06.check_program(spec, ctx)
            stats["checked"] += 1
            if ctx.nontrivial:
                stats["nontrivial"] += 1
        except Skip:
            stats["skipped"] += 1
        except Violation as v:
            with open(os.path.join(out, "violation.json"), "w") as f:
                json.dump({"spec": spec, "oracle": v.oracle, "message": str(v)}, f)
            _dump()
            raise

    def _dump():
        with open(os.path.join(out, "stats.json"), "w") as f:
            json.dump(stats, f)

    import atexit
    atexit.register(_dump)
    corpus = os.path.join(out, "corpus")
    os.makedirs(corpus, exist_ok=True)
    # Hypothesis needs some hundred bytes to build a whole form; libFuzzer starts from tiny inputs and gets no coverage
    # signal while every input is rejected as too short.  Start from a few pseudo-random byte strings (deterministic in the
    # seed) of useful lengths and switch the length control off.
    import numpy as np
    rs = np.random.RandomState(seed)
    for k in range(12):
        with open(os.path.join(corpus, "seed%02d" % k), "wb") as f:
            f.write(rs.bytes(int(rs.choice([512, 1024, 2048, 4096]))))
    argv = [sys.argv[0], "-seed=%d" % (seed if seed != 0 else 1), "-runs=%d" % runs, "-max_len=8192", "-len_control=0",
            "-print_final_stats=1", "-artifact_prefix=" + os.path.join(out, "artifact-"), corpus]
    # atheris does not run atexit handlers: dump the statistics periodically from the target instead
    orig = target.hypothesis.fuzz_one_input

    def wrapped(data):
        try:
            return orig(data)
        finally:
            if stats["executions"] % 5 == 0 or stats["executions"] < 5:
                _dump()
    atheris.Setup(argv, wrapped)
    atheris.Fuzz()


if __name__ == "__main__":
    main()

"""Rebuild pyiga's Cython/C++ extensions from the *current* working tree of the repository.

Content hashes (not mtimes) decide whether a rebuild is needed, so a source that is restored
with an old mtime cannot leave a stale extension behind.
"""
import fcntl
import glob
import hashlib
import json
import os
import subprocess
import sys
import time

VERIF = os.path.dirname(os.path.dirname(os.path.abspath(__file__)))
REPO = os.environ.get("VERIF_REPO", "/repo")
BUILD = os.path.join(VERIF, ".build")
PY = sys.executable

EXT_SOURCES = {
    "bspline_cy": ["pyiga/bspline_cy.pyx"],
    "lowrank_cy": ["pyiga/lowrank_cy.pyx"],
    "mlmatrix_cy": ["pyiga/mlmatrix_cy.pyx"],
    "assemble_tools_cy": ["pyiga/assemble_tools_cy.pyx", "pyiga/assemble_tools_cy.pxd",
                          "pyiga/genericasm.pxi"],
    "assemblers": ["pyiga/assemblers.pyx", "pyiga/assemble_tools_cy.pyx",
                   "pyiga/assemble_tools_cy.pxd", "pyiga/genericasm.pxi"],
    "fast_assemble_cy": ["pyiga/fast_assemble_cy.pyx", "pyiga/fastasm.cc", "pyiga/fastasm.h"],
    "relaxation_cy": ["pyiga/relaxation_cy.pyx"],
}
PRIMARY = {
    "bspline_cy": "pyiga/bspline_cy.pyx", "lowrank_cy": "pyiga/lowrank_cy.pyx",
    "mlmatrix_cy": "pyiga/mlmatrix_cy.pyx", "assemble_tools_cy": "pyiga/assemble_tools_cy.pyx",
    "assemblers": "pyiga/assemblers.pyx", "fast_assemble_cy": "pyiga/fast_assemble_cy.pyx",
    "relaxation_cy": "pyiga/relaxation_cy.pyx",
}


def _sha(path):
    try:
        with open(path, "rb") as f:
            return hashlib.sha256(f.read()).hexdigest()
    except FileNotFoundError:
        return None


def source_hashes(repo=None):
    repo = repo or REPO
    files = sorted(set(glob.glob(os.path.join(repo, "pyiga", "*.pyx"))
                       + glob.glob(os.path.join(repo, "pyiga", "*.pxi"))
                       + glob.glob(os.path.join(repo, "pyiga", "*.pxd"))
                       + glob.glob(os.path.join(repo, "pyiga", "*.cc"))
                       + glob.glob(os.path.join(repo, "pyiga", "*.h"))
                       + [os.path.join(repo, "setup.py")]))
    return {os.path.relpath(f, repo): _sha(f) for f in files}


def _so_present(repo, ext):
    return bool(glob.glob(os.path.join(repo, "pyiga", ext + ".*.so")))


def ensure_built(repo=None, verbose=True):
    """Returns a dict describing what was done.  Raises RuntimeError on build failure."""
    repo = repo or REPO
    os.makedirs(BUILD, exist_ok=True)
    tag = hashlib.sha1(os.path.abspath(repo).encode()).hexdigest()[:10]
    stamp_path = os.path.join(BUILD, "stamp-%s.json" % tag)
    lock_path = os.path.join(BUILD, "lock-%s" % tag)
    with open(lock_path, "w") as lock:
        fcntl.flock(lock, fcntl.LOCK_EX)
        cur = source_hashes(repo)
        try:
            with open(stamp_path) as f:
                old = json.load(f)
        except Exception:
            old = {}
        changed = [k for k in cur if old.get(k) != cur[k]] + [k for k in old if k not in cur]
        missing = [e for e in EXT_SOURCES if not _so_present(repo, e)]
        if not changed and not missing:
            return {"rebuilt": [], "reason": "up to date"}
        # which extensions need rebuilding
        todo = set(missing)
        for ext, srcs in EXT_SOURCES.items():
            if any(s in changed for s in srcs) or "setup.py" in changed:
                todo.add(ext)
        # any unknown changed source -> rebuild everything
        known = set(s for v in EXT_SOURCES.values() for s in v) | {"setup.py"}
        if any(c not in known for c in changed):
            todo = set(EXT_SOURCES)
        now = time.time()
        for ext in todo:
            p = os.path.join(repo, PRIMARY[ext])
            if os.path.exists(p):
                os.utime(p, (now, now))
            for s in EXT_SOURCES[ext]:
                sp = os.path.join(repo, s)
                if s.endswith(".cc") and os.path.exists(sp):
                    os.utime(sp, (now, now))
        t0 = time.time()
        if verbose:
            print("[build] rebuilding extensions %s (changed: %s)" % (sorted(todo), changed[:6]),
                  flush=True)
        cmd = [PY, "setup.py", "build_ext", "--inplace", "-j", "8",
               "--build-temp", os.path.join(BUILD, "temp-" + tag),
               "--build-lib", os.path.join(BUILD, "lib-" + tag)]
        env = dict(os.environ)
        env.pop("PYTHONPATH", None)
        r = subprocess.run(cmd, cwd=repo, env=env, stdout=subprocess.PIPE, stderr=subprocess.STDOUT,
                           text=True)
        if r.returncode != 0:
            raise RuntimeError("extension build failed:\n" + r.stdout[-4000:])
        # import every extension in a subprocess
        code = ("import sys; sys.path.insert(0, %r)\n"
                "import pyiga.bspline_cy, pyiga.lowrank_cy, pyiga.mlmatrix_cy, "
                "pyiga.assemble_tools_cy, pyiga.assemblers, pyiga.fast_assemble_cy, "
                "pyiga.relaxation_cy\n" % repo)
        r2 = subprocess.run([PY, "-c", code], stdout=subprocess.PIPE, stderr=subprocess.STDOUT,
                            text=True, env=env)
        if r2.returncode != 0:
            raise RuntimeError("built extensions do not import:\n" + r2.stdout[-4000:])
        with open(stamp_path, "w") as f:
            json.dump(cur, f, indent=0, sort_keys=True)
        if verbose:
            print("[build] done in %.1f s" % (time.time() - t0), flush=True)
        return {"rebuilt": sorted(todo), "reason": "changed=%s missing=%s" % (changed, missing),
                "wall_s": time.time() - t0}


if __name__ == "__main__":
    try:
        print(ensure_built())
    except RuntimeError as e:
        print(e)
        sys.exit(2)

"""Core of the property-based checking framework: case context, violation type, comparison helpers,
the Hypothesis-driven shard worker and the supervisor that aggregates shards into evidence.
"""
import hashlib
import importlib
import json
import math
import os
import signal
import subprocess
import sys
import time
import traceback

VERIF = os.path.dirname(os.path.dirname(os.path.abspath(__file__)))
REPO = os.environ.get("VERIF_REPO", "/repo")
NSHARDS = 16


# ---------------------------------------------------------------------------------------------
# exceptions

class Violation(Exception):
    """The system under test contradicted the oracle."""
    def __init__(self, oracle, message, **detail):
        super().__init__("%s: %s" % (oracle, message))
        self.oracle = oracle
        self.message = message
        self.detail = detail


class HarnessError(Exception):
    pass


class Skip(Exception):
    """Case is outside the domain (documented rejection); counted, not judged."""


# ---------------------------------------------------------------------------------------------
# helpers used by property modules

def canon(spec):
    return json.dumps(spec, sort_keys=True, separators=(",", ":"), allow_nan=True)


def jsonable(spec):
    return json.loads(json.dumps(spec, allow_nan=True))


def spec_hash(spec):
    return hashlib.sha1(canon(spec).encode()).hexdigest()


def derive_seed(*parts):
    h = hashlib.sha256(repr(parts).encode()).digest()
    return int.from_bytes(h[:8], "big")


def _pyiga_frames(tb):
    frames = traceback.extract_tb(tb)
    repo_pyiga = os.path.join(os.path.realpath(REPO), "pyiga")
    out = []
    for fr in frames:
        fn = os.path.realpath(fr.filename) if fr.filename and not fr.filename.startswith("<") else fr.filename
        if fn and (fn.startswith(repo_pyiga) or "/pyiga/" in fn and "/verif/" not in fn):
            out.append("%s:%s:%s" % (os.path.basename(fn), fr.lineno, fr.name))
    return out


class Ctx:
    """Per-case context: class flags, non-triviality, error/tolerance ratios."""
    def __init__(self):
        self.flags = set()
        self.nontrivial = False
        self.ratios = {}
        self.notes = {}
        self.counts = {}

    def flag(self, *names):
        for n in names:
            if n:
                self.flags.add(str(n))

    def count(self, name, n=1):
        self.counts[name] = self.counts.get(name, 0) + int(n)

    def ratio(self, name, value):
        try:
            value = float(value)
        except Exception:
            return
        if value != value:
            return
        if value > self.ratios.get(name, -1.0):
            self.ratios[name] = value

    def sut(self, fn, *args, accept=(), what=None, **kwargs):
        """Call into pyiga.  Any exception (not in `accept`) is a crash-on-valid-input violation."""
        try:
            return fn(*args, **kwargs)
        except accept as e:   # documented rejection
            raise Skip("%s: %s" % (type(e).__name__, e))
        except (Violation, Skip, HarnessError):
            raise
        except (KeyboardInterrupt, SystemExit, MemoryError):
            raise
        except Exception as e:
            fr = _pyiga_frames(e.__traceback__)
            name = what or getattr(fn, "__name__", str(fn))
            raise Violation("crash:" + name,
                            "%s: %s" % (type(e).__name__, str(e)[:300]),
                            exc_type=type(e).__name__, frames=fr[-3:])

    def close(self, oracle, got, ref, rtol=1e-12, atol=0.0, scale=None, what=""):
        """|got-ref| <= atol + rtol*scale entrywise, scale defaulting to max|ref| (whole array)."""
        import numpy as np
        import scipy.sparse
        if scipy.sparse.issparse(got):
            got = got.toarray()
        if scipy.sparse.issparse(ref):
            ref = ref.toarray()
        try:
            g = np.asarray(got, dtype=float)
        except Exception as e:
            raise Violation(oracle, "result not numeric (%s) %s" % (type(got).__name__, what))
        r = np.asarray(ref, dtype=float)
        if g.shape != r.shape:
            raise Violation(oracle, "shape %s != expected %s %s" % (g.shape, r.shape, what))
        if r.size == 0:
            return 0.0
        if not np.all(np.isfinite(g)):
            if np.all(np.isfinite(r)):
                raise Violation(oracle, "non-finite entries in result %s" % what)
        if scale is None:
            scale = float(np.max(np.abs(r))) if r.size else 0.0
        tol = atol + rtol * np.asarray(scale, dtype=float)
        err = np.abs(g - r)
        with np.errstate(divide="ignore", invalid="ignore"):
            ratio = np.where(err == 0, 0.0, err / tol)
        m = float(np.max(ratio)) if ratio.size else 0.0
        if not (m == m):
            m = float("inf")
        self.ratio(oracle, m)
        if m > 1.0:
            idx = np.unravel_index(int(np.argmax(ratio)), ratio.shape)
            raise Violation(oracle, "mismatch %s at %s: got %r expected %r (err %.3g, tol %.3g)"
                            % (what, tuple(int(i) for i in idx), float(g[idx]), float(r[idx]),
                               float(err[idx]), float(np.broadcast_to(tol, err.shape)[idx])),
                            index=[int(i) for i in idx])
        return m

    def equal(self, oracle, got, ref, what=""):
        import numpy as np
        try:
            ok = (got == ref)
            if not isinstance(ok, bool):
                g = np.asarray(got)
                r = np.asarray(ref)
                ok = (g.shape == r.shape) and bool(np.array_equal(g, r))
        except Exception:
            ok = False
        if not ok:
            raise Violation(oracle, "%s: got %s expected %s" % (what, _short(got), _short(ref)))

    def require(self, oracle, cond, message=""):
        if not cond:
            raise Violation(oracle, message)


def _short(x, n=200):
    s = repr(x)
    return s if len(s) <= n else s[:n] + "..."


# ---------------------------------------------------------------------------------------------
# subcheck description

class Sub:
    def __init__(self, name, run, strategy=None, enum=None, quick=100, thorough=1000,
                 isolate=False, shards=NSHARDS, rule="", floor=2, timeout_q=240, timeout_t=3000,
                 setup=None, max_shrink_calls=300, examples=()):
        self.name = name
        self.run = run                # run(spec, ctx)
        self.strategy = strategy      # strategy(tier) -> hypothesis strategy of specs
        self.enum = enum              # enum(tier) -> list of specs (exhaustive sub-domain)
        self.budget = {"quick": quick, "thorough": thorough}
        self.isolate = isolate
        self.shards = shards
        self.rule = rule
        self.floor = floor
        self.timeout = {"quick": timeout_q, "thorough": timeout_t}
        self.setup = setup            # setup(tier) called once per worker before cases
        self.max_shrink_calls = max_shrink_calls
        self.examples = examples


def load_prop(pid):
    return importlib.import_module("vp.props." + pid)


# ---------------------------------------------------------------------------------------------
# known findings

def load_findings(pid):
    path = os.path.join(VERIF, "known_findings.json")
    try:
        with open(path) as f:
            data = json.load(f)
    except FileNotFoundError:
        return []
    out = [e for e in data.get("findings", []) if e.get("property") == pid]
    # per-property staging files (merged into known_findings.json before registration)
    extra = os.path.join(VERIF, "known_findings.d", pid + ".json")
    if os.path.exists(extra):
        with open(extra) as f:
            out += [e for e in json.load(f).get("findings", []) if e.get("property") == pid]
    return out


def match_known(mod, findings, subname, spec, viol):
    """Return the key of the open finding that explains this violation, or None."""
    preds = getattr(mod, "KNOWN", {})
    for e in findings:
        if e.get("status") != "open":
            continue
        if e.get("subcheck") not in (None, subname):
            continue
        p = preds.get(e["key"])
        if p is None:
            continue
        try:
            if p(spec, viol):
                return e["key"]
        except Exception:
            continue
    return None


# ---------------------------------------------------------------------------------------------
# executing a single case

def run_case(mod, sub, spec, findings=()):
    """Returns (status, ctx, info).  status in ok|skip|known|violation|harness."""
    ctx = Ctx()
    try:
        sub.run(spec, ctx)
        return "ok", ctx, None
    except Skip as s:
        return "skip", ctx, str(s)
    except Violation as v:
        key = match_known(mod, findings, sub.name, spec, v)
        if key:
            return "known", ctx, key
        return "violation", ctx, v
    except (KeyboardInterrupt, SystemExit):
        raise
    except MemoryError as e:
        return "harness", ctx, "MemoryError"
    except Exception as e:
        fr = _pyiga_frames(e.__traceback__)
        if fr:
            v = Violation("crash:uncaught", "%s: %s" % (type(e).__name__, str(e)[:300]),
                          exc_type=type(e).__name__, frames=fr[-3:])
            key = match_known(mod, findings, sub.name, spec, v)
            if key:
                return "known", ctx, key
            return "violation", ctx, v
        return "harness", ctx, "".join(traceback.format_exception(type(e), e, e.__traceback__))[-3000:]


# ---------------------------------------------------------------------------------------------
# shard worker (runs in its own process)

def worker_main(pid, subname, shard, tier, seed, outpath):
    t0 = time.time()
    mod = load_prop(pid)
    sub = {s.name: s for s in mod.SUBCHECKS}[subname]
    findings = load_findings(pid)
    nsh = sub.shards
    journal = outpath + ".journal" if sub.isolate else None
    res = {"sub": subname, "shard": shard, "evaluations": 0, "skipped": 0, "known": {},
           "flags": {}, "ratios": {}, "nontrivial_hashes": [], "samples": [], "violation": None,
           "harness": None, "inconclusive": False, "enumerated": 0, "enum_total": None,
           "rejected_reasons": {}}
    nt = set()
    budget_s = sub.timeout[tier] * 0.8
    if os.environ.get("VERIF_BUDGET_S"):
        # optional wall-clock cap per sub-check shard (the run then reports "inconclusive: budget hit", never a violation)
        budget_s = min(budget_s, float(os.environ["VERIF_BUDGET_S"]))
    state = {"fail": None, "calls_after_fail": 0, "harness": None}

    os.environ["VERIF_SHARD"] = str(shard)
    if sub.setup is not None:
        try:
            sub.setup(tier)
        except Exception as e:
            fr = _pyiga_frames(e.__traceback__)
            res["harness"] = "setup failed: " + "".join(traceback.format_exception(type(e), e, e.__traceback__))[-3000:]
            res["setup_pyiga_frames"] = fr
            _dump(outpath, res, t0)
            return

    def one(spec, count=True):
        spec = jsonable(spec)
        if journal:
            with open(journal, "w") as f:
                f.write(canon(spec))
        status, ctx, info = run_case(mod, sub, spec, findings)
        if count:
            res["evaluations"] += 1
        for fl in ctx.flags:
            res["flags"][fl] = res["flags"].get(fl, 0) + 1
        for k, v in ctx.counts.items():
            res["flags"]["#" + k] = res["flags"].get("#" + k, 0) + v
        for k, v in ctx.ratios.items():
            if v > res["ratios"].get(k, -1):
                res["ratios"][k] = v
        if status == "skip":
            res["skipped"] += 1
            key = str(info)[:60]
            res["rejected_reasons"][key] = res["rejected_reasons"].get(key, 0) + 1
        elif status == "known":
            res["known"][info] = res["known"].get(info, 0) + 1
        if status in ("ok", "known") and ctx.nontrivial:
            h = spec_hash(spec)
            if h not in nt:
                nt.add(h)
                if len(res["samples"]) < 3:
                    res["samples"].append(_trim(spec))
        return status, info, spec

    # exhaustive part
    if sub.enum is not None:
        allspecs = sub.enum(tier)
        res["enum_total"] = len(allspecs)
        mine = allspecs[shard::nsh]
        for spec in mine:
            if time.time() - t0 > budget_s:
                res["inconclusive"] = True
                break
            status, info, spec = one(spec)
            res["enumerated"] += 1
            if status == "violation":
                res["violation"] = {"spec": info.detail.pop("replay_spec", spec), "oracle": info.oracle,
                                    "message": str(info), "detail": _sanitize(info.detail)}
                break
            if status == "harness":
                res["harness"] = info
                break

    # generated part
    n_examples = int(math.ceil(sub.budget[tier] / float(nsh))) if sub.strategy is not None else 0
    if n_examples > 0 and res["violation"] is None and res["harness"] is None:
        import hypothesis
        from hypothesis import given, settings, HealthCheck, Phase

        strat = sub.strategy(tier)

        def body(spec):
            state["calls"] = state.get("calls", 0) + 1
            # Hypothesis always starts with the minimal example, which is identical in every shard: run it in shard 0 only
            if state["calls"] == 1 and shard != 0 and n_examples > 1:
                return
            if state["harness"] is not None:
                return
            if state["fail"] is not None:
                state["calls_after_fail"] += 1
                if state["calls_after_fail"] > sub.max_shrink_calls:
                    return
            elif time.time() - t0 > budget_s:
                res["inconclusive"] = True
                return
            status, info, spec = one(spec, count=state["fail"] is None)
            if status == "violation":
                det = dict(info.detail)
                state["fail"] = {"spec": det.pop("replay_spec", spec), "oracle": info.oracle, "message": str(info),
                                 "detail": _sanitize(det)}
                raise info
            if status == "harness":
                state["harness"] = info
                return

        test = given(strat)(body)
        test = hypothesis.seed(derive_seed(seed, pid, subname, shard))(test)
        test = settings(max_examples=n_examples + (1 if (shard != 0 and n_examples > 1) else 0), database=None, deadline=None, derandomize=False,
                        report_multiple_bugs=False, print_blob=False,
                        suppress_health_check=list(HealthCheck),
                        phases=[Phase.explicit, Phase.generate, Phase.shrink])(test)
        for ex in sub.examples:
            test = hypothesis.example(ex)(test)
        try:
            import io
            import contextlib
            buf = io.StringIO()
            with contextlib.redirect_stdout(buf):
                test()
        except Violation:
            pass
        except BaseException as e:
            if isinstance(e, (KeyboardInterrupt, SystemExit)):
                raise
            if state["fail"] is None and state["harness"] is None:
                # hypothesis-internal error (Flaky etc.) without a recorded failure
                state["harness"] = "hypothesis error: " + "".join(
                    traceback.format_exception(type(e), e, e.__traceback__))[-3000:]
        if state["fail"] is not None:
            res["violation"] = state["fail"]
        if state["harness"] is not None and res["violation"] is None:
            res["harness"] = state["harness"]

    res["nontrivial_hashes"] = sorted(nt)
    _dump(outpath, res, t0)


def _trim(spec, limit=1500):
    s = canon(spec)
    if len(s) <= limit:
        return spec
    return {"truncated_spec_json": s[:limit] + "...", "sha1": spec_hash(spec)}


def _dump(outpath, res, t0):
    res["wall_s"] = time.time() - t0
    tmp = outpath + ".tmp"
    with open(tmp, "w") as f:
        json.dump(res, f, allow_nan=True)
    os.replace(tmp, outpath)


# ---------------------------------------------------------------------------------------------
# supervisor

def _write_replay(pid, subname, spec, message, extra=None):
    d = os.path.join(VERIF, "replays", pid)
    os.makedirs(d, exist_ok=True)
    body = {"property": pid, "subcheck": subname, "spec": spec, "message": message}
    if extra:
        body.update(extra)
    path = os.path.join(d, "%s-%s.json" % (subname, spec_hash(spec)[:12]))
    with open(path, "w") as f:
        json.dump(body, f, indent=1, allow_nan=True, sort_keys=True)
    return path


def corpus_files(pid):
    d = os.path.join(VERIF, "corpus", pid)
    if not os.path.isdir(d):
        return []
    return sorted(os.path.join(d, f) for f in os.listdir(d) if f.endswith(".json"))


def run_property(pid, tier, seed, only=None, jobs=None):
    """Supervisor.  Returns exit code."""
    t0 = time.time()
    from . import build
    try:
        binfo = build.ensure_built()
    except RuntimeError as e:
        print("HARNESS-ERROR: build failed\n%s" % e)
        return 2
    mod = load_prop(pid)
    subs = [s for s in mod.SUBCHECKS if only is None or s.name in only]
    findings = load_findings(pid)
    workdir = os.path.join(VERIF, ".cache", "run-%s-%d" % (pid, os.getpid()))
    os.makedirs(workdir, exist_ok=True)
    jobs = jobs or int(os.environ.get("VERIF_JOBS", "16"))

    violations = []     # (subname, spec, message)
    known_lines = {}
    harness = []

    # 1. replay tier: corpus (in a crash-isolated child)
    corpus = corpus_files(pid)
    corpus_res = []
    if corpus:
        out = os.path.join(workdir, "corpus.json")
        p = _spawn(["--corpus-worker", pid, out], workdir, "corpus")
        try:
            p.wait(timeout=1200)
        except subprocess.TimeoutExpired:
            p.kill()
        try:
            with open(out) as f:
                corpus_res = json.load(f)
        except Exception:
            harness.append("corpus replay worker died (rc=%s)" % p.returncode)
        for r in corpus_res:
            if r["status"] == "violation":
                violations.append((r["sub"], r["spec"], r["message"], r["file"]))
            elif r["status"] == "known":
                known_lines[r["info"]] = known_lines.get(r["info"], 0) + 1
            elif r["status"] == "harness":
                harness.append("corpus %s: %s" % (r["file"], r["info"]))

    # 2. shards
    pending = []
    for s in subs:
        for sh in range(s.shards):
            pending.append((s, sh))
    running = []
    results = []
    crashed = []
    while pending or running:
        while pending and len(running) < jobs:
            s, sh = pending.pop(0)
            out = os.path.join(workdir, "%s-%d.json" % (s.name, sh))
            p = _spawn(["--worker", pid, s.name, str(sh), tier, str(seed), out], workdir,
                       "%s-%d" % (s.name, sh), shared_cache=bool(getattr(mod, "SHARED_CACHE", False)))
            running.append((s, sh, out, p, time.time()))
        time.sleep(0.05)
        still = []
        for (s, sh, out, p, ts) in running:
            rc = p.poll()
            if rc is None:
                if time.time() - ts > s.timeout[tier]:
                    p.kill()
                    p.wait()
                    results.append({"sub": s.name, "shard": sh, "evaluations": 0, "skipped": 0,
                                    "known": {}, "flags": {}, "ratios": {}, "nontrivial_hashes": [],
                                    "samples": [], "violation": None, "harness": None,
                                    "inconclusive": True, "killed_on_timeout": True,
                                    "enumerated": 0, "enum_total": None, "wall_s": time.time() - ts})
                else:
                    still.append((s, sh, out, p, ts))
                continue
            if os.path.exists(out):
                with open(out) as f:
                    results.append(json.load(f))
            else:
                # died without writing a result
                jpath = out + ".journal"
                logtail = _tail(os.path.join(workdir, "%s-%d.log" % (s.name, sh)))
                if rc < 0 and os.path.exists(jpath):
                    with open(jpath) as f:
                        spec = json.loads(f.read())
                    signame = signal.Signals(-rc).name if -rc in [x.value for x in signal.Signals] else str(rc)
                    crashed.append((s.name, spec, "interpreter died with %s" % signame))
                elif rc < 0:
                    signame = signal.Signals(-rc).name if -rc in [x.value for x in signal.Signals] else str(rc)
                    harness.append("worker %s-%d died with %s before any case: %s" % (s.name, sh, signame, logtail))
                else:
                    harness.append("worker %s-%d exited rc=%d without result: %s" % (s.name, sh, rc, logtail))
        running = still

    # 3. aggregate
    agg = {}
    for r in results:
        a = agg.setdefault(r["sub"], {"evaluations": 0, "skipped": 0, "known": {}, "flags": {},
                                      "ratios": {}, "nt": set(), "samples": [], "inconclusive": False,
                                      "enumerated": 0, "enum_total": None, "rejected": {}})
        a["evaluations"] += r["evaluations"]
        a["skipped"] += r["skipped"]
        a["enumerated"] += r.get("enumerated", 0)
        if r.get("enum_total") is not None:
            a["enum_total"] = r["enum_total"]
        for k, v in r["known"].items():
            a["known"][k] = a["known"].get(k, 0) + v
        for k, v in r["flags"].items():
            a["flags"][k] = a["flags"].get(k, 0) + v
        for k, v in r["ratios"].items():
            a["ratios"][k] = max(a["ratios"].get(k, -1), v)
        for k, v in r.get("rejected_reasons", {}).items():
            a["rejected"][k] = a["rejected"].get(k, 0) + v
        a["nt"].update(r["nontrivial_hashes"])
        if len(a["samples"]) < 6:
            a["samples"].extend(r["samples"][:2])
        a["inconclusive"] = a["inconclusive"] or r.get("inconclusive", False)
        if r.get("violation"):
            v = r["violation"]
            violations.append((r["sub"], v["spec"], v["message"], None))
        if r.get("harness"):
            harness.append("%s shard %d: %s" % (r["sub"], r["shard"], r["harness"]))
    for (sname, spec, msg) in crashed:
        violations.append((sname, spec, msg, None))

    # 4. report
    total_eval = sum(a["evaluations"] for a in agg.values()) + len(corpus_res)
    nt_total = sum(len(a["nt"]) for a in agg.values())
    samples = []
    for sname, a in agg.items():
        for smp in a["samples"][:4]:
            samples.append({"subcheck": sname, "spec": smp})
    known_total = {}
    for a in agg.values():
        for k, v in a["known"].items():
            known_total[k] = known_total.get(k, 0) + v
    for k, v in known_lines.items():
        known_total[k] = known_total.get(k, 0) + v

    exhaustive = {}
    for sname, a in agg.items():
        if a["enum_total"] is not None:
            exhaustive[sname] = {"size": a["enum_total"], "visited": a["enumerated"],
                                 "complete": a["enumerated"] == a["enum_total"]}
    coverage = {
        "evaluations": int(total_eval),
        "distinct_nontrivial": int(nt_total),
        "rule": getattr(mod, "RULE", "") + " | per subcheck: " + "; ".join(
            "%s: %s" % (s.name, s.rule) for s in subs if s.rule),
        "samples": samples[:12] if samples else [{"note": "no non-trivial case completed"}],
        "per_subcheck": {sname: {"evaluations": a["evaluations"], "skipped_out_of_domain": a["skipped"],
                                 "distinct_nontrivial": len(a["nt"]), "classes": dict(sorted(a["flags"].items())),
                                 "max_error_over_tolerance": {k: round(v, 6) for k, v in sorted(a["ratios"].items())},
                                 "known_finding_hits": a["known"], "inconclusive": a["inconclusive"],
                                 "skip_reasons": dict(sorted(a["rejected"].items(), key=lambda kv: -kv[1])[:8])}
                         for sname, a in agg.items()},
        "corpus_replayed": len(corpus_res),
        "known_finding_hits": known_total,
        "inconclusive": any(a["inconclusive"] for a in agg.values()),
        "exhaustive_subdomains": exhaustive,
        "exhaustive": bool(exhaustive) and all(e["complete"] for e in exhaustive.values()) and all(
            s.strategy is None for s in subs),
        "build": binfo.get("rebuilt", []),
    }
    if getattr(mod, "LEVEL", "exploration") == "translation_validation":
        coverage["programs"] = int(total_eval)
        coverage["disagreements_checked"] = int(len(violations) + sum(known_total.values()))
    evid = {
        "property_id": pid, "tier": tier, "seed": int(seed),
        "level": getattr(mod, "LEVEL", "exploration"),
        "coverage": coverage,
        "assumptions": list(getattr(mod, "ASSUMPTIONS", [])),
        "wall_s": round(time.time() - t0, 2),
        "violations": len(violations),
    }
    # evidence/<id>.json describes a complete run of the registered command against /repo; partial runs (--only) and runs
    # against another tree (VERIF_REPO, used for seeded changes and background snapshots) are written to a scratch directory
    evdir = os.path.join(VERIF, "evidence")
    if only is not None or os.path.abspath(os.environ.get("VERIF_REPO", "/repo")) != "/repo":
        evdir = os.path.join(VERIF, ".cache", "evidence-scratch")
    if os.environ.get("VERIF_EVIDENCE_DIR"):      # exploration at further seeds must not replace the committed evidence
        evdir = os.environ["VERIF_EVIDENCE_DIR"]
    os.makedirs(evdir, exist_ok=True)
    with open(os.path.join(evdir, pid + ".json"), "w") as f:
        json.dump(_sanitize(evid), f, indent=1, allow_nan=False, default=_nanfix, sort_keys=True)

    # open findings whose witness still fails
    for e in findings:
        if e.get("status") == "open" and known_total.get(e["key"], 0) > 0:
            print("KNOWN-FINDING: property=%s %s [key=%s, hits=%d]" % (pid, e["summary"], e["key"],
                                                                       known_total[e["key"]]))
    rc = 0
    if violations:
        seen = set()
        for (sname, spec, msg, src) in violations:
            path = src or _write_replay(pid, sname, spec, msg)
            if path in seen:
                continue
            seen.add(path)
            print("VIOLATION property=%s replay=%s" % (pid, os.path.relpath(path, VERIF)))
            print("  subcheck=%s %s" % (sname, msg[:500]))
        rc = 1
    elif harness:
        for h in harness[:5]:
            print("HARNESS-ERROR: %s" % h)
        rc = 2
    else:
        # vacuity guard
        for s in subs:
            a = agg.get(s.name)
            if a is None:
                continue
            if not a["inconclusive"] and len(a["nt"]) < s.floor and not a["known"]:
                print("HARNESS-ERROR: subcheck %s produced only %d distinct non-trivial cases (floor %d)"
                      % (s.name, len(a["nt"]), s.floor))
                rc = 2
    print("[%s] tier=%s seed=%s evaluations=%d distinct_nontrivial=%d violations=%d wall=%.1fs%s"
          % (pid, tier, seed, total_eval, nt_total, len(violations), time.time() - t0,
             " (inconclusive: budget hit)" if coverage["inconclusive"] else ""))
    _rmtree(workdir)
    return rc


def _nanfix(o):
    return str(o)


def _sanitize(o):
    """JSON-compliant copy: non-finite floats become strings."""
    if isinstance(o, float):
        return o if math.isfinite(o) else repr(o)
    if isinstance(o, dict):
        return {str(k): _sanitize(v) for k, v in o.items()}
    if isinstance(o, (list, tuple)):
        return [_sanitize(v) for v in o]
    return o


def _tail(path, n=1500):
    try:
        with open(path) as f:
            return f.read()[-n:]
    except Exception:
        return ""


def _rmtree(path):
    import shutil
    shutil.rmtree(path, ignore_errors=True)


def _spawn(args, workdir, tag, shared_cache=False):
    env = dict(os.environ)
    env["PYTHONHASHSEED"] = "0"
    env.setdefault("OMP_NUM_THREADS", "1")
    env.setdefault("OPENBLAS_NUM_THREADS", "1")
    env.setdefault("MKL_NUM_THREADS", "1")
    env["XDG_CACHE_HOME"] = os.path.join(workdir, "xdg-shared" if shared_cache else "xdg-" + tag)
    env["MPLBACKEND"] = "Agg"
    os.makedirs(env["XDG_CACHE_HOME"], exist_ok=True)
    log = open(os.path.join(workdir, tag + ".log"), "w")
    return subprocess.Popen([sys.executable, os.path.join(VERIF, "run_check.py")] + args,
                            stdout=log, stderr=subprocess.STDOUT, env=env, cwd=VERIF)


def corpus_worker(pid, outpath):
    mod = load_prop(pid)
    subs = {s.name: s for s in mod.SUBCHECKS}
    findings = load_findings(pid)
    out = []
    done_setup = set()
    for path in corpus_files(pid):
        with open(path) as f:
            c = json.load(f)
        sub = subs.get(c.get("subcheck"))
        if sub is None:
            continue
        if sub.setup is not None and sub.name not in done_setup:
            sub.setup("quick")
            done_setup.add(sub.name)
        status, ctx, info = run_case(mod, sub, c["spec"], findings)
        out.append({"file": os.path.relpath(path, VERIF), "sub": sub.name, "spec": c["spec"],
                    "status": status, "info": info if isinstance(info, str) else None,
                    "message": str(info) if status == "violation" else None})
        with open(outpath + ".tmp", "w") as f:
            json.dump(out, f, allow_nan=True)
        os.replace(outpath + ".tmp", outpath)
    with open(outpath + ".tmp", "w") as f:
        json.dump(out, f, allow_nan=True)
    os.replace(outpath + ".tmp", outpath)


def replay(pid, path):
    """Replays one saved case in a crash-isolated child process."""
    from . import build
    try:
        build.ensure_built()
    except RuntimeError as e:
        print("HARNESS-ERROR: build failed\n%s" % e)
        return 2
    workdir = os.path.join(VERIF, ".cache", "replay-%s-%d" % (pid, os.getpid()))
    os.makedirs(workdir, exist_ok=True)
    out = os.path.join(workdir, "result.json")
    p = _spawn(["--replay-worker", pid, os.path.abspath(path), out], workdir, "replay")
    try:
        p.wait(timeout=3000)
    except subprocess.TimeoutExpired:
        p.kill()
        print("replay %s: inconclusive (timeout)" % path)
        _rmtree(workdir)
        return 0
    rc = 2
    if os.path.exists(out):
        with open(out) as f:
            r = json.load(f)
        status, info = r["status"], r["info"]
        if status == "violation":
            print("VIOLATION property=%s replay=%s" % (pid, path))
            print("  " + str(info)[:800])
            rc = 1
        elif status == "known":
            print("KNOWN-FINDING: property=%s key=%s" % (pid, info))
            rc = 0
        elif status == "harness":
            print("HARNESS-ERROR: %s" % info)
            rc = 2
        else:
            print("replay %s: %s" % (path, status))
            rc = 0
    elif p.returncode is not None and p.returncode < 0:
        print("VIOLATION property=%s replay=%s" % (pid, path))
        print("  interpreter died with signal %d" % (-p.returncode))
        rc = 1
    else:
        print("HARNESS-ERROR: replay worker exited rc=%s: %s" % (p.returncode, _tail(os.path.join(workdir, "replay.log"))))
    _rmtree(workdir)
    return rc


def replay_worker(pid, path, outpath):
    mod = load_prop(pid)
    with open(path) as f:
        c = json.load(f)
    sub = {s.name: s for s in mod.SUBCHECKS}[c["subcheck"]]
    if sub.setup is not None:
        sub.setup("quick")
    status, ctx, info = run_case(mod, sub, c["spec"], load_findings(pid))
    with open(outpath, "w") as f:
        json.dump({"status": status, "info": str(info) if info is not None else None}, f)

"""Typed random grammar over the documented vform language (emitting a JSON AST) and the builder that
turns an AST into a pyiga VForm through the programmatic API or the string front-end."""
import math
import numpy as np
from hypothesis import strategies as st

from . import knots as gk
from . import geo as gg
from ..ref import geo as rg
from ..ref import forms as rf

CONSTS = [1.0, 2.0, -1.0, 0.5, 3.0, -0.25, 1.5]
FUNCS = ["abs", "sqrt", "exp", "log", "sin", "cos", "tan"]


class G:
    """Generation context."""
    def __init__(self, draw, dim, geo_dim, kind, inputs, params, funcs_ok=True, spacetime=False):
        self.draw = draw
        self.dim = dim
        self.spacetime = spacetime
        self.sdim = dim - 1 if spacetime else dim     # coordinates grad/hess/div act on
        self.geo_dim = geo_dim
        self.kind = kind          # volume | surface | boundary
        self.inputs = inputs      # list of decl dicts (may be appended)
        self.params = params
        self.phys_ok = (kind != "surface")
        self.funcs_ok = funcs_ok
        self.counter = [0]
        self.lets = []            # user-defined variables (vf.let), in definition order

    def pick(self, seq):
        return self.draw(st.sampled_from(list(seq)))

    def chance(self, p):
        return self.draw(st.integers(0, 99)) < int(p * 100)

    def new_input(self, shape, kind=None):
        name = "f%d" % len(self.inputs)
        if kind is None:
            kind = self.pick(["spline", "spline", "callable"]) if self.phys_ok and len(shape) <= 1 else "spline"
        decl = {"name": name, "shape": list(shape), "kind": kind, "updatable": False,
                "seed": [self.draw(st.integers(-8, 8)) / 4.0 for _ in range(11)],
                "p": self.draw(st.integers(1, 3)), "nurbs": kind == "spline" and len(shape) <= 1 and self.chance(0.2)}
        self.inputs.append(decl)
        return decl

    def get_input(self, shape, need_spline=False):
        cands = [i for i in self.inputs if tuple(i["shape"]) == tuple(shape) and (i["kind"] == "spline" or not need_spline)]
        if cands and self.chance(0.5):
            return self.pick(cands)
        if len(self.inputs) >= 3 and cands:
            return self.pick(cands)
        return self.new_input(shape, "spline" if need_spline else None)

    def get_var(self, shape, depth):
        """Reference to a user-defined variable (vf.let) of the given shape; new variables may refer to older ones."""
        shape = tuple(shape)
        cands = [v for v in self.lets if tuple(v["shape"]) == shape]
        if cands and (self.chance(0.5) or len(self.lets) >= 4):
            return ["var", self.pick(cands)["name"]]
        d = max(depth - 1, 0)
        sym = False
        if shape == ():
            expr = gen_scalar(self, max(d, 1))
        elif len(shape) == 1:
            expr = gen_vector(self, shape[0], max(d, 1))
        else:
            expr = gen_matrix(self, shape, d)
            if shape[0] == shape[1] and self.chance(0.5):
                expr = ["+", expr, ["T", expr]]
                sym = True
        v = {"name": "w%d" % len(self.lets), "shape": list(shape), "expr": expr, "symmetric": sym}
        self.lets.append(v)
        return ["var", v["name"]]

    def get_param(self, shape):
        cands = [p for p in self.params if tuple(p["shape"]) == tuple(shape)]
        if cands and (self.chance(0.5) or len(self.params) >= 3):
            return self.pick(cands)
        n = int(np.prod(shape)) if shape else 1
        vals = [self.draw(st.integers(-8, 8)) / 4.0 for _ in range(n)]
        if len(shape) == 2 and shape[0] == shape[1]:
            # keep square parameter matrices safely invertible (diagonally dominant)
            for i in range(shape[0]):
                vals[i * shape[1] + i] = 4.0 + abs(vals[i * shape[1] + i])
        p = {"name": "c%d" % len(self.params), "shape": list(shape), "value": vals}
        self.params.append(p)
        return p


def _safe_pos(e):
    """1 + e*e  (>= 1)."""
    return ["+", ["const", 1.0], ["*", e, e]]


NEAR_CONSTS = [-1.0, -2.0, 1.0, 2.0, 0.5, -0.5, 3.0, 4.0]


def _is_guard(node):
    """Sub-trees whose constants/operators keep an argument admissible (1 + e*e, 2 + sin e, 0.5 * sin e): never mutated."""
    if node[0] == "+" and node[1][0] == "const" and node[2][0] == "*" and node[2][1] == node[2][2]:
        return True
    if node[0] in ("+", "*") and node[1][0] == "const" and node[2][0] == "fn" and node[2][1] == "sin":
        return True
    return False


def _near_sites(node, path, out):
    if not isinstance(node, list) or not node or not isinstance(node[0], str):
        return
    op = node[0]
    guard = _is_guard(node)
    if op == "const":
        out.append((path, "const"))
    elif op in ("+", "-") and not guard and len(node) == 3:
        out.append((path, "op"))
        if op == "-" and node[1] != node[2]:
            # operands of a non-commutative operator exchanged: A - B next to B - A (twice: the site is rarer than constants)
            out.append((path, "swap"))
            out.append((path, "swap"))
    elif op == "fn" and node[1] in ("sin", "cos"):
        out.append((path, "fn"))
    for i, c in enumerate(node):
        if i == 0 or not isinstance(c, list):
            continue
        if guard and i == 1:
            continue            # the guarding constant itself
        if op == "pow" and node[2] < 0:
            continue            # base of a negative power is a guarded expression
        _near_sites(c, path + (i,), out)


def _near_copy(g, e):
    """A copy of e with exactly one token changed (None if e has no mutable token)."""
    import copy
    sites = []
    _near_sites(e, (), sites)
    if not sites:
        return None
    path, what = sites[g.draw(st.integers(0, len(sites) - 1))]
    e2 = copy.deepcopy(e)
    node = e2
    for i in path:
        node = node[i]
    if what == "const":
        c = float(node[1])
        node[1] = g.pick([v for v in (c - 1.0, c + 1.0, -c, 2.0 * c, c - 3.0) if v != c])
    elif what == "op":
        node[0] = "-" if node[0] == "+" else "+"
    elif what == "swap":
        node[1], node[2] = node[2], node[1]
    else:
        node[1] = "cos" if node[1] == "sin" else "sin"
    return e2


def gen_scalar(g, depth):
    d = g.dim
    leaf = depth <= 0 or g.chance(0.3)
    if leaf:
        k = g.pick(["const", "param", "input", "input", "x", "dinput", "jacentry", "var"])
        if k == "var":
            return g.get_var((), depth) if depth >= 1 else ["const", g.pick(CONSTS)]
        if k == "const":
            return ["const", g.pick(CONSTS)]
        if k == "param":
            return ["param", g.get_param(())["name"]]
        if k == "input":
            return ["input", g.get_input(())["name"]]
        if k == "x":
            return ["idx", ["x"], g.draw(st.integers(0, g.geo_dim - 1))]
        if k == "dinput":
            inp = g.get_input((), need_spline=True)
            para = (not g.phys_ok) or g.chance(0.4)
            if g.chance(0.3):
                i, j = g.draw(st.integers(0, g.sdim - 1)), g.draw(st.integers(0, g.sdim - 1))
                # space-time forms implement first-order physical space derivatives only
                return ["idx", ["hess", ["input", inp["name"]], para or g.spacetime], i, j]
            return ["dx", ["input", inp["name"]], g.draw(st.integers(0, d - 1)), para]
        return ["idx", ["jac"], g.draw(st.integers(0, g.geo_dim - 1)), g.draw(st.integers(0, d - 1))]
    k = g.pick(["+", "-", "*", "*", "/", "pow", "fn", "fn", "fnpair", "near", "swap", "inner", "tr", "det", "idxv", "neg"])
    if k == "swap":
        # a difference of two compound operands next to the difference with the operands exchanged, (A - B) w and (B - A):
        # equal up to the ORDER of the operands of a non-commutative operator, never to be shared
        a = gen_scalar(g, max(depth - 1, 1))
        b = gen_scalar(g, max(depth - 1, 1))
        if a == b:
            b = ["+", b, ["const", g.pick(NEAR_CONSTS)]]
        d1, d2 = ["-", a, b], ["-", b, a]
        if g.funcs_ok and g.chance(0.3):
            f = g.pick(["sin", "cos", "abs"])
            d1, d2 = ["fn", f, d1], ["fn", f, d2]
        return [g.pick(["+", "-", "*"]), ["*", d1, gen_scalar(g, 0)], d2]
    if k == "near":
        # two compound sub-expressions which differ in exactly ONE token (a constant, +/-, sin/cos, a derivative index) or in
        # the order of the operands of one difference:
        # they must never be merged or shared ("merged only if semantically identical")
        e = gen_scalar(g, max(depth - 1, 1))
        e2 = _near_copy(g, e)
        if e2 is None:
            e2 = ["+", e, ["const", g.pick(NEAR_CONSTS)]]
            e = ["+", e, ["const", g.pick(NEAR_CONSTS)]]
        if g.funcs_ok and g.chance(0.5):
            f = g.pick(["sin", "cos", "abs"])
            e, e2 = ["fn", f, e], ["fn", f, e2]
        return [g.pick(["+", "-", "*"]), e, e2]
    if k == "fnpair" and g.funcs_ok:
        # two (possibly different) builtin functions of the SAME compound argument, e.g. sin(g)*cos(g)
        e = gen_scalar(g, max(depth - 1, 1)) if g.chance(0.7) else gen_scalar(g, 0)
        arg = {"plain": e, "pos": _safe_pos(e), "sin": ["fn", "sin", e]}
        table = {"sin": "plain", "cos": "plain", "abs": "plain", "sqrt": "pos", "exp": "sin", "log": "pos", "tan": None}
        f1 = g.pick(["sin", "cos", "abs", "sqrt", "exp", "log"])
        f2 = g.pick([f for f in ("sin", "cos", "abs", "sqrt", "exp", "log") if table[f] == table[f1]])
        return [g.pick(["+", "-", "*"]), ["fn", f1, arg[table[f1]]], ["fn", f2, arg[table[f1]]]]
    if k == "fnpair":
        k = "*"
    if k in ("+", "-", "*"):
        return [k, gen_scalar(g, depth - 1), gen_scalar(g, depth - 1)]
    if k == "/":
        return ["/", gen_scalar(g, depth - 1), _safe_pos(gen_scalar(g, depth - 1))]
    if k == "pow":
        e = gen_scalar(g, depth - 1)
        kk = g.pick([2, 3, -1, 0, 1, -2])
        return ["pow", e if kk >= 0 else _safe_pos(e), kk]
    if k == "neg":
        return ["neg", gen_scalar(g, depth - 1)]
    if k == "fn":
        if not g.funcs_ok:
            return ["*", gen_scalar(g, depth - 1), gen_scalar(g, depth - 1)]
        f = g.pick(FUNCS)
        # compound arguments with probability 1/2 (CSE only extracts sub-expressions of complexity > 2)
        e = gen_scalar(g, depth - 1) if g.chance(0.5) else gen_scalar(g, 0)
        if f in ("sin", "cos", "abs"):
            return ["fn", f, e]
        if f == "sqrt":
            return ["fn", "sqrt", _safe_pos(e)]
        if f == "log":
            return ["fn", "log", ["+", ["const", 2.0], ["fn", "sin", e]]]
        if f == "exp":
            return ["fn", "exp", ["fn", "sin", e]]
        return ["fn", "tan", ["*", ["const", 0.5], ["fn", "sin", e]]]
    if k == "inner":
        n = g.pick([d, g.geo_dim])
        return [g.pick(["inner", "dot"]), gen_vector(g, n, depth - 1), gen_vector(g, n, depth - 1)]
    if k == "tr":
        return ["tr", gen_matrix(g, (d, d), depth - 1)]
    if k == "det":
        return ["det", gen_matrix(g, (d, d), depth - 1)]
    n = g.pick([d, g.geo_dim])
    return ["idx", gen_vector(g, n, depth - 1), g.draw(st.integers(0, n - 1))]


def gen_vector(g, n, depth):
    d = g.dim
    leafs = ["param", "input", "lit"] + (["var"] if depth >= 1 else [])
    if n == g.geo_dim:
        leafs.append("x")
        if g.kind in ("surface", "boundary"):
            leafs += ["n", "n"]
    if n == g.sdim:
        leafs.append("gradinput")
    if depth <= 0 or g.chance(0.35):
        k = g.pick(leafs)
        if k == "var":
            return g.get_var((n,), depth)
        if k == "param":
            return ["param", g.get_param((n,))["name"]]
        if k == "input":
            return ["input", g.get_input((n,))["name"]]
        if k == "lit":
            return ["vec"] + [gen_scalar(g, 0) for _ in range(n)]
        if k == "x":
            return ["x"]
        if k == "n":
            return ["n"]
        inp = g.get_input((), need_spline=True)
        return ["grad", ["input", inp["name"]], (not g.phys_ok) or g.chance(0.4)]
    ops = ["+", "-", "smul", "matvec", "lit"]
    if n == 3:
        ops.append("cross")
    k = g.pick(ops)
    if k in ("+", "-"):
        return [k, gen_vector(g, n, depth - 1), gen_vector(g, n, depth - 1)]
    if k == "smul":
        return ["*", gen_scalar(g, depth - 1), gen_vector(g, n, depth - 1)]
    if k == "matvec":
        m = g.pick([d, g.geo_dim])
        return ["dot", gen_matrix(g, (n, m), depth - 1), gen_vector(g, m, depth - 1)]
    if k == "cross":
        return ["cross", gen_vector(g, 3, depth - 1), gen_vector(g, 3, depth - 1)]
    return ["vec"] + [gen_scalar(g, depth - 1) for _ in range(n)]


def gen_matrix(g, shape, depth):
    d = g.dim
    m, n = shape
    leafs = ["param", "input", "lit"] + (["var"] if depth >= 1 else [])
    if shape == (g.geo_dim, d):
        leafs += ["jac", "jac"]
    if n == g.sdim:
        leafs.append("gradinput")
    if depth <= 0 or g.chance(0.4):
        k = g.pick(leafs)
        if k == "var":
            return g.get_var(shape, depth)
        if k == "param":
            return ["param", g.get_param(shape)["name"]]
        if k == "input":
            return ["input", g.get_input(shape, need_spline=True)["name"]]
        if k == "lit":
            return ["mat"] + [[gen_scalar(g, 0) for _ in range(n)] for _ in range(m)]
        if k == "jac":
            return ["jac"]
        inp = g.get_input((m,), need_spline=True)
        return ["grad", ["input", inp["name"]], (not g.phys_ok) or g.chance(0.4)]
    ops = ["+", "-", "smul", "outer", "matmat", "T"]
    if m == n and shape == (g.geo_dim, d):
        ops.append("invjac")
    if m == n:
        ops.append("invparam")
    k = g.pick(ops)
    if k in ("+", "-"):
        return [k, gen_matrix(g, shape, depth - 1), gen_matrix(g, shape, depth - 1)]
    if k == "smul":
        return ["*", gen_scalar(g, depth - 1), gen_matrix(g, shape, depth - 1)]
    if k == "outer":
        return ["outer", gen_vector(g, m, depth - 1), gen_vector(g, n, depth - 1)]
    if k == "matmat":
        kk = g.pick([d, g.geo_dim])
        return ["dot", gen_matrix(g, (m, kk), depth - 1), gen_matrix(g, (kk, n), depth - 1)]
    if k == "T":
        return ["T", gen_matrix(g, (n, m), depth - 1)]
    if k == "invjac":
        return ["inv", ["jac"]]
    return ["inv", ["param", g.get_param(shape)["name"]]]


def gen_bfun_op(g, name, nc):
    """Returns (AST, shape) of a linear operator applied to basis function `name`."""
    d = g.dim
    para = (not g.phys_ok) or g.chance(0.35)
    bf = [name]
    if not nc:
        k = g.pick(["id", "id", "dx", "grad", "grad", "hess", "lap"])
        if k == "id":
            return bf, ()
        if k == "dx":
            return ["dx", bf, g.draw(st.integers(0, d - 1)), para], ()
        if k == "grad":
            return ["grad", bf, para], (d,)
        if k == "hess":
            if g.chance(0.5):
                return ["hess", bf, para], (d, d)
            return ["idx", ["hess", bf, para], g.draw(st.integers(0, d - 1)), g.draw(st.integers(0, d - 1))], ()
        return ["tr", ["hess", bf, para]], ()
    ops = ["id", "comp", "grad", "dxv", "dcomp"]
    if nc == d:
        ops += ["div", "div"]
    if nc == 3 and d == 3 and g.phys_ok:
        ops.append("curl")
    k = g.pick(ops)
    if k == "id":
        return bf, (nc,)
    if k == "comp":
        return ["idx", bf, g.draw(st.integers(0, nc - 1))], ()
    if k == "grad":
        return ["grad", bf, para], (nc, d)
    if k == "dxv":
        return ["dx", bf, g.draw(st.integers(0, d - 1)), para], (nc,)
    if k == "dcomp":
        return ["dx", ["idx", bf, g.draw(st.integers(0, nc - 1))], g.draw(st.integers(0, d - 1)), para], ()
    if k == "div":
        return ["div", bf, para], ()
    return ["curl", bf], (3,)


def gen_st_bfun_op(g, name, nc):
    """Space-time forms (time = last coordinate): operators on basis function `name`, total derivative order <= 2,
    physical space derivatives of first order only (all that pyiga's space-time splitting implements)."""
    d = g.dim
    sd = g.sdim
    bf = [name]
    kx = g.draw(st.integers(0, sd - 1))
    if not nc:
        k = g.pick(["id", "dt", "dt", "dt2", "dx", "dxpara", "dtpara", "grad", "grad", "gradpara", "graddt", "dxdt", "hesspara"])
        if k == "id":
            return bf, ()
        if k == "dt":
            return ["dt", bf, 1], ()
        if k == "dt2":
            return ["dt", bf, 2], ()
        if k == "dx":
            return ["dx", bf, kx, False], ()
        if k == "dxpara":
            return ["dx", bf, kx, True], ()
        if k == "dtpara":
            return ["dx", bf, d - 1, True], ()
        if k == "grad":
            return ["grad", bf, False], (sd,)
        if k == "gradpara":
            return ["grad", bf, True], (sd,)
        if k == "graddt":
            return ["dt", ["grad", bf, False], 1], (sd,)
        if k == "dxdt":
            return ["dt", ["dx", bf, kx, False], 1], ()
        return ["hess", bf, True], (sd, sd)
    ops = ["id", "comp", "dt", "dt2", "grad", "dxv", "dcomp", "dcompdt"]
    if nc == sd:
        ops += ["div", "div"]
    k = g.pick(ops)
    c = g.draw(st.integers(0, nc - 1))
    if k == "id":
        return bf, (nc,)
    if k == "comp":
        return ["idx", bf, c], ()
    if k == "dt":
        return ["dt", bf, 1], (nc,)
    if k == "dt2":
        return ["idx", ["dt", bf, 2], c], ()
    if k == "grad":
        return ["grad", bf, g.chance(0.3)], (nc, sd)
    if k == "dxv":
        return ["dx", bf, kx, g.chance(0.3)], (nc,)
    if k == "dcomp":
        return ["dx", ["idx", bf, c], kx, g.chance(0.3)], ()
    if k == "dcompdt":
        return ["dt", ["dx", ["idx", bf, c], kx, False], 1], ()
    return ["div", bf, g.chance(0.3)], ()


def contract(g, a, sa, b, sb, depth):
    """Scalar AST bilinear in a and b with a generated coefficient."""
    if sa == () and sb == ():
        return ["*", ["*", gen_scalar(g, depth), a], b]
    if len(sa) == 1 and len(sb) == 1:
        if sa == sb:
            k = g.pick(["inner", "coefinner", "matinner"] + (["cross"] if sa == (3,) else []))
            if k == "inner":
                return [g.pick(["inner", "dot"]), a, b]
            if k == "coefinner":
                return ["*", gen_scalar(g, depth), ["inner", a, b]]
            if k == "matinner":
                return ["inner", ["dot", gen_matrix(g, (sa[0], sa[0]), depth - 1), a], b]
            return ["inner", ["cross", a, b], gen_vector(g, 3, depth - 1)]
        return ["inner", ["dot", gen_matrix(g, (sb[0], sa[0]), depth - 1), a], b]
    if len(sa) == 2 and len(sb) == 2:
        if sa == sb:
            return g.pick([["inner", a, b], ["tr", ["dot", ["T", a], b]]])
        if sa[1] == sb[1]:
            return ["tr", ["dot", a, ["T", b]]] if sa[0] == sb[0] else ["inner", ["dot", gen_matrix(g, (sb[0], sa[0]), depth - 1), a], b]
        return ["*", ["inner", a, gen_matrix(g, sa, depth - 1)], ["inner", b, gen_matrix(g, sb, depth - 1)]]
    if sa == ():
        return ["*", a, contract1(g, b, sb, depth)]
    if sb == ():
        return ["*", contract1(g, a, sa, depth), b]
    # vector a (n) with matrix b (m x k)
    if len(sa) == 1:
        n = sa[0]
        m, k = sb
        if k == n:
            return ["inner", ["dot", b, a], gen_vector(g, m, depth - 1)]
        if m == n:
            return ["inner", ["dot", ["T", b], a], gen_vector(g, k, depth - 1)]
        return ["*", contract1(g, a, sa, depth), contract1(g, b, sb, depth)]
    return contract(g, b, sb, a, sa, depth)


def contract1(g, b, sb, depth):
    """Scalar AST linear in b."""
    if sb == ():
        return ["*", gen_scalar(g, depth), b]
    if len(sb) == 1:
        return [g.pick(["inner", "dot"]), gen_vector(g, sb[0], depth), b]
    return ["inner", gen_matrix(g, sb, depth), b]


@st.composite
def form(draw, dims=(1, 2, 3), max_terms=2, depth=2, kinds=("volume", "volume", "volume", "surface", "boundary", "gw"),
         funcs_ok=True, allow_vec=True, allow_two_space=True, pmax=3):
    dim = draw(st.sampled_from(dims))
    kind = draw(st.sampled_from([k for k in kinds if not (k == "surface" and dim == 3) and not (k == "boundary" and dim == 1)]))
    measure = {"volume": "dxm", "surface": "dsm", "boundary": "dsm", "gw": "gw"}[kind]
    gkind = "volume" if kind == "gw" else kind
    geo_dim = dim + 1 if kind == "surface" else dim
    arity = draw(st.sampled_from([2, 2, 1]))
    pm = pmax if dim < 3 else min(pmax, 2)
    nmax = 3 if dim == 1 else 2
    # mesh shared by all spaces (pyiga assumes identical meshes); degrees and multiplicities differ
    two = allow_two_space and arity == 2 and draw(st.integers(0, 5)) == 0
    kvs0 = [draw(gk.knotvec(pmin=1 if dim > 1 else 0, pmax=pm, nmin=1, nmax=nmax, decades=1, interval="unit")) for _ in range(dim)]
    spaces_kvs = [kvs0]
    if two:
        kvs1 = []
        for k in kvs0:
            p1 = draw(st.integers(1, pm))
            kvs1.append({"p": p1, "breaks": k["breaks"], "mults": [min(m, p1) for m in k["mults"]]})
        spaces_kvs.append(kvs1)
    comps = None
    if allow_vec and draw(st.integers(0, 2)) == 0:
        # components per basis function; 1 = scalar function inside a vector assembler (e.g. Stokes (2,1))
        comps = [draw(st.sampled_from([1, 2, dim, 3])) for _ in range(arity)]
    inputs, params = [], []
    g = G(draw, dim, geo_dim, gkind, inputs, params, funcs_ok=funcs_ok)
    nterms = draw(st.integers(1, max_terms))
    terms = []
    for _ in range(nterms):
        nc = [(c if c and c > 1 else None) for c in (comps or [None] * arity)]
        if arity == 2:
            a, sa = gen_bfun_op(g, "u", nc[0])
            b, sb = gen_bfun_op(g, "v", nc[1])
            body = contract(g, a, sa, b, sb, depth)
        else:
            b, sb = gen_bfun_op(g, "v", nc[0])
            body = contract1(g, b, sb, depth)
        terms.append(["*", body, [measure]])
    geo = draw(gg.geometry_map(dim, pmax=2, nmax=2, orient_preserving=(kind in ("boundary", "surface")) or draw(st.booleans())))
    if kind == "surface":
        # dim -> dim+1 map: graph of a spline height function over a regular planar map (rank d guaranteed)
        geo["height"] = [draw(st.integers(-8, 8)) / 8.0 for _ in range(7)]
    spec = {"dim": dim, "arity": arity, "kind": kind, "comps": comps,
            "spaces": [0, 1] if two else None, "kvs": spaces_kvs, "geo": geo, "inputs": inputs, "params": params,
            "lets": g.lets, "terms": terms, "bd": None}
    if kind == "boundary":
        spec["bd"] = [draw(st.integers(0, dim - 1)), draw(st.integers(0, 1))]
    return spec


@st.composite
def st_form(draw, dims=(2, 3), max_terms=2, depth=2, allow_vec=True):
    """Space-time form (VForm(dim, spacetime=True)): time is the last coordinate (first tensor axis); the geometry is a
    space-time cylinder (space map) x (t -> t + shift), the setting the space-time splitting is documented for."""
    dim = draw(st.sampled_from(dims))
    arity = draw(st.sampled_from([2, 2, 1]))
    measure = draw(st.sampled_from(["dxm", "dxm", "dxm", "gw"]))
    pm = 3 if dim < 3 else 2
    kvs0 = [draw(gk.knotvec(pmin=2 if ax == 0 else 1, pmax=pm, nmin=1, nmax=2, decades=1, interval="unit")) for ax in range(dim)]
    comps = None
    if allow_vec and draw(st.integers(0, 2)) == 0:
        comps = [draw(st.sampled_from([1, 2, dim - 1, dim])) for _ in range(arity)]
    inputs, params = [], []
    g = G(draw, dim, dim, "volume", inputs, params, spacetime=True)
    terms = []
    for _ in range(draw(st.integers(1, max_terms))):
        nc = [(c if c and c > 1 else None) for c in (comps or [None] * arity)]
        if arity == 2:
            a, sa = gen_st_bfun_op(g, "u", nc[0])
            b, sb = gen_st_bfun_op(g, "v", nc[1])
            body = contract(g, a, sa, b, sb, depth)
        else:
            b, sb = gen_st_bfun_op(g, "v", nc[0])
            body = contract1(g, b, sb, depth)
        terms.append(["*", body, [measure]])
    geo = draw(gg.geometry_map(dim - 1, pmax=2, nmax=2, orient_preserving=draw(st.booleans())))
    geo["tshift"] = draw(st.sampled_from([0.0, 0.0, 1.0, -0.5]))
    return {"dim": dim, "arity": arity, "kind": "volume", "spacetime": True, "comps": comps, "spaces": None, "kvs": [kvs0], "geo": geo,
            "inputs": inputs, "params": params, "lets": g.lets, "terms": terms, "bd": None}


@st.composite
def nested_let_form(draw, levels=(2, 3)):
    """A form whose coefficient is a chain of user-defined variables w_{k} = op(w_{k-1}, ...): only the outermost variable
    is referenced from the integrand, the inner ones only from other variables' definitions."""
    dim = draw(st.sampled_from([1, 2, 2, 3]))
    arity = draw(st.sampled_from([1, 2]))
    kvs0 = [draw(gk.knotvec(pmin=1, pmax=2, nmin=1, nmax=2, decades=1, interval="unit")) for _ in range(dim)]
    inputs, params = [], []
    g = G(draw, dim, dim, "volume", inputs, params)
    n = draw(st.sampled_from(list(levels)))
    chain = []
    prev = None
    for k in range(n):
        body = gen_scalar(g, 1)
        if prev is not None:
            body = [draw(st.sampled_from(["*", "+", "-"])), ["var", prev], body] if draw(st.booleans()) else \
                ["*", ["const", draw(st.sampled_from([2.5, 0.5, -1.5]))], ["var", prev]]
        name = "z%d" % k
        chain.append({"name": name, "shape": [], "expr": body, "symmetric": False})
        prev = name
    # variables created while generating the bodies (named w<k>) are defined first; a body only refers to
    # variables that existed when it was generated, so this order is admissible
    lets = list(g.lets) + chain
    body = ["*", ["*", ["var", prev], ["u"]], ["v"]] if arity == 2 else ["*", ["var", prev], ["v"]]
    geo = draw(gg.geometry_map(dim, pmax=1, nmax=1))
    return {"dim": dim, "arity": arity, "kind": "volume", "comps": None, "spaces": None, "kvs": [kvs0], "geo": geo, "inputs": inputs,
            "params": params, "lets": lets, "terms": [["*", body, ["dxm"]]], "bd": None}


# ---------------------------------------------------------------------------------------------
# data (reference objects and pyiga objects for geometry / inputs / parameters)

def _callable_for(decl, geo_dim):
    """Smooth physical function of the given shape; returns (pyiga-style callable f(x,y,..), reference
    callable g(points (Q,geo_dim)) -> (Q,*shape))."""
    shape = tuple(decl["shape"])
    n = int(np.prod(shape)) if shape else 1
    s = decl["seed"]
    coef = np.array([[s[(c * 5 + k) % len(s)] for k in range(geo_dim + 2)] for c in range(n)])

    def comp(c, X):
        v = coef[c, 0] + 0.25 * np.sin(sum(coef[c, 1 + k] * X[k] for k in range(geo_dim)))
        v = v + 0.125 * coef[c, geo_dim + 1] * X[0] * X[-1]
        return v

    def pyf(*X):
        X = [np.asarray(t, dtype=float) for t in X]
        vals = [comp(c, X) for c in range(n)]
        if shape == ():
            return vals[0]
        b = np.broadcast_arrays(*vals)
        return np.stack(b, axis=-1).reshape(b[0].shape + shape)

    def reff(P):
        X = [P[:, k] for k in range(geo_dim)]
        vals = [comp(c, X) + 0 * X[0] for c in range(n)]
        if shape == ():
            return vals[0]
        return np.stack(vals, axis=-1).reshape((P.shape[0],) + shape)
    return pyf, reff


def build_data(spec):
    """Returns dict with pyiga objects (kvs, geo, args) and reference objects (Env, data)."""
    from pyiga import bspline, geometry
    dim = spec["dim"]
    kvs_py = [tuple(gk.pyiga_kv(k) for k in sp) for sp in spec["kvs"]]
    kvs_ref = [[gk.build_knots(k) for k in sp] for sp in spec["kvs"]]
    gs = spec["geo"]
    geo_py, geo_ref = gg.build_geometry(gs)
    if spec.get("spacetime"):
        # space-time cylinder: (space map of the last dim-1 tensor axes) x (identity + shift in time, first tensor axis)
        C = np.asarray(geo_py.coeffs, dtype=float)
        N = C.shape[:dim - 1]
        if gs["nurbs"]:
            W = C[..., -1]
            pts = C[..., :-1] / W[..., None]
        else:
            W = None
            pts = C
        t = float(gs.get("tshift", 0.0)) + np.array([0.0, 1.0])
        pts_c = np.zeros((2,) + N + (dim,))
        pts_c[..., :dim - 1] = pts[None]
        pts_c[..., dim - 1] = t.reshape((2,) + (1,) * (dim - 1))
        tkv = {"p": 1, "breaks": [0.0, 1.0], "mults": []}
        kn = [gk.build_knots(tkv)] + [gk.build_knots(k) for k in gs["kvs"]]
        kvpy = (gk.pyiga_kv(tkv),) + tuple(geo_py.kvs)
        if gs["nurbs"]:
            W_c = np.broadcast_to(W[None], (2,) + N).copy()
            geo_py = geometry.NurbsFunc(kvpy, pts_c.copy(), W_c.copy())
            geo_ref = rg.RefSpline(kn, np.concatenate([pts_c * W_c[..., None], W_c[..., None]], axis=-1), nurbs=True)
        else:
            geo_py = bspline.BSplineFunc(kvpy, pts_c.copy())
            geo_ref = rg.RefSpline(kn, pts_c)
    if gs.get("height") is not None:
        # append a height component (same knot vectors): graph surface / curve in dim+1 space
        C = np.asarray(geo_py.coeffs, dtype=float)
        N = C.shape[:dim]
        if gs["nurbs"]:
            W = C[..., -1]
            pts = C[..., :-1] / W[..., None]
        else:
            pts = C
        hgt = gg._cycle(gs["height"], int(np.prod(N))).reshape(N)
        pts = np.concatenate([pts, hgt[..., None]], axis=-1)
        kn = [gk.build_knots(k) for k in gs["kvs"]]
        if gs["nurbs"]:
            geo_py = geometry.NurbsFunc(geo_py.kvs, pts.copy(), W.copy())
            geo_ref = rg.RefSpline(kn, np.concatenate([pts * W[..., None], W[..., None]], axis=-1), nurbs=True)
        else:
            geo_py = bspline.BSplineFunc(geo_py.kvs, pts.copy())
            geo_ref = rg.RefSpline(kn, pts)
    geo_dim = dim + 1 if spec["kind"] == "surface" else dim
    args = {"geo": geo_py}
    data = {"inputs": {}, "params": {}}
    for decl in spec["inputs"]:
        shape = tuple(decl["shape"])
        if decl["kind"] == "spline":
            p = decl["p"]
            fs = {"nurbs": bool(decl.get("nurbs")), "vshape": list(shape),
                  "kvs": [{"p": p, "breaks": [0.0, 0.5, 1.0], "mults": [1]} for _ in range(dim)],
                  "cseed": (decl["seed"] * 3)[:23], "wseed": [1.0 + abs(x) / 8.0 for x in (decl["seed"] * 2)[:19]]}
            f_py, f_ref = gg.build_func(fs)
            args[decl["name"]] = f_py
            data["inputs"][decl["name"]] = f_ref
        else:
            pyf, reff = _callable_for(decl, geo_dim)
            args[decl["name"]] = pyf
            data["inputs"][decl["name"]] = reff
    for p in spec["params"]:
        val = np.array(p["value"], dtype=float).reshape(tuple(p["shape"]))
        args[p["name"]] = val if p["shape"] else float(val)
        data["params"][p["name"]] = val
    bd = tuple(spec["bd"]) if spec.get("bd") else None
    env = rf.Env(dim, kvs_ref, geo_ref, boundary=bd)
    return {"kvs": kvs_py, "geo": geo_py, "args": args, "env": env, "data": data}


# ---------------------------------------------------------------------------------------------
# AST -> pyiga VForm

def build_vform(spec, return_builder=False):
    """return_builder=True: also return the function that turns an AST node into an expression bound to the returned
    VForm object (for adding further terms to the same object later)."""
    from pyiga import vform as V
    dim = spec["dim"]
    kind = spec["kind"]
    geo_dim = dim + 1 if kind == "surface" else dim
    if spec.get("spacetime"):
        vf = V.VForm(dim, arity=spec["arity"], spacetime=True)
    else:
        vf = V.VForm(dim, geo_dim=geo_dim, boundary=(kind == "boundary"), arity=spec["arity"])
    comps = spec.get("comps")
    spaces = spec.get("spaces")
    kw = {}
    if comps:
        kw["components"] = tuple(comps) if spec["arity"] == 2 else (comps[0], None)
    if spaces:
        kw["spaces"] = tuple(spaces)
    bf = vf.basisfuns(**kw)
    sym = {}
    if spec["arity"] == 2:
        sym["u"], sym["v"] = bf
    else:
        sym["v"] = bf
    for decl in spec["inputs"]:
        sym["input:" + decl["name"]] = vf.input(decl["name"], shape=tuple(decl["shape"]), physical=(decl["kind"] == "callable"),
                                                updatable=bool(decl.get("updatable")))
    for p in spec["params"]:
        sym["param:" + p["name"]] = vf.parameter(p["name"], shape=tuple(p["shape"]))

    def b(node):
        op = node[0]
        if op == "const":
            return V.as_expr(node[1])
        if op == "vec":
            return V.as_vector([b(x) for x in node[1:]])
        if op == "mat":
            return V.as_matrix([[b(x) for x in row] for row in node[1:]])
        if op in ("u", "v"):
            return sym[op]
        if op == "param":
            return sym["param:" + node[1]]
        if op == "input":
            return sym["input:" + node[1]]
        if op == "var":
            return sym["var:" + node[1]]
        if op == "x":
            return vf.Geo
        if op == "jac":
            return vf.Jac
        if op == "n":
            return vf.normal
        if op == "gw":
            return vf.GaussWeight
        if op == "+":
            return b(node[1]) + b(node[2])
        if op == "-":
            return b(node[1]) - b(node[2])
        if op == "*":
            return b(node[1]) * b(node[2])
        if op == "/":
            return b(node[1]) / b(node[2])
        if op == "neg":
            return -b(node[1])
        if op == "pow":
            return b(node[1]) ** int(node[2])
        if op == "fn":
            return getattr(V, node[1])(b(node[2])) if node[1] != "abs" else abs(b(node[2]))
        if op == "dx":
            return V.Dx(b(node[1]), int(node[2]), parametric=bool(node[3]))
        if op == "grad":
            return V.grad(b(node[1]), parametric=bool(node[2]))
        if op == "dt":
            return V.Dt(b(node[1]), int(node[2]))
        if op == "hess":
            return V.hess(b(node[1]), parametric=bool(node[2]))
        if op == "div":
            return V.div(b(node[1]), parametric=bool(node[2]))
        if op == "curl":
            return V.curl(b(node[1]))
        if op == "idx":
            e = b(node[1])
            return e[node[2]] if len(node) == 3 else e[node[2], node[3]]
        if op == "row":
            return b(node[1])[node[2], :]
        if op == "col":
            return b(node[1])[:, node[2]]
        if op == "inner":
            return V.inner(b(node[1]), b(node[2]))
        if op == "dot":
            return V.dot(b(node[1]), b(node[2]))
        if op == "outer":
            return V.outer(b(node[1]), b(node[2]))
        if op == "cross":
            return V.cross(b(node[1]), b(node[2]))
        if op == "tr":
            return V.tr(b(node[1]))
        if op == "T":
            return b(node[1]).T
        if op == "det":
            return V.det(b(node[1]))
        if op == "inv":
            return V.inv(b(node[1]))
        if op == "norm":
            return V.norm(b(node[1]))
        if op == "dxm":
            return V.dx
        if op == "dsm":
            return V.ds
        raise ValueError("unknown node %r" % (op,))
    for v in spec.get("lets", []):
        sym["var:" + v["name"]] = vf.let(v["name"], b(v["expr"]), symmetric=bool(v.get("symmetric")))
    for t in spec["terms"]:
        vf.add(b(t))
    if return_builder:
        return vf, b
    return vf


def ast_size(node):
    if not isinstance(node, list):
        return 0
    return 1 + sum(ast_size(x) for x in node[1:] if isinstance(x, list)) + \
        sum(ast_size(y) for x in node[1:] if isinstance(x, list) and x and isinstance(x[0], list) for y in x)


def ast_ops(node, acc=None):
    acc = acc if acc is not None else set()
    if isinstance(node, list) and node and isinstance(node[0], str):
        acc.add(node[0] if node[0] != "fn" else "fn:" + node[1])
        if node[0] in ("dx", "grad", "hess", "div"):
            acc.add("parametric" if node[-1] else "physical")
        for x in node[1:]:
            if isinstance(x, list):
                ast_ops(x, acc)
                if x and isinstance(x[0], list):
                    for y in x:
                        ast_ops(y, acc)
    return acc

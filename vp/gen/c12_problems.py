"""Generators (spec level) and builders for C12: ODE problems  M y' = F(y),  user tableaux.

Specs contain only ints / floats / strings / lists.  `build_problem(spec, amax, tau)` turns a problem spec
into the dense reference `Problem` (vp.ref.c12_rk) -- construction, not rejection:

* M = mscale * (I + B^T B / 8)  (SPD by construction), or a positive diagonal, or None / identity;
* L "dissipative": -(B^T diag(10^e) B) + w (S - S^T), normalised to  tau*|L|_2 = 10^sigma * lam_min(M)
  (sigma in [-2, 4]: non-stiff ... stiff); its symmetric part is negative semidefinite, so every stage
  matrix M - tau a L (a >= 0) has symmetric part >= M;
  L "general": arbitrary integer matrix normalised to tau*amax*|L|_2 <= 0.4 lam_min(M) (stage matrices stay
  strongly monotone although L has no sign);  L "zero": y' = const;
* nonlinearity kappa*sin(D y + ph) with tau*amax*kappa*|D|_2 = rho * 0.6 lam_min(M), rho <= 0.25, so every
  stage equation is strongly monotone (unique solution, simplified Newton contracts);
* g is shifted so that tau*|F(x)|_2 equals the drawn target in [0.1, 10] exactly.
"""
import numpy as np
from hypothesis import strategies as st

from ..ref.c12_rk import Problem

MKINDS = ["none", "identity_dense", "dense", "csr", "csc", "diag_csr"]


def _imat(n, m, lo, hi):
    return st.lists(st.lists(st.integers(lo, hi), min_size=m, max_size=m), min_size=n, max_size=n)


@st.composite
def problem_spec(draw, nmax=6, lkinds=("dissipative", "general", "zero"), nonlinear=True, smin=-1.0, smax=1.0,
                 sigma_max=4.0, wild=False):
    n = draw(st.integers(1, nmax))
    spec = {"n": n}
    spec["mkind"] = draw(st.sampled_from(MKINDS))
    spec["mscale"] = draw(st.sampled_from([0.1, 0.5, 1.0, 1.0, 3.0, 10.0]))
    spec["MB"] = draw(_imat(n, n, -3, 3))
    spec["jfmt"] = draw(st.sampled_from(["dense", "dense", "csr"]))
    spec["lkind"] = draw(st.sampled_from(list(lkinds)))
    spec["LB"] = draw(_imat(n, n, -3, 3))
    spec["Le"] = [draw(st.integers(-12, 0)) / 4.0 for _ in range(n)]
    spec["LS"] = draw(_imat(n, n, -2, 2))
    spec["sigma"] = draw(st.integers(-8, int(4 * sigma_max))) / 4.0
    spec["g"] = draw(st.lists(st.integers(-8, 8), min_size=n, max_size=n))
    spec["x"] = [v / 2.0 for v in draw(st.lists(st.integers(-8, 8), min_size=n, max_size=n))]
    spec["s_target"] = float(10.0 ** (draw(st.integers(int(8 * smin), int(8 * smax))) / 8.0))
    if nonlinear and draw(st.integers(0, 9)) < 4:
        spec["rho"] = draw(st.sampled_from([0.02, 0.1, 0.2, 0.25]))
        spec["D"] = draw(_imat(n, n, -2, 2))
        spec["ph"] = [v / 4.0 for v in draw(st.lists(st.integers(-12, 12), min_size=n, max_size=n))]
    else:
        spec["rho"] = 0.0
    if wild:
        spec["wild"] = float(10.0 ** (draw(st.integers(2, 10)) / 4.0))
        spec["lkind"] = "dissipative"
        spec["sigma"] = min(spec["sigma"], 0.5)
        spec["D"] = draw(_imat(n, n, -2, 2))
        spec["ph"] = [v / 4.0 for v in draw(st.lists(st.integers(-12, 12), min_size=n, max_size=n))]
    return spec


def mass_dense(spec):
    n = spec["n"]
    kind = spec["mkind"]
    if kind in ("none", "identity_dense"):
        return np.eye(n)
    B = np.array(spec["MB"], dtype=float)
    if kind == "diag_csr":
        return spec["mscale"] * np.diag(1.0 + np.abs(np.diag(B)) / 4.0)
    return spec["mscale"] * (np.eye(n) + B.T @ B / 8.0)


def build_problem(spec, amax, tau, tau_mono=None):
    """amax: largest diagonal coefficient of the scheme (a_ii or gamma); tau: the nominal step size (stiffness
    ratio sigma and the target tau*|F(x)| refer to it); tau_mono >= tau: the largest step size for which the
    stage equations must stay strongly monotone (adaptive drivers enlarge the step)."""
    if tau_mono is None:
        tau_mono = tau
    n = spec["n"]
    M = mass_dense(spec)
    lam_min = float(np.linalg.eigvalsh(M)[0])
    amax = max(float(amax), 1e-3)
    kind = spec["lkind"]
    if kind == "zero":
        L = np.zeros((n, n))
    else:
        if kind == "dissipative":
            B = np.array(spec["LB"], dtype=float)
            d = 10.0 ** np.array(spec["Le"], dtype=float)
            S = np.array(spec["LS"], dtype=float)
            L0 = -(B.T @ (d[:, None] * B)) + 0.5 * (S - S.T)
            target = 10.0 ** spec["sigma"] * lam_min / tau
        else:
            L0 = np.array(spec["LB"], dtype=float) + 0.5 * np.array(spec["LS"], dtype=float)
            target = min(10.0 ** spec["sigma"] / tau, 0.4 / (amax * tau_mono)) * lam_min
        nrm = np.linalg.norm(L0, 2)
        L = L0 * (target / nrm) if nrm > 0 else np.zeros((n, n))
    kappa, D, ph = 0.0, None, None
    if spec.get("wild"):
        # strongly nonlinear problem (stage equations not monotone at tau; Newton may fail): only used to drive
        # the adaptive controllers through their "Newton failed, halve the step" branch
        D = np.array(spec["D"], dtype=float)
        if np.linalg.norm(D, 2) == 0:
            D = np.eye(n)
        ph = np.array(spec["ph"], dtype=float)
        kappa = spec["wild"] * lam_min / (tau * amax * np.linalg.norm(D, 2))
    elif spec.get("rho", 0.0) > 0:
        D = np.array(spec["D"], dtype=float)
        ph = np.array(spec["ph"], dtype=float)
        dn = np.linalg.norm(D, 2)
        if dn > 0:
            kappa = spec["rho"] * 0.6 * lam_min / (tau_mono * amax * dn)
    x = np.array(spec["x"], dtype=float)
    g0 = np.array(spec["g"], dtype=float)
    P = Problem(M, L, g0, kappa, D, ph)
    F0 = P.F(x)
    nf = np.linalg.norm(F0)
    if nf > 0:
        u = F0 / nf
    else:
        u = np.zeros(n)
        u[0] = 1.0
    g = g0 + (spec["s_target"] / tau) * u - F0
    return Problem(M, L, g, kappa, D, ph), x


def mass_for_pyiga(spec, M):
    import scipy.sparse as sp
    kind = spec["mkind"]
    if kind == "none":
        return None
    if kind in ("identity_dense", "dense"):
        return M.copy()
    if kind == "csc":
        return sp.csc_matrix(M)
    return sp.csr_matrix(M)


class Recorder:
    """F and J as handed to pyiga: call counters, fresh arrays, J dense or CSR."""

    def __init__(self, P, jfmt):
        self.P = P
        self.jfmt = jfmt
        self.nF = 0
        self.nJ = 0

    def F(self, y):
        self.nF += 1
        return self.P.F(np.asarray(y, dtype=float))

    def J(self, y):
        import scipy.sparse as sp
        self.nJ += 1
        Jd = self.P.J(np.asarray(y, dtype=float))
        if self.jfmt == "csr":
            return sp.csr_matrix(Jd)
        return Jd


# ---------------------------------------------------------------------------------------------
# user tableaux (entries are multiples of 1/16: sums are exact in floating point)

def _q(lo, hi):
    return st.integers(lo, hi).map(lambda k: k / 16.0)


@st.composite
def user_dirk(draw):
    s = draw(st.integers(1, 4))
    explicit_first = draw(st.booleans()) and s >= 2
    sdirk = draw(st.booleans())
    gam = draw(_q(2, 16))
    A = [[0.0] * s for _ in range(s)]
    for i in range(s):
        if i == 0 and explicit_first:
            continue
        for j in range(i):
            A[i][j] = draw(_q(-20, 20))
        A[i][i] = gam if sdirk else draw(_q(2, 16))
    sa = draw(st.booleans())
    consistent = draw(st.booleans())
    if sa:
        if consistent:
            # make the last abscissa equal to 1 by adjusting the first sub-diagonal entry (or the diagonal)
            if s >= 2:
                A[s - 1][0] = 1.0 - sum(A[s - 1][1:])
            else:
                A[0][0] = 1.0
        b = list(A[s - 1])
    else:
        b = [draw(_q(-16, 24)) for _ in range(s)]
        if consistent:
            b[0] = 1.0 - sum(b[1:])
    rows = A + [b]
    if draw(st.booleans()):
        bh = [draw(_q(-16, 24)) for _ in range(s)]
        if consistent:
            bh[0] = 1.0 - sum(bh[1:])
        rows.append(bh)
    if s == 1 and rows[0][0] == 0.0:
        rows[0][0] = 0.5
    return {"kind": "dirk", "T": rows, "consistent": bool(consistent)}


@st.composite
def user_row(draw):
    s = draw(st.integers(1, 4))
    gam = draw(_q(2, 16))
    A = [[0.0] * s for _ in range(s)]
    G = [[0.0] * s for _ in range(s)]
    for i in range(s):
        for j in range(i):
            A[i][j] = draw(_q(-20, 24))
            G[i][j] = draw(_q(-24, 16))
        G[i][i] = gam
    consistent = draw(st.booleans())
    b = [draw(_q(-16, 24)) for _ in range(s)]
    if consistent:
        b[0] = 1.0 - sum(b[1:])
    bh = None
    if draw(st.booleans()):
        bh = [draw(_q(-16, 24)) for _ in range(s)]
        if consistent:
            bh[0] = 1.0 - sum(bh[1:])
    return {"kind": "row", "A": A, "G": G, "b": b, "bh": bh, "consistent": bool(consistent)}

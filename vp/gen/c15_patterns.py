"""Spec generators for C15: per-level sparsity patterns, multi-level structures, index subsets.

A structure spec is
    {"levels": [{"m": 2, "n": 3, "kind": "direct", "entries": [[i, j], ...]}, ...], "join": "left"}
`kind` names the documented constructor used for that level:
    direct   MLStructure(((m,n),), (bidx,))  with a C-contiguous uint32 array, entries in the given order
    coo      MLStructure.from_matrix(scipy.sparse.coo_matrix) with the entries stored in the given order
    densemat MLStructure.from_matrix(ndarray)      csr / csc: from_matrix of that sparse format
    banded   MLStructure.multi_banded((m,), (bw,)) (entries = |i-j| <= bw, row-major)
    dense    MLStructure.dense((m, n))
`join`: "left" ((S1.join(S2)).join(S3)...), "right" (S1.join(S2.join(S3...))), "kron" (from_kronecker of the
level matrices; all levels are then matrix kinds).
"""
from hypothesis import strategies as st

CAP = 1 << 17          # bound on (number of rows) * (number of columns) of the denoted dense matrix
MATRIX_KINDS = ["densemat", "csr", "csc", "coo"]


def mask_entries(m, n, mask):
    """Row-major list of the positions whose bit is set in `mask` (bit k <-> position divmod(k, n))."""
    return [[k // n, k % n] for k in range(m * n) if (mask >> k) & 1]


def banded_entries(n, bw):
    return [[i, j] for i in range(n) for j in range(max(0, i - bw), min(n, i + bw + 1))]


def dense_entries(m, n):
    return [[i, j] for i in range(m) for j in range(n)]


def _cap_sizes(sizes, cap):
    sizes = [list(s) for s in sizes]

    def tot():
        t = 1
        for (m, n) in sizes:
            t *= m * n
        return t
    while tot() > cap:
        # decrement the largest dimension (first occurrence): deterministic construction, no rejection
        best = (0, 0, 0)
        for k, (m, n) in enumerate(sizes):
            if m > best[0]:
                best = (m, k, 0)
            if n > best[0]:
                best = (n, k, 1)
        sizes[best[1]][best[2]] -= 1
    return sizes


@st.composite
def level(draw, m, n, kinds, allow_empty=True):
    pool = [k for k in kinds if not (k == "banded" and m != n)]
    kind = draw(st.sampled_from(pool))
    if kind == "banded":
        bw = draw(st.integers(0, m))
        return {"m": m, "n": n, "kind": kind, "bw": bw, "entries": banded_entries(m, bw)}
    if kind == "dense":
        return {"m": m, "n": n, "kind": kind, "entries": dense_entries(m, n)}
    style = draw(st.sampled_from(["mask", "mask", "mask", "mask", "single", "full", "nofirstcol", "empty"]))
    if style == "empty" and not allow_empty:
        style = "mask"
    if style == "mask":
        E = mask_entries(m, n, draw(st.integers(1, 2 ** (m * n) - 1)))
    elif style == "single":
        k = draw(st.integers(0, m * n - 1))
        E = [[k // n, k % n]]
    elif style == "full":
        E = dense_entries(m, n)
    elif style == "nofirstcol" and n > 1:
        E = [[i, j + 1] for (i, j) in mask_entries(m, n - 1, draw(st.integers(1, 2 ** (m * (n - 1)) - 1)))]
    elif style == "empty":
        E = []
    else:
        E = mask_entries(m, n, draw(st.integers(1, 2 ** (m * n) - 1)))
    if kind in ("direct", "coo") and len(E) > 1:
        order = draw(st.sampled_from(["row", "row", "col", "rev", "perm"]))
        if order == "col":
            E = sorted(E, key=lambda e: (e[1], e[0]))
        elif order == "rev":
            E = E[::-1]
        elif order == "perm":
            E = list(draw(st.permutations(E)))
    return {"m": m, "n": n, "kind": kind, "entries": [list(e) for e in E]}


@st.composite
def structure(draw, lmin=1, lmax=6, smax=4, cap=CAP, allow_empty=True, lweights=None):
    Ls = lweights or [1, 2, 2, 3, 3, 4, 4, 4, 5, 5, 6]
    L = draw(st.sampled_from([l for l in Ls if lmin <= l <= lmax]))
    squareish = draw(st.integers(0, 3)) == 0
    sizes = []
    for _ in range(L):
        m = draw(st.integers(1, smax))
        n = m if squareish else draw(st.integers(1, smax))
        sizes.append([m, n])
    sizes = _cap_sizes(sizes, cap)
    join = draw(st.sampled_from(["left", "left", "right", "kron"]))
    kinds = MATRIX_KINDS if join == "kron" else ["direct", "direct", "direct", "coo", "densemat", "csr", "csc",
                                                  "banded", "dense"]
    empty_ok = allow_empty and draw(st.integers(0, 9)) == 0
    levels = [draw(level(m, n, kinds, allow_empty=empty_ok)) for (m, n) in sizes]
    return {"levels": levels, "join": join}


def shape_of_spec(sspec):
    M = N = 1
    for lv in sspec["levels"]:
        M *= lv["m"]
        N *= lv["n"]
    return M, N


@st.composite
def subset(draw, size, max_len=12):
    """Duplicate-free index subset of range(size) in arbitrary order (possibly empty / everything)."""
    kind = draw(st.sampled_from(["some", "some", "some", "empty", "all", "one"]))
    if kind == "empty" or size == 0:
        return []
    if kind == "all" and size <= 48:
        idx = list(range(size))
        if draw(st.booleans()):
            idx = list(draw(st.permutations(idx)))
        return idx
    if kind == "one":
        return [draw(st.integers(0, size - 1))]
    return draw(st.lists(st.integers(0, size - 1), unique=True, min_size=1, max_size=min(size, max_len)))

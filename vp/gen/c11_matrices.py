"""Spec-first generators for the linear systems of C11 (square matrices with non-zero diagonal).

All entries are small dyadic rationals times a common power of two, so that  b = A x*  is computed without
rounding and the exact solution x* is known exactly (by construction, not by a solve)."""
import numpy as np
from hypothesis import strategies as st

KINDS = ("spd_gram", "spd_dd", "dd", "nonsym")
FORMATS = ("dense", "csr", "csr_unsorted", "csc", "coo")


@st.composite
def matrix(draw, nmin=1, nmax=12):
    n = draw(st.integers(nmin, nmax))
    kind = draw(st.sampled_from(KINDS))
    dens = draw(st.sampled_from([0.15, 0.4, 0.8, 1.0]))

    def entry(lim):
        if draw(st.floats(0, 1)) > dens:
            return 0
        return draw(st.integers(-lim, lim))

    # integer numerators; common denominator 16
    if kind == "spd_gram":
        B = [[entry(8) for _ in range(n)] for _ in range(n)]           # B/4
        delta = draw(st.sampled_from([1, 16, 64]))                     # delta/16
        A = [[sum(B[k][i] * B[k][j] for k in range(n)) + (delta if i == j else 0) for j in range(n)]
             for i in range(n)]
    elif kind == "spd_dd":
        A = [[0] * n for _ in range(n)]
        for i in range(n):
            for j in range(i):
                A[i][j] = A[j][i] = entry(32)
        for i in range(n):
            A[i][i] = sum(abs(A[i][j]) for j in range(n) if j != i) + draw(st.integers(1, 32))
    elif kind == "dd":
        A = [[entry(32) if i != j else 0 for j in range(n)] for i in range(n)]
        for i in range(n):
            s = sum(abs(v) for v in A[i]) + draw(st.integers(1, 32))
            A[i][i] = s if draw(st.booleans()) else -s
    else:
        A = [[entry(48) if i != j else 0 for j in range(n)] for i in range(n)]
        for i in range(n):
            d = draw(st.integers(1, 64))
            A[i][i] = d if draw(st.booleans()) else -d
    shift = draw(st.sampled_from([0, 0, 0, -20, -7, 3, 11, 30]))
    scale = 2.0 ** (shift - 4)
    Af = [[float(v) * scale for v in row] for row in A]
    return {"n": n, "kind": kind, "A": Af}


@st.composite
def storage(draw, mat):
    """How the matrix is handed to pyiga: format, explicit zeros, order of the stored entries."""
    n = mat["n"]
    fmt = draw(st.sampled_from(FORMATS))
    A = mat["A"]
    zeros = [(i, j) for i in range(n) for j in range(n) if i != j and A[i][j] == 0.0]
    ez = []
    if fmt != "dense" and zeros and draw(st.booleans()):
        k = draw(st.integers(1, min(6, len(zeros))))
        ez = sorted(set(draw(st.integers(0, len(zeros) - 1)) for _ in range(k)))
        ez = [list(zeros[i]) for i in ez]
    return {"fmt": fmt, "explicit_zeros": ez, "order_seed": draw(st.integers(0, 2 ** 16))}


def stored_entries(mat, sto):
    """List of (i, j, value) actually stored by the sparse formats (no duplicates)."""
    A = mat["A"]
    n = mat["n"]
    ez = set(tuple(e) for e in sto["explicit_zeros"])
    return [(i, j, A[i][j]) for i in range(n) for j in range(n) if A[i][j] != 0.0 or (i, j) in ez]


def build_matrix(mat, sto):
    """Returns the object passed to pyiga (dense ndarray or scipy sparse matrix)."""
    import scipy.sparse
    n = mat["n"]
    A = np.array(mat["A"], dtype=float).reshape(n, n)
    fmt = sto["fmt"]
    if fmt == "dense":
        return A.copy()
    ent = stored_entries(mat, sto)
    rng = np.random.RandomState(sto["order_seed"])
    if fmt in ("csr", "csr_unsorted"):
        indptr = [0]
        indices, data = [], []
        for i in range(n):
            row = [(j, v) for (ii, j, v) in ent if ii == i]
            if fmt == "csr_unsorted" and len(row) > 1:
                perm = rng.permutation(len(row))
                row = [row[k] for k in perm]
            indices += [j for j, _ in row]
            data += [v for _, v in row]
            indptr.append(len(indices))
        M = scipy.sparse.csr_matrix((np.array(data, dtype=float), np.array(indices, dtype=np.int32),
                                     np.array(indptr, dtype=np.int32)), shape=(n, n))
        return M
    if fmt == "csc":
        indptr = [0]
        indices, data = [], []
        for j in range(n):
            col = [(i, v) for (i, jj, v) in ent if jj == j]
            indices += [i for i, _ in col]
            data += [v for _, v in col]
            indptr.append(len(indices))
        return scipy.sparse.csc_matrix((np.array(data, dtype=float), np.array(indices, dtype=np.int32),
                                        np.array(indptr, dtype=np.int32)), shape=(n, n))
    if fmt == "coo":
        perm = rng.permutation(len(ent)) if len(ent) > 1 else range(len(ent))
        ent = [ent[k] for k in perm]
        return scipy.sparse.coo_matrix((np.array([v for _, _, v in ent], dtype=float),
                                        (np.array([i for i, _, _ in ent], dtype=np.int32),
                                         np.array([j for _, j, _ in ent], dtype=np.int32))), shape=(n, n))
    raise ValueError(fmt)


@st.composite
def index_list(draw, n):
    """None (all rows) or a subset of range(n) in arbitrary order (possibly empty), with its container."""
    mode = draw(st.sampled_from(["none", "none", "subset", "subset", "subset", "all_permuted", "empty"]))
    if mode == "none":
        return None
    if mode == "empty":
        idx = []
    elif mode == "all_permuted":
        idx = list(draw(st.permutations(list(range(n)))))
    else:
        k = draw(st.integers(1, n))
        idx = list(draw(st.permutations(list(range(n)))))[:k]
        if draw(st.booleans()):
            idx = sorted(idx)
    return {"idx": idx, "container": draw(st.sampled_from(["list", "tuple", "int64", "int32", "intp"]))}


def build_indices(ispec):
    if ispec is None:
        return None
    idx = [int(i) for i in ispec["idx"]]
    c = ispec["container"]
    if c == "list":
        return list(idx)
    if c == "tuple":
        return tuple(idx)
    return np.array(idx, dtype={"int64": np.int64, "int32": np.int32, "intp": np.intp}[c])


@st.composite
def vector(draw, n, lim=16, den=4.0):
    return [draw(st.integers(-lim, lim)) / den for _ in range(n)]

"""Generators/builders for spline and NURBS functions and geometry maps (spec-first)."""
import numpy as np
from hypothesis import strategies as st

from . import knots as gk
from ..ref import geo as rg
from ..ref import bspl as rb


def _cycle(vals, total):
    vals = list(vals)
    reps = total // len(vals) + 1
    return np.array((vals * reps)[:total], dtype=float)


@st.composite
def splinefunc(draw, sdim=None, pmin=0, pmax=4, nmax=3, vshapes=((), (), (2,), (3,), (2, 2)), nurbs=None,
               decades=2, interval="mixed"):
    d = sdim if sdim is not None else draw(st.integers(1, 3))
    if d == 3:
        pmax = min(pmax, 3)
        nmax = min(nmax, 2)
    kvs = [draw(gk.knotvec(pmin=pmin, pmax=pmax, nmax=nmax, decades=decades, interval=interval)) for _ in range(d)]
    is_nurbs = draw(st.booleans()) if nurbs is None else nurbs
    vs = list(draw(st.sampled_from([v for v in vshapes if not (is_nurbs and len(v) > 1)])))
    cseed = [draw(st.integers(-16, 16)) / 4.0 for _ in range(23)]
    spec = {"nurbs": is_nurbs, "kvs": kvs, "vshape": vs, "cseed": cseed}
    if is_nurbs:
        if draw(st.integers(0, 4)) == 0:
            # polynomial NURBS: all weights exactly 1 (what BSplineFunc.as_nurbs() produces)
            spec["wseed"] = [1.0] * 19
        else:
            spec["wseed"] = [draw(st.integers(3, 24)) / 8.0 for _ in range(19)]
    return spec


def func_shape(spec):
    return tuple(len(gk.build_knots(k)[0]) - k["p"] - 1 for k in spec["kvs"])


def build_arrays(spec):
    N = func_shape(spec)
    vs = tuple(spec["vshape"])
    C = _cycle(spec["cseed"], int(np.prod(N + vs))).reshape(N + vs)
    if spec.get("unit"):      # control points in [0,1]: the image lies in the unit cube (convex hull property)
        C = (C + 4.0) / 8.0
    W = None
    if spec["nurbs"]:
        W = _cycle(spec["wseed"], int(np.prod(N))).reshape(N)
    return C, W


def build_func(spec):
    """Returns (pyiga function object, RefSpline built from the spec alone)."""
    from pyiga import bspline, geometry
    kvs = tuple(gk.pyiga_kv(k) for k in spec["kvs"])
    kns = [gk.build_knots(k) for k in spec["kvs"]]
    C, W = build_arrays(spec)
    if spec["nurbs"]:
        f = geometry.NurbsFunc(kvs, C.copy(), W.copy())
        if C.ndim == len(kvs):   # scalar
            co = np.stack([C * W, W], axis=-1)
            ref = rg.RefSpline(kns, co, nurbs=True, scalar_nurbs=True)
        else:
            co = np.concatenate([C * W[..., None], W[..., None]], axis=-1)
            ref = rg.RefSpline(kns, co, nurbs=True)
    else:
        f = bspline.BSplineFunc(kvs, C.copy())
        ref = rg.RefSpline(kns, C)
    return f, ref


@st.composite
def grid_for(draw, spec, nmin=1, nmax=3):
    return [sorted(set(x for _, x in draw(gk.points_in(k, nmin, nmax)))) for k in spec["kvs"]]


@st.composite
def points_for(draw, spec, nmin=1, nmax=4):
    """Scattered points (m, d) in xyz order."""
    d = len(spec["kvs"])
    m = draw(st.integers(nmin, nmax))
    cols = []
    for j in range(d):
        k = spec["kvs"][d - 1 - j]
        pts = draw(gk.points_in(k, m, m))
        cols.append([x for _, x in pts])
    return [[cols[j][i] for j in range(d)] for i in range(m)]


def deriv_continuous_mask_points(spec, pts_xyz, order):
    """True where all derivatives up to `order` of the spline are continuous at the point."""
    d = len(spec["kvs"])
    out = []
    for pt in pts_xyz:
        ok = True
        for j in range(d):
            k = spec["kvs"][d - 1 - j]
            ok = ok and _cont(k, pt[j], order)
        out.append(ok)
    return np.array(out, dtype=bool)


def deriv_continuous_mask_grid(spec, grid, order):
    d = len(spec["kvs"])
    masks = [np.array([_cont(spec["kvs"][ax], x, order) for x in grid[ax]], dtype=bool) for ax in range(d)]
    M = masks[0]
    for ax in range(1, d):
        M = np.multiply.outer(M, masks[ax])
    return M.astype(bool)


def _cont(kvs, x, order):
    if order == 0:
        return True
    br = kvs["breaks"]
    p = kvs["p"]
    if p < order:
        # derivative of order > p-... piecewise constant/zero: only discontinuous at knots
        pass
    for i, t in enumerate(br[1:-1]):
        if x == t:
            return kvs["mults"][i] <= p - order
    return True


# ---------------------------------------------------------------------------------------------
# geometry maps with guaranteed Jacobian bounds:  G = A . (identity + bounded perturbation) + b

@st.composite
def geometry_map(draw, dim, pmax=3, nmax=2, nurbs=None, orient_preserving=True):
    """Spec of a dim -> dim spline/NURBS map over arbitrary open knot vectors on [0,1]^dim with
    det J >= 0.2*|det A| guaranteed by construction: control points = Greville abscissae (identity map)
    + perturbation of magnitude <= delta with delta chosen from the spline's derivative bound."""
    kvs = [draw(gk.knotvec(pmin=1, pmax=pmax, nmax=nmax, decades=1, interval="unit", mult_prob=0.2)) for _ in range(dim)]
    is_nurbs = draw(st.booleans()) if nurbs is None else nurbs
    pert = [draw(st.integers(-8, 8)) / 8.0 for _ in range(29)]
    amp = draw(st.sampled_from([0.0, 0.25, 0.5, 1.0]))
    # affine part: diag scaling + shear + optional rotation, det != 0
    A = [[0.0] * dim for _ in range(dim)]
    for i in range(dim):
        A[i][i] = draw(st.sampled_from([0.5, 1.0, 1.0, 2.0, 3.0]))
        for j in range(dim):
            if j > i:
                A[i][j] = draw(st.sampled_from([0.0, 0.0, 0.25, -0.5]))
    # general (not only triangular) matrices: multiply by a unit lower triangular factor; det(A) stays prod(diag) > 0
    Lf = [[1.0 if i == j else 0.0 for j in range(dim)] for i in range(dim)]
    for i in range(dim):
        for j in range(i):
            Lf[i][j] = draw(st.sampled_from([0.0, 0.0, 0.5, -0.25, 1.0]))
    A = [[sum(Lf[i][k] * A[k][j] for k in range(dim)) for j in range(dim)] for i in range(dim)]
    if not orient_preserving and draw(st.booleans()):
        A[0] = [-v for v in A[0]]
    b = [draw(st.integers(-4, 4)) / 2.0 for _ in range(dim)]
    spec = {"dim": dim, "kvs": kvs, "nurbs": is_nurbs, "pert": pert, "amp": amp, "A": A, "b": b}
    if is_nurbs:
        spec["wseed"] = [draw(st.integers(6, 12)) / 8.0 for _ in range(19)]
    return spec


def build_geometry(spec):
    """Returns (pyiga geometry, RefSpline).  Perturbation bound: for a spline with control-point
    perturbations |e| <= delta, |d/dxi_k| <= 2*p_k*delta/h_k where h_k is the smallest knot distance
    t_{i+p}-t_i > 0; delta is chosen such that the Jacobian of the perturbation has norm <= 0.25/dim."""
    from pyiga import bspline, geometry
    dim = spec["dim"]
    kns = [gk.build_knots(k) for k in spec["kvs"]]
    kvs = tuple(gk.pyiga_kv(k) for k in spec["kvs"])
    N = tuple(len(t) - p - 1 for t, p in kns)
    grev = [rb.greville(t, p) for t, p in kns]
    # identity control points: component j (xyz) uses Greville of tensor axis dim-1-j
    X = np.zeros(N + (dim,))
    for j in range(dim):
        ax = dim - 1 - j
        shp = [1] * dim
        shp[ax] = N[ax]
        X[..., j] = grev[ax].reshape(shp)
    lip = 0.0
    for (t, p) in kns:
        diffs = t[p:] - t[:-p]
        h = np.min(diffs[diffs > 0])
        lip = max(lip, 2.0 * p / h)
    delta = spec["amp"] * 0.25 / (dim * dim * lip)
    if spec["nurbs"]:
        delta *= 0.25
    E = _cycle(spec["pert"], int(np.prod(N + (dim,)))).reshape(N + (dim,)) * delta
    Y = X + E
    A = np.array(spec["A"], dtype=float)
    b = np.array(spec["b"], dtype=float)
    C = Y @ A.T + b
    if spec["nurbs"]:
        W = _cycle(spec["wseed"], int(np.prod(N))).reshape(N)
        # keep weights close to 1 so that the quotient does not destroy the Jacobian bound
        W = 1.0 + (W - 1.0) * 0.1 * spec["amp"]
        g = geometry.NurbsFunc(kvs, C.copy(), W.copy())
        co = np.concatenate([C * W[..., None], W[..., None]], axis=-1)
        ref = rg.RefSpline(kns, co, nurbs=True)
    else:
        g = bspline.BSplineFunc(kvs, C.copy())
        ref = rg.RefSpline(kns, C)
    return g, ref

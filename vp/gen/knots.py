"""Generators for knot vectors and evaluation points.  Specs are JSON-able dicts with concrete
floats (Python's float repr round-trips exactly, so the spec is a bit-exact replay)."""
import math
import numpy as np
from hypothesis import strategies as st

TINY = 1e-300


def _mk_breaks(a, b, lengths):
    tot = math.fsum(lengths)
    acc = 0.0
    out = [a]
    for L in lengths[:-1]:
        acc += L
        x = a + (b - a) * (acc / tot)
        if x > out[-1] and x < b:
            out.append(x)
    out.append(b)
    return out


@st.composite
def intervals(draw, kind="mixed"):
    if kind == "unit":
        return (0.0, 1.0)
    mode = draw(st.sampled_from(["unit", "unit", "grid", "grid", "float"])) if kind == "mixed" else kind
    if mode == "unit":
        return (0.0, 1.0)
    if mode == "grid":
        den = draw(st.sampled_from([1, 2, 3, 4, 5, 7, 8, 10, 100]))
        ia = draw(st.integers(-20, 20))
        w = draw(st.integers(1, 40))
        return (ia / den, (ia + w) / den)
    # arbitrary floats 1e-6 .. 1e6 in magnitude
    ea = draw(st.floats(-6, 6))
    a = draw(st.sampled_from([-1.0, 1.0, 0.0])) * 10.0 ** ea
    ew = draw(st.floats(-6, 6))
    w = 10.0 ** ew
    # width must be resolvable relative to |a| (at least 1e-9 relative) to keep spans distinct
    w = max(w, abs(a) * 1e-9)
    b = a + w
    if not (b > a):
        b = a + max(abs(a), 1.0)
    return (a, b)


@st.composite
def knotvec(draw, pmin=0, pmax=4, nmin=1, nmax=6, maxmult=None, decades=6, interval="mixed",
            p=None, mult_prob=0.35):
    if p is None:
        p = draw(st.integers(pmin, pmax))
    n = draw(st.integers(nmin, nmax))
    mode = draw(st.sampled_from(["equal", "uniform", "log"] + (["graded"] if decades >= 10 else [])))
    if mode == "graded" and n > 1:
        # geometric grading towards one end (boundary-layer / singularity meshes): ratio 10^-g per span
        g = draw(st.integers(1, 3))
        lengths = [10.0 ** (-g * k) for k in range(n)]
        if draw(st.booleans()):
            lengths = lengths[::-1]
    elif mode == "equal" or n == 1:
        lengths = [1.0] * n
    elif mode == "uniform":
        lengths = [draw(st.integers(1, 16)) / 16.0 for _ in range(n)]
    else:
        d = draw(st.integers(1, max(1, decades)))
        lengths = [10.0 ** (-draw(st.integers(0, 8 * d)) / 8.0) for _ in range(n)]
    a, b = draw(intervals(interval))
    breaks = _mk_breaks(a, b, lengths)
    nint = len(breaks) - 2
    mm = p if maxmult is None else min(maxmult, p)
    mults = []
    for _ in range(nint):
        if mm >= 2 and draw(st.floats(0, 1)) < mult_prob:
            mults.append(draw(st.integers(2, mm)))
        else:
            mults.append(1 if mm >= 1 else 1)
    if p == 0:
        mults = [1] * nint
    return {"p": p, "breaks": breaks, "mults": mults}


def build_knots(kvspec):
    p = kvspec["p"]
    br = kvspec["breaks"]
    mu = kvspec["mults"]
    kn = [br[0]] * (p + 1)
    for x, m in zip(br[1:-1], mu):
        kn += [x] * m
    kn += [br[-1]] * (p + 1)
    return np.array(kn, dtype=float), p


def pyiga_kv(kvspec):
    from pyiga import bspline
    kn, p = build_knots(kvspec)
    return bspline.KnotVector(kn, p)


def has_multiple_knots(kvspec):
    return any(m > 1 for m in kvspec["mults"])


def _nextafter_safe(x, direction):
    y = float(np.nextafter(x, direction))
    if y != 0.0 and abs(y) < TINY:
        return x          # never generate denormals (FTZ/DAZ is set by -ffast-math modules)
    return y


@st.composite
def points_in(draw, kvspec, min_size=1, max_size=8):
    """List of [kind, value] evaluation points in the closed domain of the knot vector."""
    br = kvspec["breaks"]
    a, b = br[0], br[-1]
    n = draw(st.integers(min_size, max_size))
    pts = []
    for _ in range(n):
        kind = draw(st.sampled_from(["interior", "interior", "knot", "left", "right", "next", "prev",
                                     "mid"]))
        if kind == "interior":
            s = draw(st.integers(0, len(br) - 2))
            f = draw(st.integers(1, 1023)) / 1024.0
            x = br[s] + f * (br[s + 1] - br[s])
            x = min(max(x, br[s]), br[s + 1])
        elif kind == "knot":
            x = br[draw(st.integers(0, len(br) - 1))]
        elif kind == "left":
            x = a
        elif kind == "right":
            x = b
        elif kind == "next":
            k = draw(st.integers(0, len(br) - 2))
            x = _nextafter_safe(br[k], math.inf)
        elif kind == "prev":
            k = draw(st.integers(1, len(br) - 1))
            x = _nextafter_safe(br[k], -math.inf)
        else:
            s = draw(st.integers(0, len(br) - 2))
            x = 0.5 * (br[s] + br[s + 1])
        x = min(max(x, a), b)
        if x != 0.0 and abs(x) < TINY:
            x = 0.0
        pts.append([kind, x])
    return pts


def point_classes(kvspec, x):
    """Reference-computed classes of a point, for the non-triviality rule."""
    br = kvspec["breaks"]
    cls = set()
    if x == br[0]:
        cls.add("left_end")
    if x == br[-1]:
        cls.add("right_end")
    for k, t in enumerate(br):
        if x == t and 0 < k < len(br) - 1:
            cls.add("on_knot")
            if kvspec["mults"][k - 1] > 1:
                cls.add("on_multiple_knot")
        elif x != t and (x == np.nextafter(t, math.inf) or x == np.nextafter(t, -math.inf)):
            cls.add("adjacent_float_of_knot")
    return cls

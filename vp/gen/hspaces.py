"""Generators for hierarchical-space refinement histories (spec-first) and the replayer that applies
a history to pyiga's HSpace and to the reference model in lock step."""
import numpy as np
from hypothesis import strategies as st

from . import knots as gk
from ..ref import hier as rh
from ..core import Violation, Skip


@st.composite
def history(draw, dims=(1, 2), pmin=1, pmax=3, n0max=3, max_steps=3, max_levels=4, disparities=(None, 1, 2),
            truncate=None, bdspecs_mode="any", mult_prob=0.15, containers=("set", "list", "tuple", "frozenset", "live"),
            n0min=1, max_cells=4, region_steps=True):
    dim = draw(st.sampled_from(dims))
    if dim == 3:
        pmax = min(pmax, 2)
        n0max = min(n0max, 2)
    kvs = [draw(gk.knotvec(pmin=pmin, pmax=pmax, nmin=n0min, nmax=n0max if dim > 1 else n0max + 2, decades=1,
                           interval="unit", mult_prob=mult_prob)) for _ in range(dim)]
    nsteps = draw(st.integers(1, max_steps))
    steps = []
    for _ in range(nsteps):
        kind = draw(st.sampled_from(["refine", "refine", "refine", "region"] if region_steps else ["refine"]))
        if kind == "refine":
            nlv = draw(st.integers(1, 2))
            marks = []
            for _ in range(nlv):
                lvsel = draw(st.integers(0, 7))
                if draw(st.integers(0, 5)) == 0:
                    cells = "all"       # every active cell of the level
                else:
                    cells = [draw(st.integers(0, 63)) for _ in range(draw(st.integers(1, max_cells)))]
                marks.append([lvsel, cells])
            steps.append({"kind": "refine", "marks": marks, "container": draw(st.sampled_from(containers))})
        else:
            # refine_region predicate: axis-aligned box in relative coordinates
            box = []
            for _ in range(dim):
                a = draw(st.integers(0, 3)) / 4.0
                b = a + draw(st.integers(1, 4 - int(a * 4))) / 4.0
                box.append([a, b])
            steps.append({"kind": "region", "lvsel": draw(st.integers(0, 7)), "box": box})
    spec = {"dim": dim, "kvs": kvs, "steps": steps, "max_levels": max_levels,
            "disparity": draw(st.sampled_from(disparities)),
            "truncate": draw(st.booleans()) if truncate is None else truncate}
    if bdspecs_mode == "any":
        mode = draw(st.sampled_from(["none", "empty", "faces"]))
    else:
        mode = bdspecs_mode
    if mode == "none":
        spec["bdspecs"] = None
    elif mode == "empty":
        spec["bdspecs"] = []
    else:
        faces = [(ax, side) for ax in range(dim) for side in (0, 1)]
        k = draw(st.integers(1, len(faces)))
        sel = sorted(set(draw(st.integers(0, len(faces) - 1)) for _ in range(k)))
        spec["bdspecs"] = [list(faces[i]) for i in sel]
    return spec


def _container(kind, cells, hs=None, level=None, info=None):
    """The marks of one level in the requested container type.  'live': the very set object the documented accessor
    hs.active_cells(level) returns, when the marks are exactly the active cells of that level (a caller refining a
    whole level passes it on unchanged); a fresh set otherwise."""
    cells = [tuple(c) for c in cells]
    if kind == "live":
        if hs is not None:
            live = hs.active_cells(level)
            if isinstance(live, (set, frozenset)) and set(live) == set(cells):
                if info is not None:
                    info["containers"].add("live")
                return live
        return set(cells)
    if info is not None:
        info["containers"].add(kind)
    if kind == "frozenset":
        return frozenset(cells)
    if kind == "set":
        return set(cells)
    if kind == "tuple":
        return tuple(cells)
    return list(cells)


def resolve_marks(ref, marks, max_levels):
    """Turn selector marks into {level: [cells]} over the reference's currently active cells.
    Levels are limited so that the hierarchy never exceeds max_levels levels."""
    levels = [l for l in range(ref.numlevels()) if ref.active[l] and l + 2 <= max_levels]
    out = {}
    if not levels:
        return out
    for lvsel, cellsel in marks:
        l = levels[lvsel % len(levels)]
        cells = sorted(ref.active[l])
        chosen = list(cells) if cellsel == "all" else sorted(set(cells[c % len(cells)] for c in cellsel))
        out.setdefault(l, [])
        for c in chosen:
            if c not in out[l]:
                out[l].append(c)
    return out


def region_cells(ref, l, box):
    """Active level-l cells whose centre lies in the box (relative coordinates per tensor axis)."""
    res = []
    for c in sorted(ref.active[l]):
        ext = ref.cell_extents(l, c)
        ok = True
        for ax, (lo, hi) in enumerate(ext):
            a0, a1 = float(ref.breaks(0, ax)[0]), float(ref.breaks(0, ax)[-1])
            mid = 0.5 * (lo + hi)
            rel = (mid - a0) / (a1 - a0)
            if not (box[ax][0] <= rel < box[ax][1]):
                ok = False
        if ok:
            res.append(c)
    return res


def make_hspace(spec):
    from pyiga import hierarchical
    kvs = tuple(gk.pyiga_kv(k) for k in spec["kvs"])
    disp = np.inf if spec["disparity"] is None else int(spec["disparity"])
    bd = spec.get("bdspecs")
    if bd is not None:
        bd = [tuple(b) for b in bd]
    hs = hierarchical.HSpace(kvs, truncate=bool(spec["truncate"]), disparity=disp, bdspecs=bd)
    ref = rh.RefHSpace([gk.build_knots(k) for k in spec["kvs"]])
    return hs, ref


def replay(spec, ctx, on_step=None, upto=None):
    """Apply the history to pyiga and the reference.  Returns (hs, ref, info)."""
    hs, ref = ctx.sut(make_hspace, spec, what="HSpace")
    info = {"calls": 0, "multilevel": False, "disparity_added": False, "region": False, "containers": set()}
    steps = spec["steps"] if upto is None else spec["steps"][:upto]
    for step in steps:
        if step["kind"] == "explicit":
            # explicit marks {level: [cells]}; cells that are no longer active (already refined through a finite
            # disparity) are dropped from the request
            marks = {}
            for l, cs in step["marks"].items():
                l = int(l)
                keep = [tuple(c) for c in cs if l < ref.numlevels() and tuple(c) in ref.active[l]]
                if keep:
                    marks[l] = keep
            if not marks:
                continue
            arg = {l: _container(step.get("container", "set"), cs, hs, l, info) for l, cs in marks.items()}
            returned = ctx.sut(hs.refine, arg, what="HSpace.refine")
            info["multilevel"] = info["multilevel"] or len(marks) > 1
        elif step["kind"] == "refine":
            marks = resolve_marks(ref, step["marks"], spec["max_levels"])
            if not marks:
                continue
            arg = {l: _container(step["container"], cs, hs, l, info) for l, cs in marks.items()}
            returned = ctx.sut(hs.refine, arg, what="HSpace.refine")
            info["multilevel"] = info["multilevel"] or len(marks) > 1
        else:
            levels = [l for l in range(ref.numlevels()) if ref.active[l] and l + 2 <= spec["max_levels"]]
            if not levels:
                continue
            l = levels[step["lvsel"] % len(levels)]
            cells = region_cells(ref, l, step["box"])
            if not cells:
                continue
            box = step["box"]
            dim = spec["dim"]
            ext0 = [(float(ref.breaks(0, ax)[0]), float(ref.breaks(0, ax)[-1])) for ax in range(dim)]

            def pred(*xyz, box=box, ext0=ext0, dim=dim):
                # xyz order: coordinate j belongs to tensor axis dim-1-j
                for j, x in enumerate(xyz):
                    ax = dim - 1 - j
                    rel = (x - ext0[ax][0]) / (ext0[ax][1] - ext0[ax][0])
                    if not (box[ax][0] <= rel < box[ax][1]):
                        return False
                return True
            returned = ctx.sut(hs.refine_region, l, pred, what="HSpace.refine_region")
            marks = {l: cells}
            info["region"] = True
        info["calls"] += 1
        # what was actually refined (superset of the request when the disparity is finite)
        actual = {}
        if not isinstance(returned, dict):
            raise Violation("refine_return", "refine did not return a dict of refined cells: %r" % type(returned))
        for l, cs in returned.items():
            cs = [tuple(int(x) for x in c) for c in cs]
            if cs:
                actual[int(l)] = cs
        for l, cs in marks.items():
            if not set(cs) <= set(actual.get(l, [])):
                raise Violation("refine_return", "returned refined cells do not contain the requested ones on level %d" % l)
        if spec["disparity"] is None:
            if {l: set(c) for l, c in actual.items()} != {l: set(c) for l, c in marks.items()}:
                raise Violation("refine_return", "with infinite disparity exactly the marked cells must be refined: %r vs %r"
                                % (actual, marks))
        else:
            if any(set(actual[l]) - set(marks.get(l, [])) for l in actual):
                info["disparity_added"] = True
        try:
            ref.refine(actual)
        except ValueError as e:
            raise Violation("refine_inactive_cell", str(e))
        if on_step is not None:
            on_step(hs, ref, info)
    return hs, ref, info

"""Child process of the C20 check: request the assembler of form number K from the compile cache given by
XDG_CACHE_HOME, assemble a small matrix and print it as JSON.  Exit code 0 on success."""
import json
import os
import sys


def main():
    repo = os.environ.get("VERIF_REPO", "/repo")
    sys.path.insert(0, repo)
    k = int(sys.argv[1])
    marker = sys.argv[2] if len(sys.argv) > 2 else None
    import numpy as np
    from pyiga import vform as V, compile as pc, bspline, geometry, assemble
    vf = V.VForm(1)
    u, v = vf.basisfuns()
    vf.add((1.0 + k) * u * v * V.dx)
    if marker:
        with open(marker + ".started", "w") as f:
            f.write(str(os.getpid()))
    Asm = pc.compile_vform(vf)
    kv = bspline.make_knots(2, 0.0, 1.0, 3)
    geo = geometry.line_segment(0.0, 2.0)
    A = assemble.assemble_entries(Asm((kv,), geo)).toarray()
    out = {"k": k, "matrix": [[float(x).hex() for x in row] for row in A], "module": Asm.__module__,
           "moddir": pc.MODDIR}
    sys.stdout.write("RESULT " + json.dumps(out) + "\n")
    sys.stdout.flush()
    if marker:
        with open(marker + ".done", "w") as f:
            f.write("ok")
    return 0


if __name__ == "__main__":
    sys.exit(main())

#!/bin/sh
# Offline setup: make sure hypothesis is importable in /venv and build pyiga's extensions from /repo.
cd "$(dirname "$0")"
/venv/bin/python -c "import hypothesis" 2>/dev/null || \
  /venv/bin/pip install --no-index --find-links /opt/veriftools/wheels hypothesis
# optional: atheris (coverage-guided fuzzing campaigns of C06) into a private directory, never into /venv
[ -d .deps/atheris ] || /venv/bin/pip install -q --no-index --find-links /opt/veriftools/wheels --target ./.deps atheris \
  || echo "atheris not available: the C06 fuzz sub-check will be skipped"
/venv/bin/python -m vp.build || exit 2
exit 0

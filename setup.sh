#!/bin/sh
# Offline setup: make sure hypothesis is importable in /venv and build pyiga's extensions from /repo.
cd "$(dirname "$0")"
/venv/bin/python -c "import hypothesis" 2>/dev/null || \
  /venv/bin/pip install --no-index --find-links /opt/veriftools/wheels hypothesis
/venv/bin/python -m vp.build || exit 2
exit 0

#!/usr/bin/env python3
"""Merge known_findings.d/<id>.json into known_findings.json; commit hashes are re-resolved in /repo by subject."""
import json, os, subprocess, sys
V = os.path.dirname(os.path.dirname(os.path.abspath(__file__)))
pid = sys.argv[1]
main = json.load(open(os.path.join(V, "known_findings.json")))
stage_path = os.path.join(V, "known_findings.d", pid + ".json")
stage = json.load(open(stage_path))
log = subprocess.run(["git", "-C", "/repo", "log", "--format=%h\t%s"], capture_output=True, text=True).stdout.splitlines()
bysubj = {l.split("\t", 1)[1]: l.split("\t", 1)[0] for l in log}
keys = {(e["property"], e["key"]) for e in main["findings"]}
for e in stage["findings"]:
    if (e["property"], e["key"]) in keys:
        continue
    if e.get("status") == "fixed":
        subj = e.get("commit_subject")
        if subj and subj in bysubj:
            e["commit"] = bysubj[subj]
        elif subj:
            cands = [h for s, h in bysubj.items() if s[:60] == subj[:60]]
            if cands:
                e["commit"] = cands[0]
            else:
                print("WARNING: commit not found in /repo for", e["key"])
        if not e["summary"].startswith("fixed:"):
            e["summary"] = "fixed: property=%s %s %s" % (e["property"], e.get("commit", "?"), e["summary"])
        elif e.get("commit") and e["commit"] not in e["summary"]:
            e["summary"] = e["summary"].replace("fixed: property=%s " % e["property"], "fixed: property=%s %s " % (e["property"], e["commit"]), 1)
    main["findings"].append(e)
json.dump(main, open(os.path.join(V, "known_findings.json"), "w"), indent=1)
os.remove(stage_path)
print("merged", len(stage["findings"]), "entries for", pid)

#!/usr/bin/env python3
"""Regenerate the defects table of DESIGN.md section 5 from known_findings.json (between the table header and the
paragraph 'Open findings and why they are not repaired:')."""
import json
import os
import re

V = os.path.dirname(os.path.dirname(os.path.abspath(__file__)))


def main():
    d = json.load(open(os.path.join(V, "known_findings.json")))["findings"]
    nfix = sum(1 for f in d if f["status"] == "fixed")
    nopen = len(d) - nfix
    rows = ["| Prop | Disposition | Key | What failed |", "|---|---|---|---|"]
    for f in d:
        disp = "fixed `%s`" % f["commit"] if f["status"] == "fixed" else "open"
        s = f["summary"].replace("|", "/").replace("\n", " ")
        if len(s) > 700:
            s = s[:700]
        rows.append("| %s | %s | %s | %s |" % (f["property"], disp, f["key"], s))
    p = os.path.join(V, "DESIGN.md")
    txt = open(p).read()
    a = txt.index("| Prop | Disposition | Key | What failed |")
    b = txt.index("Open findings and why they are not repaired:")
    txt = txt[:a] + "\n".join(rows) + "\n\n" + txt[b:]
    txt = re.sub(r"\(\d+ entries: \d+ fixed, \d+ open\)", "(%d entries: %d fixed, %d open)" % (len(d), nfix, nopen), txt)
    open(p, "w").write(txt)
    print("table: %d entries (%d fixed, %d open)" % (len(d), nfix, nopen))


if __name__ == "__main__":
    main()

#!/usr/bin/env python3
"""Evaluate one seeded breaking change: confirm it in the agent's worktree (demo passes without / fails with the patch,
test-suite passes with the patch), store it under seeded/<id>/, then apply it to /repo, run the registered quick check(s),
and undo it straight afterwards.

    tools/eval_seed.py C07 [--checks C07,C02] [--skip-tests] [--name variant]
"""
import json
import os
import shutil
import subprocess
import sys
import time

V = os.path.dirname(os.path.dirname(os.path.abspath(__file__)))
PY = "/venv/bin/python"


def sh(cmd, cwd=None, env=None, timeout=3600):
    r = subprocess.run(cmd, shell=True, cwd=cwd, env=env, stdout=subprocess.PIPE, stderr=subprocess.STDOUT, text=True, timeout=timeout)
    return r.returncode, r.stdout


def main():
    pid = sys.argv[1]
    checks = [pid]
    skip_tests = "--skip-tests" in sys.argv
    # --in-worktree: run the checks with VERIF_REPO=<agent's worktree> (patch applied there) instead of applying the
    # patch to /repo; lets several evaluations run side by side and never touches /repo
    in_wt = "--in-worktree" in sys.argv
    name = pid
    for i, a in enumerate(sys.argv):
        if a == "--checks":
            checks = sys.argv[i + 1].split(",")
        if a == "--name":
            name = sys.argv[i + 1]
    seed = "/tmp/seed_%s" % name
    wt = "/tmp/wt_%s" % name
    dst = os.path.join(V, "seeded", name)
    os.makedirs(dst, exist_ok=True)
    for f in ("patch.diff", "demo.py", "meta.json"):
        shutil.copy(os.path.join(seed, f), os.path.join(dst, f))
    meta = json.load(open(os.path.join(dst, "meta.json")))
    env = dict(os.environ)
    env.update({"XDG_CACHE_HOME": wt + "/.xdg", "PYTHONPATH": wt, "MPLBACKEND": "Agg"})
    log = {}
    # 1. demonstration with the patch (worktree has it applied)
    rc, out = sh("%s %s/demo.py" % (PY, seed), cwd=wt, env=env)
    log["demo_with_patch_rc"] = rc
    # 2. demonstration without the patch
    # (never git stash: the stash is shared between all worktrees of /repo)
    sh("git apply -R %s/patch.diff" % dst, cwd=wt)
    touched = [l[6:] for l in open(os.path.join(dst, "patch.diff")).read().splitlines() if l.startswith("+++ b/")]
    native = any(t.endswith((".pyx", ".pxi", ".pxd", ".cc", ".h")) for t in touched)
    if native:
        sh("%s setup.py build_ext --inplace" % PY, cwd=wt, env=env)
    rc0, out0 = sh("%s %s/demo.py" % (PY, seed), cwd=wt, env=env)
    log["demo_without_patch_rc"] = rc0
    sh("git apply %s/patch.diff" % dst, cwd=wt)
    if native:
        sh("%s setup.py build_ext --inplace" % PY, cwd=wt, env=env)
    # 3. test-suite with the patch
    if not skip_tests:
        rct, outt = sh("%s -m pytest -q -p no:cacheprovider --timeout=900 test/ 2>&1 | tail -3" % PY, cwd=wt, env=env, timeout=7200)
        log["tests_with_patch"] = outt.strip().splitlines()[-1] if outt.strip() else ""
    # 4. our checks against /repo with the patch applied
    if in_wt:
        rca, outa = 0, ""
    else:
        rca, outa = sh("git -C /repo apply %s/patch.diff" % dst)
    if rca != 0:
        log["apply_error"] = outa
    results = {}
    try:
        if rca == 0:
            for c in checks:
                t0 = time.time()
                cenv = dict(os.environ)
                if in_wt:
                    cenv["VERIF_REPO"] = wt
                rcc, outc = sh("%s run_check.py %s --tier quick" % (PY, c), cwd=V, env=cenv, timeout=7200)
                viol = [l for l in outc.splitlines() if l.startswith("VIOLATION")]
                first = [l for l in outc.splitlines() if l.startswith("  subcheck=")][:2]
                results[c] = {"exit": rcc, "violations": len(viol), "first": first, "wall_s": round(time.time() - t0, 1)}
                for v in viol[:1]:
                    path = v.split("replay=")[1].strip()
                    if os.path.exists(os.path.join(V, path)) and path.startswith("replays/"):
                        shutil.copy(os.path.join(V, path), os.path.join(dst, "replay_%s.json" % c))
    finally:
        if not in_wt:
            sh("git -C /repo checkout -- .")
            sh("%s -m vp.build" % PY, cwd=V)
    log["checks"] = results
    log["checked_in"] = "worktree" if in_wt else "/repo"
    meta["evaluation"] = log
    meta["caught_by"] = [c for c, r in results.items() if r["exit"] == 1]
    json.dump(meta, open(os.path.join(dst, "meta.json"), "w"), indent=1)
    print(json.dumps(log, indent=1))
    st = subprocess.run("git -C /repo status --short | head -3", shell=True, stdout=subprocess.PIPE, text=True).stdout
    print("repo status after undo:", repr(st))


if __name__ == "__main__":
    main()

#!/usr/bin/env python3
"""Regression over all stored seeded changes: for every seeded/<name>/ create a scratch worktree of /repo (outside /repo and
/verif), apply the patch there, rebuild what the patch touches, run the registered quick check of the property with
VERIF_REPO=<worktree> and expect exit status 1; remove the worktree.  /repo itself is never modified.

    tools/regress_seeded.py [names...] [--jobs N]        (default: all)
Writes seeded/REGRESSION.json.
"""
import glob
import json
import os
import shutil
import subprocess
import sys
import time

V = os.path.dirname(os.path.dirname(os.path.abspath(__file__)))
PY = "/venv/bin/python"
sys.path.insert(0, V)


def sh(cmd, cwd=None, env=None, timeout=7200):
    r = subprocess.run(cmd, shell=True, cwd=cwd, env=env, stdout=subprocess.PIPE, stderr=subprocess.STDOUT, text=True, timeout=timeout)
    return r.returncode, r.stdout


def one(name):
    from vp import build
    import hashlib
    d = os.path.join(V, "seeded", name)
    meta = json.load(open(os.path.join(d, "meta.json")))
    prop = meta["property"]
    wt = "/tmp/reg_wt_%s" % name
    sh("git -C /repo worktree remove --force %s" % wt)
    shutil.rmtree(wt, ignore_errors=True)
    res = {"name": name, "property": prop}
    rc, out = sh("git -C /repo worktree add --detach %s HEAD" % wt)
    if rc != 0:
        res["error"] = "worktree: " + out[-300:]
        return res
    try:
        applied = None
        for pf in ("patch_rebased.diff", "patch.diff"):
            p = os.path.join(d, pf)
            if not os.path.exists(p):
                continue
            rc, out = sh("git apply %s" % p, cwd=wt)
            if rc != 0:
                rc, out = sh("git apply --3way %s" % p, cwd=wt)
            if rc == 0:
                applied = pf
                break
        if not applied:
            res["status"] = "patch does not apply to the current HEAD"
            res["detail"] = out[-300:]
            return res
        res["patch"] = applied
        # reuse /repo's extension modules; the stamp records /repo's sources so that only what the patch touches is rebuilt
        for so in glob.glob("/repo/pyiga/*.so"):
            shutil.copy2(so, os.path.join(wt, "pyiga", os.path.basename(so)))
        tag = hashlib.sha1(os.path.abspath(wt).encode()).hexdigest()[:10]
        os.makedirs(build.BUILD, exist_ok=True)
        with open(os.path.join(build.BUILD, "stamp-%s.json" % tag), "w") as f:
            json.dump(build.source_hashes("/repo"), f)
        env = dict(os.environ)
        env["VERIF_REPO"] = wt
        t0 = time.time()
        rc, out = sh("%s run_check.py %s --tier quick" % (PY, prop), cwd=V, env=env)
        viol = [l for l in out.splitlines() if l.startswith("VIOLATION")]
        first = [l.strip() for l in out.splitlines() if l.startswith("  subcheck=")][:1]
        res.update({"exit": rc, "violations": len(viol), "first": first, "wall_s": round(time.time() - t0, 1),
                    "status": "caught" if rc == 1 else ("MISSED" if rc == 0 else "harness error")})
        if rc not in (0, 1):
            res["tail"] = out[-600:]
        for f in (os.path.join(build.BUILD, "stamp-%s.json" % tag), os.path.join(build.BUILD, "lock-%s" % tag)):
            if os.path.exists(f):
                os.remove(f)
        for dd in ("temp-" + tag, "lib-" + tag):
            shutil.rmtree(os.path.join(build.BUILD, dd), ignore_errors=True)
        return res
    finally:
        sh("git -C /repo worktree remove --force %s" % wt)
        shutil.rmtree(wt, ignore_errors=True)
        sh("git -C /repo worktree prune")


def main():
    names = [a for a in sys.argv[1:] if not a.startswith("--")]
    if not names:
        names = sorted(n for n in os.listdir(os.path.join(V, "seeded")) if os.path.isdir(os.path.join(V, "seeded", n)))
    outp = os.path.join(V, "seeded", "REGRESSION.json")
    try:
        allres = json.load(open(outp))
    except Exception:
        allres = {}
    for n in names:
        r = one(n)
        allres[n] = r
        print(json.dumps(r), flush=True)
        json.dump(allres, open(outp, "w"), indent=1, sort_keys=True)
    bad = [n for n in names if allres[n].get("status") != "caught"]
    print("not caught:", bad)


if __name__ == "__main__":
    main()

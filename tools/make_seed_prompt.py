#!/usr/bin/env python3
"""Prints the prompt given to a fresh sub-agent for one seeded change: tools/SEED_BRIEF.md filled with the text of one property
(nothing from /verif besides the property text) plus one-line summaries of the changes already taken for that property.

    tools/make_seed_prompt.py C17 d      -> prompt for seeded/C17d
"""
import json, os, sys, glob
V = os.path.dirname(os.path.dirname(os.path.abspath(__file__)))
pid, suffix = sys.argv[1], sys.argv[2]
props = {json.loads(l)["id"]: json.loads(l) for l in open(os.path.join(V, "properties.jsonl")) if l.strip()}
p = props[pid]
brief = open(os.path.join(V, "tools", "SEED_BRIEF.md")).read()
anch = p.get("anchors") or p.get("files") or p.get("code") or ""
txt = brief.format(ID=pid + suffix, TITLE=p["title"], STATEMENT=p["statement"], QUANT=json.dumps(p.get("quantifier")),
                   FILES=json.dumps(anch), MECH=json.dumps(p.get("mechanisms", p.get("why_tests_cant", ""))))
txt = txt.replace('"property": "%s"' % (pid + suffix), '"property": "%s"' % pid)
taken = []
for d in sorted(glob.glob(os.path.join(V, "seeded", pid + "*"))):
    try:
        taken.append("- " + json.load(open(os.path.join(d, "meta.json")))["summary"][:600])
    except Exception:
        pass
if taken:
    txt += ("\n\nALREADY TAKEN (other workers produced these changes for the same property; yours must use a DIFFERENT mechanism, "
            "in a different function, and need a different kind of trigger):\n" + "\n".join(taken) + "\n")
print(txt)

#!/bin/sh
# Regenerate evidence/<id>.json: every registered quick command against /repo itself (VERIF_REPO unset), VERIF_SEED=1.
cd "$(dirname "$0")/.." || exit 2
unset VERIF_REPO
export VERIF_SEED=1 VERIF_TIER=quick
rc=0
for p in C01 C02 C03 C04 C05 C06 C07 C08 C09 C10 C11 C12 C13 C14 C15 C16 C17 C18 C19 C20; do
  /venv/bin/python run_check.py $p --tier quick > /tmp/regen_$p.log 2>&1
  r=$?
  echo "$p exit=$r $(grep -E '^\[C' /tmp/regen_$p.log | tail -1)"
  grep -E "VIOLATION|HARNESS-ERROR" /tmp/regen_$p.log | head -3
  [ $r -ne 0 ] && rc=1
done
exit $rc

#!/usr/bin/env python3
"""Regenerates MANIFEST.json from the table below (keeps the file valid at all times)."""
import json
import os
import sys

VERIF = os.path.dirname(os.path.dirname(os.path.abspath(__file__)))
ALL = ["C%02d" % i for i in range(1, 21)]

CHECKS = {
    # id: (category, technique, text, note, design_ref)
    "C01": ("exploration",
            "generated programs (typed grammar over the documented vform language, Hypothesis) compiled through "
            "generate -> Cython -> gcc -> import -> instantiate -> assemble and compared entrywise with an independent "
            "interpreter summed over own Gauss nodes (differential testing of the whole compiler)",
            "Batches of generated forms (dims 1-3, arity 1-2, scalar/vector and non-square component counts, two spaces, "
            "dx/ds/boundary/gw, physical and parametric derivatives up to order 2, spline and callable input fields, "
            "parameters, x/n/jac, algebra, abs/sqrt/exp/log/sin/cos/tan; one form in six a space-time form with Dt and mixed "
            "space-time derivatives on a space-time cylinder) are compiled in crash-isolated workers with private "
            "caches (compile_vforms batches, single compile_vform, string front-end) and every entry of the assembled "
            "matrix/vector plus selected entry() calls are compared with the reference Gauss sum on generated open knot "
            "vectors (mixed degrees, repeated knots) and B-spline/NURBS geometries. Every accepted form must build, load "
            "and assemble. The program space is sampled, not covered.",
            "Trusted: vp/ref/forms.py (jets, chain rule), vp/ref/geo.py, vp/ref/bspl.py, numpy leggauss. Boundary normals "
            "assume orientation-preserving maps (documented precondition).",
            "DESIGN.md section 2, C01"),
    "C20": ("fault_enumeration",
            "enumeration of every reachable damage class of every cache artefact (fault model derived by strace from a cold "
            "compile of the current tree) + Hypothesis-generated kill times and race schedules; oracle = a fresh process "
            "obtains a correct assembler with exit status 0",
            "One cold compile is traced (strace -f) to learn which cache artefacts are written in place and which arrive "
            "atomically by rename/link; for every artefact every reachable damage (deleted, empty, header-only, 10%/30%/half, "
            "all-but-last-byte, same-length garbage, leftover partial build directory), singly and in pairs across restarts, "
            "is injected into a copy of the cache and the form is requested twice in fresh sub-processes: exit status 0 (a "
            "signal exit is the violation the property names), the matrix equals the undamaged run bit for bit and the "
            "independent reference. Compiling processes (or their process groups) are SIGKILLed at generated times, and "
            "2..8 processes race on the same / distinct forms from an empty cache with generated start offsets; a shared "
            "object that a process has loaded must never change afterwards. A request that never returns is decided from the "
            "process state (sleeping, no compiler child, no CPU progress), a plain time-out is inconclusive. States the tree cannot produce are not "
            "injected (unknown never means in-place).",
            "Kernel-level torn writes / power loss are outside the model; kill times and interleavings are sampled.",
            "DESIGN.md section 2, C20"),
    "C02": ("exploration",
            "Hypothesis-generated knot vectors/points/derivative orders + exhaustive breakpoint sweep, compared with "
            "Cox-de Boor in exact rational arithmetic (condition-aware rounding bound)",
            "All evaluation routes (active_deriv/active_ev scalar+array, single_ev for every function, collocation, "
            "collocation_derivs(_info), ev/deriv, compute_values_derivs, BSplineFunc grid evaluators) are compared with an "
            "independent exact-rational Cox-de Boor reference at generated points including knots of every "
            "multiplicity, both ends and adjacent floats, for p up to 12 and derivative orders up to p+2; tolerance "
            "16(p+1)eps*S_k from the exact sum of absolute terms. A quarter of the random cases use span ratios up to 1e14 "
            "and geometrically graded meshes (spans <= 1e-12). Workers are crash-isolated (a segfault becomes a "
            "violation with the journalled case). Sampling plus an exhaustive sweep of a small family; not a proof.",
            "Trusted: Python fractions, numpy; points never denormal (FTZ/DAZ).",
            "DESIGN.md section 2, C02"),
    "C03": ("exploration",
            "Hypothesis-generated refinement histories x form library x geometries; oracle = the definition "
            "A[i,j] = R_i^T A_L R_j (L = finer level) built from an independent tensor-product reference assembly and "
            "exact knot-insertion representations",
            "assemble(form, HSpace) for generated histories (HB/THB, disparity inf/1/2, bdspecs None/[]/faces), mass / "
            "Laplace / nonsymmetric convection with input field and parameter / L2 functionals with parametric and "
            "physical data, on affine, curved B-spline and NURBS geometries, is compared entrywise with the level-wise "
            "definition (quadrature of the finer level), THB results with the congruence by a definition-based THB-to-HB "
            "matrix, symmetric with general assembly, and (polynomial integrands) with I^T A_fine I. Histories include adaptive "
            "loops in which the space is assembled on and queried after every refinement step (stale caches). The on-demand "
            "assemblers are JIT-compiled once per run. Sampling, not proof; dim 3 and 4 levels only in the thorough tier.",
            "Trusted: vp/ref/forms.py, vp/ref/hier.py, vp/ref/bspl.py.",
            "DESIGN.md section 2, C03"),
    "C04": ("exploration",
            "exhaustive itertools enumeration of all short refinement histories on tiny meshes + Hypothesis-generated "
            "longer histories (model-based: every call is replayed on a reference model of nested cell sets)",
            "All sequences of <=2 (quick) / <=3 (thorough) refine calls over all non-empty subsets of active cells "
            "(multi-level marks included) on 1D meshes with <=3(4) cells and the 2D 2x2 mesh, for p in {1,2,3}, disparity "
            "{inf,1,2}, HB/THB, marks as set/list/tuple/frozenset and as the live set returned by active_cells(lv), are enumerated; random histories in 1D-3D with refine_region and "
            "copies are generated. After every call: tiling, activity by the support definition (both directions), "
            "canonical order, rank of represent_fine, THB non-negativity/partition of unity, HB<->THB transforms against "
            "a definition-based reference, disparity bound, incidence matrix and support queries. Exhaustive only for "
            "the stated tiny sub-domain; sampling beyond.",
            "Trusted: vp/ref/hier.py (definitions), vp/ref/bspl.py Boehm insertion. For finite disparity the returned "
            "refined cells are taken as the actual marks.",
            "DESIGN.md section 2, C04"),
    "C05": ("exploration",
            "Hypothesis-generated nested knot-vector pairs and (coarse, fine) hierarchical-space pairs from generated "
            "refinement histories; oracle = exact rational Boehm knot insertion and definition-based HB/THB bases",
            "bspline.prolongation / knot_insertion / refine are compared with exact rational knot-insertion matrices "
            "(p 0..8, repeated and coinciding knots); for generated refinement histories the TP level prolongators, the "
            "virtual-hierarchy prolongators (HB and THB, composed from every virtual level), prolongate_to between a "
            "history prefix and the full history, HSpace.boundary (cells, functions, index map, function identity on the "
            "face) and HSplineFunc evaluation (values, gradients, Hessians, single point) are checked through the "
            "identity B_fine P = B_coarse on a common finest tensor-product level; the transfer queries of one object run in a "
            "generated order and are repeated (observations must not change state). Sampling, not proof.",
            "Trusted: vp/ref/bspl.py (exact Boehm), vp/ref/hier.py. One open known finding (THB virtual prolongators on "
            ">= 3 levels) is matched only when pyiga still computes exactly the known-wrong formula.",
            "DESIGN.md section 2, C05"),
    "C06": ("translation_validation",
            "generated programs (typed grammar over the vform language, Hypothesis) evaluated by a source-semantics "
            "interpreter and by an interpreter of the finalized form in emitted order; exhaustive {0,1}^m grid evaluation in "
            "exact integers for the multilinear operator expansions",
            "Translation validation of the vform middle-end by generated programs, without compilation: for every generated "
            "form the integrand value at every Gauss node and for every pair of basis functions, computed by an "
            "independent interpreter (second-order jet arithmetic, physical derivatives by the chain rule), is compared with "
            "the value of the finalized expressions executed in the emitted order (precomputed variables, kernel "
            "variables, kernel expressions); use-before-definition, basis-function dependence of precomputed variables "
            "and nodes outside the back-end's dispatch table fail by construction. det/adjugate/minor/cross/MatVec/MatMat/"
            "tr/T/outer/inner expansions are decided exhaustively on {0,1}^m (multilinear => polynomial identity). Space-time forms "
            "(Dt, mixed space-time derivatives, the space-time splitting) are generated on space-time cylinders. A coverage-guided "
            "campaign (atheris/libFuzzer on the instrumented pyiga.vform, bytes decoded into grammar forms) runs the same oracle.",
            "Trusted: vp/ref/forms.py, vp/ref/target.py, vp/ref/geo.py. Environments are real Gauss nodes of generated "
            "spaces/geometries rather than abstract random jets (deviation from the first design, see DESIGN.md).",
            "DESIGN.md section 2, C06"),
    "C07": ("exploration",
            "Hypothesis-generated spline/NURBS/user/composed functions, points and operation arguments; oracle = "
            "independent tensor-product Cox-de Boor + quotient-rule reference and the documented formulas",
            "Every evaluation route (single point, tensor grid, scattered points in xyz order, Jacobians, Hessians) of "
            "generated B-spline/NURBS functions of sdim 1-3 with scalar/vector/matrix values is compared with an "
            "independent reference; every geometry operation (translate, scale, rotate, apply_matrix, component selection with "
            "non-negative / negative integers, open-ended and stepped slices and index lists, as_nurbs, "
            "as_vector, copy, boundary by name and pair, reduced support, tensor_product, outer_sum/product with "
            "broadcasting, cylinderize) is compared with its documented formula evaluated on reference values and the "
            "operands must stay bit-identical; UserFunction/ComposedFunction/_BoundaryFunction routes and chain rule; "
            "arcs, circles, disks and annuli are checked to lie on exact circles. Sampling, not proof.",
            "Trusted: vp/ref/bspl.py, vp/ref/geo.py, numpy. Derivatives are compared only where they are continuous.",
            "DESIGN.md section 2, C07"),
    "C08": ("exploration",
            "Hypothesis-generated (assembler, space, geometry, inputs, configuration) cases; differential / metamorphic "
            "oracle against the base configuration (symmetric=False, csr, blocked, 1 thread), bitwise for thread counts",
            "For the 14 shipped assembler classes and 7 JIT-compiled forms (non-square component blocks (2,1) and (2,3), "
            "two spaces, parameter + updatable field, scalar and vector functionals, nonsymmetric scalar, on-demand mode) "
            "every generated configuration - symmetric flag (symmetric forms), format csr/csc/coo/bsr/mlb, layout "
            "blocked/packed with the documented permutation, entry / multi_entries / multi_blocks on unsorted subsets, "
            "on-demand bounding boxes, update()/update_params() versus a fresh assembler, reuse of one object - must "
            "reproduce the base result to rounding, and thread counts 2..16 (thread-pool chunking and OpenMP prange) must "
            "reproduce it bit for bit; update/assemble histories on one assemble.Assembler object (fields entering by value only, and by value "
            "and gradient) must equal freshly constructed assemblers. Sampling; the thread schedule is not owned by the harness (races searched by "
            "repetition).",
            "Trusted: the base configuration is tied to the independent reference by C01. A race needing a rare "
            "interleaving can be missed.",
            "DESIGN.md section 2, C08"),
    "C09": ("exploration",
            "Hypothesis-generated knot vectors / derivative orders / weights / geometries; oracle = exact rational integrals "
            "of products of piecewise polynomials and Kronecker products of them; closed-form identities; calibrated error "
            "bound for the low-rank assemblers",
            "bsp_mixed_deriv_biform_1d(_asym), bsp_mass/stiffness_1d(_asym) (degrees 0-6, repeated knots, derivative orders up "
            "to p, two spaces on a common mesh, finer quadrature grids, polynomial weights) are compared with exact rational "
            "integrals; mass/stiffness in 2D/3D through the Kronecker path, the generic path with an identity geometry and "
            "the string front-end must equal the Kronecker product of the exact 1D matrices; M symmetric positive "
            "definite with 1^T M 1 = measure (also under affine and multilinear maps), K symmetric positive semidefinite "
            "with exactly the constants in its kernel; inner_products / integrate / load_vector of polynomial data are "
            "exact; mass_fast / stiffness_fast stay within 10*tol*max(1,max|A|) entrywise. Sampling, not proof.",
            "Trusted: vp/ref/bspl.py pp_basis (exact rationals). Open known finding: ACA skip-count heuristic of the fast "
            "assemblers (matched by its stop reason only).",
            "DESIGN.md section 2, C09"),
    "C10": ("exploration",
            "Hypothesis-generated linear systems / index sets in arbitrary order / faces / boundary data + exhaustive "
            "enumeration of slice_indices on small shapes; oracle = dense algebraic definition and an independent "
            "face-index / Greville-interpolation reference",
            "RestrictedLinearSystem (dense/CSR/CSC/COO, unsorted and degenerate index sets, elim_rows, scalar/array "
            "values) is checked through the completed solution: prescribed values at every constrained dof and zero "
            "residual in every kept equation, plus mutual consistency of restrict/extend/restrict_matrix/complete. "
            "compute_dirichlet_bc(s)/combine_bcs/boundary_dofs/slice_indices, multipatch Dirichlet data and "
            "compute_initial_condition_01 are compared with an independent reference (face dof sets exactly once, "
            "blocked numbering, interpolation of g(G(xi)) at the face Greville points). Sampling plus one exhaustive "
            "sub-domain; not a proof.",
            "Trusted: numpy dense algebra, vp/ref/bspl.py, vp/ref/c10_ref.py.",
            "DESIGN.md section 2, C10"),
    "C11": ("exploration",
            "Hypothesis-generated matrices / index lists / sweeps and hierarchical spaces from generated refinement "
            "histories; oracle = text-book Gauss-Seidel and a dense text-book local multigrid V-cycle written in the "
            "harness, fixed-point and energy-norm invariants, replay of the stopping rules",
            "Sparse and dense Gauss-Seidel (forward, backward, symmetric, restricted to unordered index lists, several "
            "sweeps, CSR/CSC/COO with explicit zeros and unsorted indices) are compared with the coordinate-wise text-book "
            "update; exact solutions are fixed points; SPD energy errors never increase. For generated hierarchical spaces "
            "(HB/THB, disparity inf/1/2, bdspecs None/[]/faces) and all 4 strategies x 5 smoothers: smoothing sets contain "
            "the new dofs and no Dirichlet dof, the exact discrete solution is a fixed point of local_mg_step, the cycle "
            "equals a dense text-book V-cycle, the energy error does not increase; iterative_solve / solve_hmultigrid "
            "stopping rules are replayed step by step; twogrid accepts list/array/None starting vectors and converges on "
            "SPD problems with nested prolongations. Sampling, not proof.",
            "Trusted: vp/ref/c11_ref.py, vp/ref/hier.py. The system matrices are built by the harness's own quadrature.",
            "DESIGN.md section 2, C11"),
    "C12": ("exploration",
            "finite exhaustive check of rooted-tree order conditions in exact rationals for the 12 shipped tableaux + "
            "Hypothesis-generated problems/tableaux/driver arguments against exact dense stage equations and a recording "
            "wrapper around the step functions",
            "Order conditions (all rooted trees up to the documented order, main and embedded weights) are checked in "
            "exact rational arithmetic for every shipped tableau; dirk_step/rosenbrock_step are compared with the stage "
            "equations solved by dense algebra (tolerance derived from the hard-coded Newton stopping rule) for "
            "generated SPD mass matrices (None/dense/sparse), linear and monotone nonlinear right-hand sides, tau over 3 "
            "decades, shipped and random user tableaux; constant-step and adaptive drivers are replayed (time grid, "
            "accepted steps pass the scaled error test, step factors within [0.2,5]); newton returns only converged "
            "points or raises. Sampling except for the tableau part.",
            "Trusted: vp/ref/c12_rk.py (rooted trees, dense reference steps), numpy. Documented main orders of the "
            "Rosenbrock tables are taken from the method names (the source only states err_order). Open known finding: "
            "dirk34 tableau (matched by the exact residual fingerprint).",
            "DESIGN.md section 2, C12"),
    "C13": ("exploration",
            "Hypothesis-generated (form, one-token mutation neighbour) pairs: equal cache key must imply equal assembler "
            "interface and equal reference integrand; compile-order differential tests; regeneration of the shipped "
            "sources under several PYTHONHASHSEED values",
            "For generated forms and their one-token mutants (operator, function name, constant, derivative index, "
            "physical/parametric flag, measure, boundary flag, component mode, space index, updatable flag) the "
            "in-process cache key vf.hash() is compared: equal keys are only accepted if both forms have the same "
            "assembler interface and the same reference matrix (own interpreter). In crash-isolated workers A,B,A,B "
            "(and B,A,B,A) are compiled in one process: every returned class must assemble ITS OWN form (C01 oracle), "
            "repeated requests return the identical class, and a module's name equals the digest of its source. "
            "assemblers.pyx/genericasm.pxi are regenerated with the functions of scripts/generate-assemblers.py under "
            "PYTHONHASHSEED 0..3 and compared block-wise up to statement order; the 14 pre-seeded (form, class) pairs are "
            "checked for identity and against the reference assembly of their forms. Sampling, not proof.",
            "Trusted: vp/ref/forms.py. Generated TEXT equality between two builds of the same form is not demanded "
            "(statement order and storage offsets depend on set iteration order; the property allows this).",
            "DESIGN.md section 2, C13"),
    "C14": ("exploration",
            "exhaustive itertools enumeration of join orders (with repetitions, omissions, flips, re-parametrisations) for "
            "small patch complexes + Hypothesis-generated complexes / conforming decompositions; oracle = union-find over "
            "the declared identifications and single-patch assembly",
            "All orders of the interface joins for 2x1, 2x2, 3x2 complexes and rings of 3..6 patches (2x2x2 sampled), with "
            "all consistent flips and re-parametrisations, are enumerated and compared with a union-find model: numdofs = "
            "number of classes, equal global index iff same class, gap-free numbering, 0/1 patch-to-global matrices with "
            "X^T X = I; join sequences may be interrupted by finalize() + a complete query of the structure before "
            "further interfaces are declared (all orders x all stage patterns for 2x2). Generated conforming decompositions of a curved patch are compared with the undivided patch "
            "(mass, stiffness, non-symmetric space-time heat, L2 functional), detect_interfaces must return exactly the "
            "constructed interfaces with flips (also for rings around a vertex and polygonal annuli in which two patches share "
            "two faces), multipatch Dirichlet data must address the glued dofs. Exhaustive for "
            "the stated complexes, sampling beyond.",
            "Trusted: vp/ref/c14_glue.py (union-find, own face enumeration with the documented flip semantics).",
            "DESIGN.md section 2, C14"),
    "C15": ("exploration",
            "exhaustive itertools enumeration of all small per-level patterns (1-3 levels of 2x2/2x3/3x3 blocks, 4-6 levels "
            "of 1x2/2x1 blocks) + Hypothesis-generated structures with 1-6 levels; oracle = dense Kronecker definition "
            "(numpy.kron)",
            "nonzero() order, lower_tri, per-row and per-column queries, dot (vector/multi-column, strided and integer "
            "arguments), asmatrix, level reordering (perfect-shuffle similarity), transpose, join, slice, from_kvs / "
            "compute_sparsity_ij against reference support overlaps (different degrees, repeated knots, nested and "
            "unrelated meshes), kron_partial against selected rows of the dense product, and all index maps as mutually "
            "inverse bijections are compared with the dense definition; a generated history on one MLMatrix (repeated asmatrix / "
            "dot / complex dot / data setter, the caller modifying every returned matrix and product in place) must keep "
            "answering with the dense definition; native kernels run crash-isolated. Exhaustive "
            "for the stated small families, sampling beyond.",
            "Trusted: numpy.kron dense reference (vp/ref/c15_ml.py). Data are small dyadic rationals (exact comparison).",
            "DESIGN.md section 2, C15"),
    "C16": ("exploration",
            "Hypothesis-generated operands (dense/CSR/CSC/LinearOperator, rectangular, mixed dtypes/layouts) and arguments; "
            "oracle = explicit dense matrices built with numpy.kron / numpy.block / numpy.linalg.solve",
            "Kronecker, block, block-diagonal, diagonal, identity, null and subspace operators with their .T/.H chains, "
            "apply_tprod (None placeholders, trailing axes), modek_tprod, apply_kronecker, make_solver / "
            "make_kronecker_solver / fastdiag_solver (residual oracle scaled by the condition number) and CSRRowSlice/"
            "CSRRowSubset are compared with their dense definitions for vector, column and multi-column arguments. "
            "Entries are small dyadic rationals so the dense references are exact. Sampling, not proof.",
            "Trusted: numpy dense linear algebra. Excluded as outside the documented domain: BlockOperator with None "
            "placeholders, fastdiag_solver with sparse inputs, complex dtypes.",
            "DESIGN.md section 2, C16"),
    "C17": ("exploration",
            "Hypothesis-generated spaces / node grids / data / geometries / refinement histories + exhaustive enumeration of "
            "degenerate spaces; oracle = dense reference collocation and Gauss-quadrature inner products",
            "approx.interpolate and bspline.interpolate (default and custom unisolvent nodes; scalar/vector/matrix data as "
            "callables, spline objects and value arrays; with geometry) must reproduce the coefficients of functions of "
            "the space (condition-aware tolerance) and match the data at the nodes; project_L2 (tensor-product, with "
            "affine/bilinear/spline/NURBS geometries, physical vs pulled-back data, hierarchical HB/THB spaces) must "
            "reproduce functions of the space and leave a residual orthogonal to every basis function in the "
            "|det J|-weighted inner product computed by the harness's own Gauss rule. Sampling plus an exhaustive "
            "family of degenerate spaces; not a proof.",
            "Trusted: vp/ref/bspl.py, vp/ref/geo.py, vp/ref/hier.py. One open known finding (hierarchical load vectors "
            "integrate fine-level data with coarse-level rules).",
            "DESIGN.md section 2, C17"),
    "C18": ("exploration",
            "model-based generated operation sequences (Hypothesis; pool of tensors with numpy reference arrays, checked "
            "after every step) + generated operators/tensors for HOSVD/ACA/ALS; oracle = dense numpy arrays",
            "Sequences of up to 8 operations (add/sub/neg across canonical/Tucker/ndarray/sum/product formats, indexing "
            "with negative and stepped slices and index lists, squeeze, mode products, pad, conversions, orthogonalize, "
            "compress, truncate, join_tucker_bases, norms, single-factor products and sums built on them) are executed on pyiga tensors and on numpy arrays in lock step "
            "with an accumulated tolerance, every pool entry being re-expanded after every step and once more at the end; "
            "CanonicalOperator algebra, HOSVD exactness/orthonormality, compression error "
            "bounds, TensorGenerator indexing, cross approximation of exact low-rank inputs and greedy error histories "
            "are checked against dense references. Sampling, not proof.",
            "Trusted: numpy dense tensor algebra (vp/ref/c18_dense.py). numpy's global RNG is seeded from the spec.",
            "DESIGN.md section 2, C18"),
    "C19": ("exploration",
            "exhaustive enumeration of (p,n,mult) + Hypothesis-generated intervals/knot vectors/points against a "
            "linear-scan / exact-rational reference model",
            "Every (p<=6, n<=400 [2000 thorough], mult) constructor call on [0,1] and on 40 rational/decimal intervals "
            "is enumerated; random float intervals, knot vectors with spans over 6 decades, query points on and next to "
            "knots, refine sets, near-threshold equality pairs and Spline.derivative are generated and compared with a "
            "reference computed from the raw knot array. Sampling, not proof: absence of violations is only shown on "
            "the explored cases.",
            "Trusted: numpy float64, Python fractions, the reference in vp/ref/bspl.py (linear scans, exact rationals).",
            "DESIGN.md section 2, C19"),
}

NOT_YET = "check not built yet in this session (planned in DESIGN.md section 2); not claimed until its machinery is committed"


def main():
    checks = []
    for pid in ALL:
        if pid not in CHECKS:
            continue
        cat, tech, text, note, ref = CHECKS[pid]
        checks.append({
            "property_id": pid,
            "quick_cmd": "/venv/bin/python run_check.py %s --tier quick" % pid,
            "thorough_cmd": "/venv/bin/python run_check.py %s --tier thorough" % pid,
            "evidence_file": "evidence/%s.json" % pid,
            "replay_cmd_template": "/venv/bin/python run_check.py %s --replay {path}" % pid,
            "engine": "vp-hypothesis-runner",
            "level_claimed": {"category": cat, "text": text, "design_ref": ref},
            "level_note": note,
            "technique": tech,
        })
    na = [{"property_id": pid, "reason": NOT_YET} for pid in ALL if pid not in CHECKS]
    man = {
        "version": 1,
        "setup_cmd": "sh ./setup.sh",
        "hooks": {
            "guard": "PYIGA_VERIF",
            "enable": "no source hooks are needed: all checks observe pyiga through its public API and the file "
                      "system; the guard name is reserved and unused",
            "baseline_off_cmd": "cd /repo && /venv/bin/python -m pytest -ra -q -p no:cacheprovider --timeout=900 "
                                "--continue-on-collection-errors",
            "source_commits": [],
            "add_only": True,
        },
        "engines": [
            {"name": "vp-hypothesis-runner", "path": "run_check.py",
             "serves_properties": [c["property_id"] for c in checks],
             "kind_free_text": "Hypothesis 6.168 strategies (and exhaustive itertools enumeration of small finite "
                               "sub-domains) over JSON case specs, 16 crash-isolated shard processes, independent "
                               "reference models in vp/ref, shrunk spec = replay file"},
        ],
        "checks": checks,
        "notes": "All checks: exit 0 = held on everything explored, exit 1 + VIOLATION line, exit 2 = harness error. "
                 "VERIF_SEED / VERIF_TIER honoured. Known findings: known_findings.json.",
        "not_applicable": na,
    }
    with open(os.path.join(VERIF, "MANIFEST.json"), "w") as f:
        json.dump(man, f, indent=1)
    try:
        import jsonschema
        jsonschema.validate(man, json.load(open("/root/.vp/MANIFEST.schema.json")))
        print("MANIFEST.json valid; %d checks, %d not claimed" % (len(checks), len(na)))
    except ImportError:
        print("MANIFEST.json written (jsonschema not available for validation)")


if __name__ == "__main__":
    main()

#!/usr/bin/env python3
"""Print the markdown table of seeded changes (DESIGN.md section 8) from seeded/*/meta.json.

    tools/gen_seeded_table.py 1|2      (round)
"""
import json
import os
import sys

V = os.path.dirname(os.path.dirname(os.path.abspath(__file__)))


def cell(s, n):
    s = " ".join(str(s).replace("|", "/").split())
    return s[:n]


def main():
    rnd = int(sys.argv[1]) if len(sys.argv) > 1 else 1
    rows = ["| Prop | Seeded change | Needs, to manifest | Result | First violation reported |", "|---|---|---|---|---|"]
    for name in sorted(os.listdir(os.path.join(V, "seeded"))):
        p = os.path.join(V, "seeded", name, "meta.json")
        if not os.path.exists(p):
            continue
        m = json.load(open(p))
        if int(m.get("round", 1)) != rnd:
            continue
        ev = m.get("evaluation", {})
        first = m.get("first_violation_after_strengthening")
        if not first:
            for c, r in ev.get("checks", {}).items():
                if r.get("first"):
                    first = r["first"][0].strip()
                    break
        missed = m.get("initially") == "missed" or (rnd == 1 and "missed" in json.dumps(m.get("note", "")))
        res = ("missed at first; caught by %s after strengthening" if missed else "caught by %s") % ", ".join(m.get("caught_by", []) or ["-"])
        rows.append("| %s | %s | %s | %s | `%s` |" % (m["property"], cell(m.get("summary", ""), 260), cell(m.get("needs_to_manifest", ""), 220),
                                                      res, cell(first or "", 110)))
    print("\n".join(rows))


if __name__ == "__main__":
    main()

#!/bin/sh
# Exploration of further seeds on the unchanged tree (never touches evidence/): tools/seed_sweep.sh "51 52" "C02 C04 ..." [jobs]
cd "$(dirname "$0")/.."
mkdir -p .cache/sweep
for s in $1; do for p in $2; do
  VERIF_EVIDENCE_DIR=.cache/sweep/ev-$s VERIF_SEED=$s nice -n 5 /venv/bin/python run_check.py $p --tier ${TIER:-quick} ${3:+--jobs $3} > .cache/sweep/$p-$s.log 2>&1
  echo "$p seed=$s exit=$? $(grep -c VIOLATION .cache/sweep/$p-$s.log) violations" >> .cache/sweep/SUMMARY
done; done
